"""Panic-site inventory of the code C01 is anchored in (DESIGN §2.2 A).

scan()      every syntactic panic site of the CURRENT source outside test code of
            EVERY source file of the five crates (third audit: the whole crate set,
            not a hand-picked list - a new file is anchored the moment it exists),
            keyed by (file, enclosing fn, kind, ordinal of the site among the sites
            of that kind in that fn).  The line text and the SHAPE of the enclosing
            statement (locals abstracted) are carried as secondary hints: renaming
            a local or re-wrapping a line keeps key and shape, a new site has a new
            ordinal (no entry), a site whose statement has another shape than the
            one its entry was written for is reported as changed;
generate()  writes coq/gen/PanicSites.v (the regenerated site list) and
            coq/gen/PanicMap.v (coq/PANIC_MAP.json after validation: an entry
            is dropped when the theorem it cites is not an obligation of the
            cited property, or when the syntactic guard it names no longer
            precedes the site inside its function). The obligation
            C01_every_panic_site_discharged (coq/props/C01.v) is the vm_compute
            check that every regenerated site has an entry in the regenerated
            map; a new, moved or un-guarded site therefore breaks it."""
import glob
import hashlib
import json
import os
import re

import common

CRATES = ("cli", "parser", "program_structure", "program_analysis", "circom_algebra")

# files that must exist (their absence is a problem of its own); the scan covers every source file of CRATES
ANCHORED = [
    "cli/src/main.rs",
    "parser/src/lib.rs", "parser/src/parser_logic.rs", "parser/src/syntax_sugar_remover.rs",
    "parser/src/include_logic.rs", "parser/src/errors.rs", "parser/src/lang.lalrpop",
    "program_structure/src/abstract_syntax_tree/statement_builders.rs",
    "program_structure/src/abstract_syntax_tree/ast_shortcuts.rs",
    "program_structure/src/abstract_syntax_tree/expression_builders.rs",
    "program_structure/src/intermediate_representation/lifting.rs",
    "program_structure/src/intermediate_representation/value_meta.rs",
    "program_structure/src/intermediate_representation/variable_meta.rs",
    "program_structure/src/intermediate_representation/statement_impl.rs",
    "program_structure/src/intermediate_representation/expression_impl.rs",
    "program_structure/src/intermediate_representation/degree_meta.rs",
    "program_structure/src/intermediate_representation/declarations.rs",
    "program_structure/src/control_flow_graph/cfg.rs", "program_structure/src/control_flow_graph/lifting.rs",
    "program_structure/src/control_flow_graph/ssa_impl.rs", "program_structure/src/control_flow_graph/unique_vars.rs",
    "program_structure/src/control_flow_graph/basic_block.rs",
    "program_structure/src/static_single_assignment/*.rs",
    "program_structure/src/utils/writers.rs", "program_structure/src/utils/nonempty_vec.rs",
    "program_structure/src/utils/environment.rs", "program_structure/src/utils/sarif_conversion.rs",
    "circom_algebra/src/modular_arithmetic.rs",
    "program_analysis/src/*.rs",
]

MAP_PATH = os.path.join(common.COQ, "PANIC_MAP.json")

# kind -> regular expression on the code with comments and string contents blanked
PATTERNS = [
    ("unwrap", re.compile(r"\.unwrap\(\)")),
    ("expect", re.compile(r"\.expect\(")),
    ("unwrap_err", re.compile(r"\.(?:unwrap_err|expect_err)\(")),
    ("assert", re.compile(r"\b(?:debug_)?assert(?:_eq|_ne)?!\s*\(")),
    ("panic", re.compile(r"\bpanic!\s*\(")),
    ("unreachable", re.compile(r"\bunreachable!\s*\(")),
    ("unimplemented", re.compile(r"\b(?:unimplemented|todo)!\s*\(")),
    ("split_at", re.compile(r"\.split_at(?:_mut)?\(")),
    # fourth audit: `remove` / `swap_remove` with ANY argument that is not a reference or a string literal (a `&key`
    # cannot be a Vec index); whether the receiver is a map or a vector is decided per entry (`receiver_map`)
    ("remove_index", re.compile(r"\.(?:remove|swap_remove)\(\s*(?![&\"\s])")),
    # `insert` with two arguments (Vec::insert(i, x) panics for i > len; a set's insert has one argument)
    ("insert", re.compile(r"\.insert\(")),
    ("vec_op", re.compile(r"\.(?:swap|drain|split_off|rotate_left|rotate_right|chunks|chunks_exact|chunks_mut|windows|step_by|"
                          r"copy_from_slice|clone_from_slice|select_nth_unstable)\(")),
    # shifts (overflow panics in debug builds), integer / BigInt powers and the floor divisions of num-integer
    ("shift", re.compile(r"(?<=[A-Za-z0-9_\)\]])\s+(?:<<|>>)=?\s+(?=[A-Za-z0-9_\(&*])")),
    ("pow", re.compile(r"(?<!fn )(?:\.|::|\b)(?:pow|modpow|div_floor|mod_floor|div_rem|div_mod_floor|modinv|nth_root|sqrt)\s*\(")),
    ("from_str_radix", re.compile(r"\bfrom_str_radix\(")),
    ("exit", re.compile(r"\b(?:process::)?(?:exit|abort)\(")),
    ("borrow", re.compile(r"\.borrow(?:_mut)?\(\)")),
    ("unsafe", re.compile(r"\bunsafe\b")),
    # postfix indexing / slicing: `[` directly after an identifier, `)` or `]`
    ("index", re.compile(r"(?<=[A-Za-z0-9_\)\]])\[")),
    # integer subtraction (usize underflow panics in debug builds), division and remainder
    ("sub", re.compile(r"(?<=[A-Za-z0-9_\)\]])\s+-=?\s+(?=[A-Za-z0-9_\(&*])")),
    ("div", re.compile(r"(?<=[A-Za-z0-9_\)\]])\s+/=?\s+(?=[A-Za-z0-9_\(&*])")),
    ("rem", re.compile(r"(?<=[A-Za-z0-9_\)\]])\s+%=?\s+(?=[A-Za-z0-9_\(&*])")),
    # third audit: integer addition / multiplication (overflow panics in debug builds) unless an operand is a
    # small integer literal (add only: `n + 1` on a length or counter) or both operands are CamelCase names
    # (trait bounds `A + B`); see small_or_bound()
    ("add", re.compile(r"(?<=[A-Za-z0-9_\)\]])\s+\+=?\s+(?=[A-Za-z0-9_\(&*])")),
    ("mul", re.compile(r"(?<=[A-Za-z0-9_\)\]])\s+\*=?\s+(?=[A-Za-z0-9_\(&*])")),
]

_CAMEL = re.compile(r"[A-Z][A-Za-z0-9]*[a-z][A-Za-z0-9]*$")


def small_or_bound(code, m, kind):
    """True when the `+` / `*` at match m is not counted: a small literal operand of `+`, or a bound `Trait + Trait`."""
    left = re.search(r"([A-Za-z0-9_]+)$", code[max(0, m.start() - 80):m.start()])
    right = re.match(r"([A-Za-z0-9_]+)", code[m.end():m.end() + 80])
    lt, rt = (left.group(1) if left else ""), (right.group(1) if right else "")
    if lt and rt and _CAMEL.match(lt) and _CAMEL.match(rt):
        return True
    if kind == "add":
        for t in (lt, rt):
            if re.fullmatch(r"[0-9]{1,5}", t) and int(t) < 65536:
                # the literal must be the whole operand (not `x.0`, not `a1`)
                if t is rt and not re.match(r"[0-9]+\s*[\.\[\(]", code[m.end():m.end() + 12]):
                    return True
                if t is lt and not re.search(r"[\.\w]\s*$", code[max(0, m.start() - len(t) - 1):m.start() - len(t)]):
                    return True
    return False


_KEEP = {"self", "Self", "super", "crate", "as", "in", "if", "else", "match", "let", "mut", "ref", "return", "for",
         "while", "loop", "move", "fn", "pub", "impl", "where", "unsafe", "break", "continue", "true", "false"}


def shape_of(stmt, limit=240):
    """The statement text with what a harmless rewrite changes removed: white space, and the names of locals and
    fields (lower-case identifiers that are not called: not followed by `(`, `!` or `::`)."""
    def sub(m):
        w = m.group(0)
        rest = stmt[m.end():m.end() + 3].lstrip()
        if w in _KEEP or w[0].isupper() or w[0].isdigit() or rest.startswith("(") or rest.startswith("!") \
                or rest.startswith("::"):
            return w
        return "_"
    out = re.sub(r"[A-Za-z_][A-Za-z0-9_]*|[0-9][A-Za-z0-9_]*", sub, stmt)
    out = re.sub(r"\s+", "", out)
    return out if limit is None else out[:limit]


def blank(text, lalrpop=False):
    """Comments -> blanks; contents of string / char literals -> blanks (the
    delimiters stay). Length and line structure are preserved."""
    out = list(text)
    i, n = 0, len(text)

    def fill(a, b):
        for k in range(a, b):
            if out[k] != "\n":
                out[k] = " "
    while i < n:
        c = text[i]
        if text.startswith("//", i):
            j = text.find("\n", i)
            j = n if j < 0 else j
            fill(i, j)
            i = j
        elif text.startswith("/*", i):
            depth, j = 1, i + 2
            while j < n and depth:
                if text.startswith("/*", j):
                    depth += 1
                    j += 2
                elif text.startswith("*/", j):
                    depth -= 1
                    j += 2
                else:
                    j += 1
            fill(i, j)
            i = j
        elif c == "r" and re.match(r'r#*"', text[i:i + 8]) and (i == 0 or not (text[i - 1].isalnum() or text[i - 1] == "_")):
            m = re.match(r'r(#*)"', text[i:])
            close = '"' + m.group(1)
            j = text.find(close, i + len(m.group(0)))
            j = n if j < 0 else j
            fill(i + len(m.group(0)), j)
            i = j + len(close)
        elif c == '"':
            j = i + 1
            while j < n and text[j] != '"':
                j += 2 if text[j] == "\\" else 1
            fill(i + 1, min(j, n))
            i = j + 1
        elif c == "'":
            m = re.match(r"'(\\.[^']*|[^'\\])'", text[i:])
            if m:
                fill(i + 1, i + len(m.group(0)) - 1)
                i += len(m.group(0))
            else:
                i += 1          # a lifetime
        else:
            i += 1
    return "".join(out)


def match_brace(code, start):
    depth = 0
    for k in range(start, len(code)):
        if code[k] == "{":
            depth += 1
        elif code[k] == "}":
            depth -= 1
            if depth == 0:
                return k + 1
    return len(code)


def drop_tests(code):
    """Blanks `#[cfg(test)]` items (modules, functions, imports) and `#[test]` functions."""
    out = list(code)
    for m in re.finditer(r"#\[\s*(?:cfg\s*\(\s*test\s*\)|test)\s*\]", code):
        brace = code.find("{", m.end())
        semi = code.find(";", m.end())
        if brace < 0 or (0 <= semi < brace):
            end = semi + 1 if semi >= 0 else len(code)
        else:
            end = match_brace(code, brace)
        for k in range(m.start(), end):
            if out[k] != "\n":
                out[k] = " "
    return "".join(out)


def functions(code, lalrpop):
    """[(name, body_start, body_end)] of all fn items (innermost match wins);
    for the grammar file: the non-terminals."""
    res = []
    if lalrpop:
        for m in re.finditer(r"(?m)^(?:pub\s+)?([A-Za-z_][A-Za-z0-9_]*)(?:<[^>]*>)?\s*(?::[^=]*)?=\s*\{", code):
            res.append((m.group(1), m.end() - 1, match_brace(code, m.end() - 1)))
        for m in re.finditer(r"(?m)^(?:pub\s+)?([A-Za-z_][A-Za-z0-9_]*)\s*=\s*[A-Za-z][^;{]*;", code):
            res.append((m.group(1), m.start(), m.end()))
        return res
    for m in re.finditer(r"\bfn\s+([A-Za-z_][A-Za-z0-9_]*)", code):
        k = m.end()
        depth = 0
        while k < len(code):            # the body is the first `{` outside the signature's brackets
            ch = code[k]
            if ch in "(<[":
                depth += 1
            elif ch in ")>]":
                depth -= 1 if not (ch == ">" and code[k - 1] == "-") else 0
            elif ch == ";" and depth <= 0:
                k = -1
                break
            elif ch == "{" and depth <= 0:
                break
            k += 1
        if k < 0 or k >= len(code):
            continue
        res.append((m.group(1), k, match_brace(code, k)))
    # qualify methods by their impl block
    impls = []
    for m in re.finditer(r"\bimpl\b[^{;]*\{", code):
        head = re.sub(r"\s+", " ", code[m.start():m.end() - 1]).strip()
        head = re.sub(r"^impl\s*(<[^>]*>)?\s*", "", head)
        impls.append((head, m.end() - 1, match_brace(code, m.end() - 1)))
    out = []
    for name, a, b in res:
        owner = [h for h, x, y in impls if x <= a < y]
        if owner:
            h = min(((y - x, h) for h, x, y in impls if x <= a < y))[1]
            tgt = h.split(" for ")[-1].strip()
            tgt = re.sub(r"<.*", "", tgt)
            name = "%s::%s" % (tgt, name)
        out.append((name, a, b))
    return out


def top_level_args(code, open_paren):
    """Number of top-level arguments of the call whose `(` is at open_paren (0 for `()`)."""
    depth, n, seen = 0, 0, False
    for k in range(open_paren, min(len(code), open_paren + 4000)):
        ch = code[k]
        if ch in "([{":
            depth += 1
        elif ch in ")]}":
            depth -= 1
            if depth == 0:
                return n + 1 if seen else 0
        elif ch == "," and depth == 1:
            n += 1
        elif depth >= 1 and not ch.isspace():
            seen = True
        if ch == "|" and depth == 1:
            pass
    return 2


MAP_TYPES = r"(?:HashMap|HashSet|BTreeMap|BTreeSet|IndexMap|IndexSet)"


def receiver_name(code, pos):
    """Last identifier of the receiver chain that ends at the `.` at pos (`self.template_cfgs.insert(` -> template_cfgs)."""
    m = re.search(r"([A-Za-z_][A-Za-z0-9_]*)\s*$", code[max(0, pos - 120):pos])
    return m.group(1) if m else None


def _all_sources():
    if not _sources:
        for crate in CRATES:
            for f in common.tree_files(os.path.join(common.REPO, crate, "src"), (".rs", ".lalrpop")):
                rel = os.path.relpath(f, common.REPO)
                _sources[rel] = drop_tests(blank(open(f, encoding="utf-8", errors="replace").read()))
    return _sources


def map_receiver(rel, name):
    """The map / set type the identifier `name` is DECLARED with in file rel (field, parameter, `let` with a type or
    with a `HashMap::..` constructor; a type alias of the workspace is followed once), or None."""
    code = _all_sources().get(rel, "")
    n = re.escape(name)
    if re.search(r"\b%s\s*:\s*(?:&\s*(?:'\w+\s+)?(?:mut\s+)?)?(?:Vec|VecDeque|\[|NonEmptyVec|String|BasicBlockVec)" % n, code) or \
            re.search(r"\b%s\s*(?::[^=;]*)?=\s*(?:Vec::|vec!|VecDeque::|String::)" % n, code):
        return None         # the file declares something of that name that is a sequence: decided by hand
    m = re.search(r"\b%s\s*:\s*(?:&\s*(?:'\w+\s+)?(?:mut\s+)?)?(?:std::collections::)?(%s)\b" % (n, MAP_TYPES), code)
    if m:
        return m.group(1)
    m = re.search(r"\b%s\s*(?::[^=;]*)?=\s*(?:std::collections::)?(%s)::" % (n, MAP_TYPES), code)
    if m:
        return m.group(1)
    for m in re.finditer(r"\b%s\s*:\s*(?:&\s*(?:'\w+\s+)?(?:mut\s+)?)?([A-Z][A-Za-z0-9_]*)\b" % n, code):
        alias = m.group(1)
        for other in _all_sources().values():
            a = re.search(r"\btype\s+%s\s*(?:<[^>]*>)?\s*=\s*(?:std::collections::)?(%s)\b" % (re.escape(alias), MAP_TYPES), other)
            if a:
                return a.group(1) + " (alias %s)" % alias
    return None


def core_of(code, pos, kind):
    """For an `index` site: the indexed expression itself, `receiver[..]` with white space removed (receiver = the
    identifier chain before the bracket).  None for the other kinds.  An entry whose statement SHAPE changed but whose
    core is literally the same (the expression was moved into a closure, a condition was added next to it) is
    counted as drift - its guards are still validated - and not reported as `site changed`."""
    if kind != "index":
        return None
    m = re.search(r"([A-Za-z_][A-Za-z0-9_\.]*(?:\(\))?)\s*$", code[max(0, pos - 120):pos])
    depth = 0
    for k in range(pos, min(len(code), pos + 400)):
        if code[k] == "[":
            depth += 1
        elif code[k] == "]":
            depth -= 1
            if depth == 0:
                return re.sub(r"\s+", "", (m.group(1) if m else "") + code[pos:k + 1])
    return None


def stmt_bounds(code, pos):
    """[a, b) of the statement around pos: from the previous `;` `{` `}` `,` to the next one (in the blanked code)."""
    a = pos
    while a > 0 and code[a - 1] not in ";{},":
        a -= 1
    b = pos
    while b < len(code) and code[b] not in ";{},":
        b += 1
    return a, b


def scan_file(rel):
    path = os.path.join(common.REPO, rel)
    text = open(path, encoding="utf-8", errors="replace").read()
    lal = rel.endswith(".lalrpop")
    code = drop_tests(blank(text, lal))
    fns = functions(code, lal)
    line_start = [0]
    for m in re.finditer(r"\n", text):
        line_start.append(m.end())
    import bisect
    sites = []
    for kind, rx in PATTERNS:
        for m in rx.finditer(code):
            pos = m.start()
            if kind == "index":
                # not an attribute, not a macro body opener, not an array type
                before = code[max(0, pos - 40):pos]
                if re.search(r"#!?\s*$", before):
                    continue
            if kind in ("add", "mul") and small_or_bound(code, m, kind):
                continue
            if kind == "insert" and top_level_args(code, m.end() - 1) < 2:
                continue
            if kind == "pow" and re.search(r"\bfn\s+$", code[max(0, pos - 8):pos + 1].replace(".", " ").replace(":", " ")):
                continue
            ln = bisect.bisect_right(line_start, pos) - 1
            a = line_start[ln]
            b = line_start[ln + 1] if ln + 1 < len(line_start) else len(text)
            if not code[a:b].strip():
                continue
            inner = [(y - x, nm, x, y) for nm, x, y in fns if x <= pos < y]
            if inner:
                _, fn, fa, fb = min(inner)
            else:
                fn, fa, fb = "<top>", 0, len(code)
            norm = re.sub(r"\s+", " ", text[a:b]).strip()[:160]
            sa, sb = stmt_bounds(code, pos)
            sites.append({"file": rel, "fn": fn, "kind": kind, "text": norm, "line": ln + 1, "pos": pos,
                          "shape": shape_of(code[sa:sb]), "core": core_of(code, pos, kind),
                          "fn_before": re.sub(r"\s+", " ", text[fa:pos]), "fn_before_code": code[fa:b], "fn_start": fa,
                          "at_site": code[pos:pos + 80]})
    return sites


def anchored_files():
    """Every .rs / .lalrpop file under <crate>/src of the five crates (plus whatever ANCHORED names elsewhere)."""
    files = set()
    for crate in CRATES:
        for f in common.tree_files(os.path.join(common.REPO, crate, "src"), (".rs", ".lalrpop")):
            files.add(os.path.relpath(f, common.REPO))
    for pat in ANCHORED:
        for h in glob.glob(os.path.join(common.REPO, pat)):
            files.add(os.path.relpath(h, common.REPO))
    return sorted(files)


def scan():
    files = anchored_files()
    sites = []
    missing = [p for p in ANCHORED if not glob.glob(os.path.join(common.REPO, p))]
    for rel in files:
        sites.extend(scan_file(rel))
    sites.sort(key=lambda s: (s["file"], s["pos"], s["kind"]))
    seen, seen_old = {}, {}
    for s in sites:
        k = (s["file"], s["fn"], s["kind"])
        s["occ"] = seen.get(k, 0)
        seen[k] = s["occ"] + 1
        s["key"] = "%s::%s::%s#%d" % (s["file"], s["fn"], s["kind"], s["occ"])
        s["id"] = hashlib.sha256(s["key"].encode()).hexdigest()[:16]
        # the key of the first two audits (line text + occurrence), kept for the migration of the map only
        ko = (s["file"], s["fn"], s["kind"], s["text"])
        o = seen_old.get(ko, 0)
        seen_old[ko] = o + 1
        s["old_key"] = "%s::%s::%s::%s#%d" % (s["file"], s["fn"], s["kind"], s["text"], o)
    _last_files[:] = files
    return sites, missing


_last_files = []


def coq_str(s):
    return '"' + s.replace('"', '""') + '"'


def obligations_of_props():
    """{property: set of theorem names that carry a Print Assumptions}"""
    out = {}
    for f in sorted(glob.glob(os.path.join(common.COQ, "props", "C*.v"))):
        prop = os.path.basename(f)[:-2]
        if prop == "C01":
            body = common.strip_coq_comments(open(f).read())
            out[prop] = set(re.findall(r"\b(?:Theorem|Lemma|Corollary)\s+([A-Za-z0-9_']+)", body))
            continue
        thms, printed = common.props_obligations(prop)
        out[prop] = set(t for t in thms if t in printed)
    return out


_sources = {}


def called_outside(method, own_file):
    """Files (non-test code of the five crates) that call `.method(` or `::method(`.  Fourth audit: the defining file
    is searched too (a call from another method of the same file is a call); the definition `fn method(` itself is
    not a call."""
    rx = re.compile(r"(?:\.|::)%s\s*\(" % re.escape(method))
    return [rel for rel, code in sorted(_all_sources().items()) if rx.search(code)]


def call_counts(method):
    """{file: number of `.method(` / `::method(` calls} over the non-test code of the five crates."""
    rx = re.compile(r"(?:\.|::)%s\s*\(" % re.escape(method))
    out = {}
    for rel, code in sorted(_all_sources().items()):
        n = len(rx.findall(code))
        if n:
            out[rel] = n
    return out


_cited = {}
_drift = []
_relocated = []
_rewritten = []
DISPOSITIONS = ("discharged_by", "guarded", "outside_model", "observed_only")
_last = {}


def load_map():
    try:
        return json.load(open(MAP_PATH))
    except OSError:
        return {}


def validate(sites, pmap):
    """-> (valid entries {id: (disposition, text)}, problems [str])"""
    obl = obligations_of_props()
    valid, problems = {}, []
    drift = _drift
    del drift[:]
    # fourth audit: a function that was RENAMED or MOVED to another file takes its entries along.  A site without an
    # entry is paired with an entry without a site when kind and statement shape agree and either the file or the
    # function name is the same; the pairing is counted (`entries_followed_to_a_renamed_or_moved_function`), the
    # entry is then validated against the site like any other (guards, citations, call counts).
    pmap = dict(pmap)
    del _relocated[:]
    del _rewritten[:]
    have = set(s["key"] for s in sites)
    orphans = sorted(k for k in pmap if k not in have)

    def parts(key):
        bits = key.split("::")
        return bits[0], "::".join(bits[1:-1]), bits[-1].split("#")[0]
    for s in sites:
        if s["key"] in pmap:
            continue
        for k in orphans:
            f, fn, kind = parts(k)
            if kind == s["kind"] and pmap[k].get("shape") == s["shape"] and (f == s["file"] or fn == s["fn"]):
                pmap[s["key"]] = pmap.pop(k)
                orphans.remove(k)
                _relocated.append((k, s["key"]))
                break
    for s in sites:
        e = pmap.get(s["key"])
        if e is None:
            problems.append("unmapped site: %s (line %d: %s)" % (s["key"], s["line"], s["text"]))
            continue
        if e.get("shape") is not None and e["shape"] != s["shape"] and e.get("core") and e["core"] == s.get("core") \
                and any(k in e for k in ("guard_text", "site_is")):
            # fourth audit, follow-up: the statement around the site was rewritten but the indexed expression is
            # literally the same and the entry has a guard that is validated below: drift, not a changed site
            _rewritten.append(s["key"])
        elif e.get("shape") is not None and e["shape"] != s["shape"]:
            # the entry was written for another expression: ordinals shifted (a site was inserted or removed
            # before this one) or the statement itself was rewritten beyond names and layout
            problems.append("site changed: %s now reads `%s` (line %d), its entry was written for the shape `%s` (%s)"
                            % (s["key"], s["text"], s["line"], e["shape"], e.get("text", "")))
            continue
        if e.get("text") is not None and e["text"] != s["text"]:
            drift.append(s["key"])
        kinds = [d for d in DISPOSITIONS if d in e]
        if len(kinds) != 1 and not (set(kinds) == {"discharged_by", "guarded"}):
            problems.append("entry needs exactly one disposition: " + s["key"])
            continue
        ok = True
        if "discharged_by" in e:
            for thm in re.split(r"[,\s]+", e["discharged_by"].strip()):
                m = re.match(r"(C\d\d)_", thm)
                if not m or thm not in obl.get(m.group(1), set()):
                    problems.append("cited theorem %s is not an obligation of its property (site %s)" % (thm, s["key"]))
                    ok = False
        if "guard_text" in e:
            g = re.sub(r"\s+", " ", e["guard_text"]).strip()
            # literally, or up to the names of locals (a renamed local does not remove a guard)
            # fourth audit: the guard must PRECEDE the site (the site's own line does not count: `[..]`, `env.prime()`
            # used to be "guards" satisfied by the very expression they guard - those are `site_is` entries now)
            if not g or (g not in s["fn_before"]
                         and shape_of(blank(g), None) not in shape_of(s["fn_before_code"][:s["pos"] - s["fn_start"]], None)):
                problems.append("guard `%s` no longer precedes the site inside its function: %s" % (g, s["key"]))
                ok = False
        if "site_is" in e:
            # the expression AT the site, white space removed, starts with this text (e.g. `[..]`: a full-range slice)
            here = re.sub(r"\s+", "", s["at_site"])
            if not here.startswith(re.sub(r"\s+", "", e["site_is"])):
                problems.append("the site no longer reads `%s` (it reads `%s`): %s" % (e["site_is"], s["at_site"][:40], s["key"]))
                ok = False
        if "receiver_map" in e:
            got = map_receiver(s["file"], e["receiver_map"])
            if receiver_name(_all_sources().get(s["file"], ""), s["pos"]) != e["receiver_map"] or not got:
                problems.append("the receiver of the call is no longer `%s` declared as a map / set in %s: %s"
                                % (e["receiver_map"], s["file"], s["key"]))
                ok = False
        if "call_counts" in e:
            now = call_counts(e["call_counts"]["method"])
            if now != e["call_counts"]["counts"]:
                diff = sorted(set(now.items()) ^ set(e["call_counts"]["counts"].items()))
                problems.append("the calls of a method named %s changed (%s); the entry of %s was written for %s"
                                % (e["call_counts"]["method"], diff[:4], s["key"], e["call_counts"]["counts"]))
                ok = False
        if "guard_in" in e:
            try:
                other = re.sub(r"\s+", " ", open(os.path.join(common.REPO, e["guard_in"]["file"])).read())
            except OSError:
                other = ""
            if re.sub(r"\s+", " ", e["guard_in"]["text"]).strip() not in other:
                problems.append("guard text no longer present in %s: %s" % (e["guard_in"]["file"], s["key"]))
                ok = False
        if "uncalled" in e:
            for meth in ([e["uncalled"]] if isinstance(e["uncalled"], str) else e["uncalled"]):
                callers = called_outside(meth, s["file"])
                if callers:
                    problems.append("method %s is called from %s, entry says it is not called: %s" % (meth, callers[0], s["key"]))
                    ok = False
        if "called_only_from" in e:
            # third audit: a CALL into a panicking accessor from a file the entry does not know is a change of the
            # set of paths that reach the site
            allowed = set(e["called_only_from"]["files"])
            callers = [c for c in called_outside(e["called_only_from"]["method"], "") if c not in allowed]
            if callers:
                problems.append("method %s is now also called from %s, the entry of %s lists its callers as %s"
                                % (e["called_only_from"]["method"], callers[0], s["key"], sorted(allowed)))
                ok = False
        if "guarded" in e and not any(k in e for k in ("guard_text", "guard_in", "uncalled", "called_only_from", "site_is", "receiver_map", "call_counts")):
            problems.append("guarded entry without a checkable guard: " + s["key"])
            ok = False
        if not (e.get("why") or e.get("observed_only") or e.get("outside_model") or "").strip() and "discharged_by" not in e:
            problems.append("entry without a reason: " + s["key"])
            ok = False
        if ok:
            d = "discharged_by" if "discharged_by" in e else kinds[0]
            valid[s["id"]] = (d, e.get(d), e.get("why", ""))
    stale = sorted(set(pmap) - set(s["key"] for s in sites))
    return valid, problems, stale


def generate():
    sites, missing = scan()
    pmap = load_map()
    valid, problems, stale = validate(sites, pmap)
    for p in missing:
        problems.append("anchored file missing: " + p)
    o = ["(* GENERATED by lib/panicsites.py from the current source of the files C01 is anchored in.",
         "   One record per syntactic panic site outside test code. Do not edit: rewritten by ./check C01. *)",
         "From Coq Require Import String List.", "Import ListNotations.", "Local Open Scope string_scope.", "",
         "Record site := { s_id : string; s_file : string; s_fn : string; s_kind : string; s_text : string; s_occ : nat }.",
         "", "Definition sites : list site := ["]
    rows = []
    for s in sites:
        rows.append("  {| s_id := %s; s_file := %s; s_fn := %s; s_kind := %s; s_text := %s; s_occ := %d |}" % (
            coq_str(s["id"]), coq_str(s["file"]), coq_str(s["fn"]), coq_str(s["kind"]), coq_str(s["text"]), s["occ"]))
    o.append(";\n".join(rows))
    o.append("].")
    o.append("")
    o.append("Definition anchored_files_missing : list string := [%s]." % "; ".join(coq_str(m) for m in missing))
    common.write_if_changed(os.path.join(common.COQ, "gen", "PanicSites.v"), "\n".join(o) + "\n")
    m = ["(* GENERATED by lib/panicsites.py from coq/PANIC_MAP.json (hand-maintained). An entry is listed",
         "   only if it passed validation: cited theorems are obligations of their property, named guards still",
         "   precede the site inside its function. Do not edit: rewritten by ./check C01. *)",
         "From Coq Require Import String List.", "Import ListNotations.", "Local Open Scope string_scope.", "",
         "Inductive disposition :=", "| DischargedBy (theorems : string)", "| Guarded (guard : string)",
         "| OutsideModel (reason : string)", "| ObservedOnly (reason : string).", "",
         "Definition panic_map : list (string * disposition) := ["]
    ctor = {"discharged_by": "DischargedBy", "guarded": "Guarded", "outside_model": "OutsideModel", "observed_only": "ObservedOnly"}
    rows = []
    for s in sites:
        if s["id"] in valid:
            d, txt, why = valid[s["id"]]
            rows.append("  (%s, %s %s)" % (coq_str(s["id"]), ctor[d], coq_str((txt or why or "")[:200])))
    m.append(";\n".join(rows))
    m.append("].")
    common.write_if_changed(os.path.join(common.COQ, "gen", "PanicMap.v"), "\n".join(m) + "\n")
    # every citation of a valid entry, resolved by Coq itself: `Check Props.Cnn.<name>.`  The file
    # depends on the props files (C01's own included), so it cannot be imported by props/C01.v; it is
    # compiled by lib/props/C01.py after the proof obligations (cites_check()).  A renamed or deleted
    # theorem makes it fail to compile whatever the regular expressions of validate() think.
    cited = {}
    for s in sites:
        if s["id"] in valid and valid[s["id"]][0] == "discharged_by":
            for thm in re.split(r"[,\s]+", (valid[s["id"]][1] or "").strip()):
                mm = re.match(r"(C\d\d)_", thm)
                if mm:
                    cited.setdefault(mm.group(1), set()).add(thm)
    for old in glob.glob(os.path.join(common.COQ, "gen", "PanicCites*.v")):
        if os.path.basename(old)[len("PanicCites"):-2] not in cited:
            for ext in ("v", "vo", "vok", "vos", "glob"):
                try:
                    os.remove(old[:-1] + ext)
                except OSError:
                    pass
    for prop in sorted(cited):
        nsites = sum(1 for s in sites if s["id"] in valid and valid[s["id"]][0] == "discharged_by"
                     and re.search(r"\b%s_" % prop, valid[s["id"]][1] or ""))
        c = ["(* GENERATED by lib/panicsites.py: one `Check` per theorem of %s that a valid entry of" % prop,
             "   coq/PANIC_MAP.json cites (%d theorems, cited by %d sites). Compiled by ./check C01 after" % (len(cited[prop]), nsites),
             "   props/C01.vo; a name that no longer resolves breaks this file. Do not edit. *)",
             "Require Props.%s." % prop]
        for thm in sorted(cited[prop]):
            c.append("Check Props.%s.%s." % (prop, thm))
        common.write_if_changed(os.path.join(common.COQ, "gen", "PanicCites%s.v" % prop), "\n".join(c) + "\n")
    _cited.clear()
    _cited.update({k: sorted(v) for k, v in cited.items()})
    by = {}
    for s in sites:
        d = valid.get(s["id"], ("UNMAPPED",))[0]
        by[d] = by.get(d, 0) + 1
    _sources.clear()
    _last.clear()
    _last.update({"sites": len(sites), "by_disposition": by, "problems": problems[:40], "problem_count": len(problems),
                  "stale_map_entries": len(stale), "stale_map_entries_listed": stale[:20], "entries_whose_line_text_drifted_shape_kept": len(_drift),
                  "entries_whose_statement_was_rewritten_around_the_same_indexed_expression": len(_rewritten),
                  "entries_followed_to_a_renamed_or_moved_function": len(_relocated), "relocations": _relocated[:10],
                  "keying": "file::fn::kind#ordinal-in-fn; secondary hint: shape of the enclosing statement",
                  "files_scanned": len(_last_files), "time_box": time_box(), "by_kind": _count(sites, "kind"), "files": len(set(s["file"] for s in sites))})
    for p in problems[:12]:
        common.log("panic-site inventory: " + p)
    for k in stale[:12]:
        common.log("panic-site inventory: entry without a site (the site was removed or its function renamed / moved): " + k)
    return sites, valid, problems, stale


def time_box():
    """MAX_ANALYSIS_DURATION of control_flow_graph/cfg.rs in seconds (None when the declaration is not found) and
    the number of places that compare an elapsed time with it."""
    try:
        code = blank(open(os.path.join(common.REPO, "program_structure/src/control_flow_graph/cfg.rs"),
                          encoding="utf-8", errors="replace").read())
    except OSError:
        return {"seconds": None, "uses": 0}
    m = re.search(r"\bconst\s+MAX_ANALYSIS_DURATION\s*:\s*(?:std::time::)?Duration\s*=\s*(?:std::time::)?Duration::"
                  r"(from_secs|from_millis|from_micros|from_nanos|from_secs_f64|from_secs_f32|new)\s*\(\s*([0-9_\.]+?)_?(?:u64|u32|u128|usize|f64|f32)?\s*"
                  r"(?:,\s*([0-9_]+?)_?(?:u32)?\s*)?\)", code)
    secs = None
    if m:
        v = float(m.group(2).replace("_", ""))
        unit = {"from_secs": 1.0, "from_millis": 1e-3, "from_micros": 1e-6, "from_nanos": 1e-9, "from_secs_f64": 1.0,
                "from_secs_f32": 1.0, "new": 1.0}[m.group(1)]
        secs = v * unit + (float(m.group(3).replace("_", "")) * 1e-9 if m.group(3) else 0.0)
    # either orientation of the comparison, with or without a path prefix
    uses = len(re.findall(r"\.elapsed\(\)\s*>=?\s*(?:\w+::)*MAX_ANALYSIS_DURATION\b", code)) \
        + len(re.findall(r"\bMAX_ANALYSIS_DURATION\s*<=?\s*[\w\.]+\.elapsed\(\)", code))
    return {"seconds": secs, "uses": uses}


def _count(sites, field):
    out = {}
    for s in sites:
        out[s[field]] = out.get(s[field], 0) + 1
    return out


def summary():
    return dict(_last)


def cites_check(timeout=300):
    """Compile coq/gen/PanicCites<Cnn>.v (written by generate()), one file per cited property.
    -> (unresolved [(property, tail of coqc output)], unchecked [(property, tail)], theorems checked).
    `unresolved`: the error is in the generated file itself (a cited name is gone); `unchecked`: a file of
    the cited property does not build at the moment (that property's own check reports it; the Python
    validation of validate() still holds for these citations)."""
    unresolved, unchecked, n = [], [], 0
    for prop in sorted(_cited):
        rc, out = common.coq_make(["gen/PanicCites%s.vo" % prop], timeout=timeout)
        if rc == 0:
            n += len(_cited[prop])
        elif re.search(r'File "\./gen/PanicCites%s\.v"' % prop, out):
            unresolved.append((prop, out[-1200:]))
        else:
            unchecked.append((prop, out[-600:]))
    _last["citations_checked_by_coq"] = n
    _last["citations_by_property"] = {k: len(v) for k, v in _cited.items()}
    _last["citations_unresolved"] = [p for p, _ in unresolved]
    _last["citations_not_checked_dependency_broken"] = [p for p, _ in unchecked]
    return unresolved, unchecked, n


def unmapped_summary():
    return {"problems": _last.get("problems", []), "problem_count": _last.get("problem_count", 0)}
