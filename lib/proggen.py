"""Seeded generator of Circom functions and templates for the IR-level engines
(propagation, SSA): all 20 infix and 3 prefix operators, ternaries, literals at
the field boundaries, nested if/while/for, arrays updated element-wise, calls,
signals and components. Mostly valid programs plus a small invalid stream
(uninitialised reads)."""
import random

PRIMES = {
    "BN254": 21888242871839275222246405745257275088548364400416034343698204186575808495617,
    "BLS12_381": 52435875175126190479447740508185965837690552500527637822603658699938581184513,
    "GOLDILOCKS": 18446744069414584321,
}

INFIX = ["*", "/", "+", "-", "**", "\\", "%", "<<", ">>", "<=", ">=", "<", ">", "==", "!=", "||", "&&", "|", "&", "^"]
ARITH = ["*", "+", "-", "*", "+"]
PREFIX = ["-", "~", "!"]


class Gen:
    def __init__(self, rng, curve="BN254", template=None, max_depth=3, size=8):
        self.r = rng
        self.p = PRIMES[curve]
        self.template = rng.random() < 0.55 if template is None else template
        self.max_depth = max_depth
        self.size = size
        self.locals = []        # scalar locals in scope (declared & initialised)
        self.uninit = []        # declared without initialiser
        self.arrays = []        # (name, len)
        self.params = []
        self.sig_in = []
        self.sig_out = []
        self.sig_mid = []
        self.counter = 0
        self.depth_now = 0         # nesting depth of the block being generated
        self.outer_names = []      # scalar locals declared in enclosing blocks
        self.features = set()

    # ---- expressions ----
    def literal(self):
        r = self.r
        p = self.p
        c = r.random()
        if c < 0.45:
            return str(r.choice([0, 1, 2, 3, 5, 7, 8, 16, 255, 256]))
        if c < 0.7:
            return str(r.choice([p - 1, p - 2, p // 2, p // 2 + 1, p // 2 - 1, 253, 254, 255, (1 << 64), (1 << 128) + 1]))
        if c < 0.85:
            return str(r.randrange(p))
        return str(r.randrange(1 << 16))

    def atoms(self, signals_ok):
        a = list(self.locals) + list(self.params)
        if signals_ok:
            a += self.sig_in + self.sig_mid
        return a

    def expr(self, depth, signals_ok=True, arith_only=False):
        r = self.r
        if depth <= 0 or r.random() < 0.3:
            at = self.atoms(signals_ok)
            c = r.random()
            if at and c < 0.6:
                return r.choice(at)
            if self.arrays and c < 0.7:
                n, ln = r.choice(self.arrays)
                self.features.add("array-read")
                idx = str(r.randrange(ln)) if r.random() < 0.6 else self.expr(0, signals_ok)
                return "%s[%s]" % (n, idx)
            if self.uninit and c < 0.73:
                self.features.add("uninit-read")
                return r.choice(self.uninit)
            return self.literal()
        c = r.random()
        if c < 0.62:
            op = r.choice(ARITH) if (arith_only or r.random() < 0.35) else r.choice(INFIX)
            self.features.add("op" + op)
            return "(%s %s %s)" % (self.expr(depth - 1, signals_ok, arith_only), op, self.expr(depth - 1, signals_ok, arith_only))
        if c < 0.74 and not arith_only:
            op = r.choice(PREFIX)
            self.features.add("pre" + op)
            return "(%s%s)" % (op, self.expr(depth - 1, signals_ok))
        if c < 0.84 and not arith_only:
            self.features.add("ternary")
            if r.random() < 0.45:      # a field element as condition (non-zero is true), e.g. a negative constant
                self.features.add("ternary-field-cond")
                c = self.expr(depth - 1, signals_ok)
            else:
                c = self.cond(depth - 1, signals_ok)
            return "(%s ? %s : %s)" % (c, self.expr(depth - 1, signals_ok), self.expr(depth - 1, signals_ok))
        if c < 0.9 and not arith_only:
            self.features.add("call")
            return "ext(%s)" % ", ".join(self.expr(depth - 1, signals_ok) for _ in range(r.randrange(0, 3)))
        return self.expr(depth - 1, signals_ok, arith_only)

    def cond(self, depth, signals_ok=True):
        r = self.r
        op = r.choice(["<", "<=", ">", ">=", "==", "!=", "==", "<"])
        c = "(%s %s %s)" % (self.expr(depth, signals_ok), op, self.expr(max(0, depth - 1), signals_ok))
        if r.random() < 0.2:
            c = "(%s %s %s)" % (c, r.choice(["&&", "||"]), self.cond(0, signals_ok))
        if r.random() < 0.1:
            c = "(!%s)" % c
        return c

    # ---- statements ----
    def fresh(self, prefix):
        if prefix == "v" and self.depth_now > 0 and self.outer_names and self.r.random() < 0.3:
            self.features.add("shadowing")
            return self.r.choice(self.outer_names)
        self.counter += 1
        return "%s%d" % (prefix, self.counter)

    def stmt(self, depth, in_loop):
        r = self.r
        c = r.random()
        ind = "  " * (self.max_depth - depth + 1)
        if c < 0.2 or not self.locals:
            n = self.fresh("v")
            if r.random() < 0.08:
                self.uninit.append(n)
                self.features.add("uninit-decl")
                return ["%svar %s;" % (ind, n)]
            s = "%svar %s = %s;" % (ind, n, self.expr(2))
            self.locals.append(n)
            return [s]
        if c < 0.27:
            n = self.fresh("arr")
            ln = r.randrange(1, 4)
            self.arrays.append((n, ln))
            self.features.add("array-decl")
            return ["%svar %s[%d] = [%s];" % (ind, n, ln, ", ".join(self.expr(1) for _ in range(ln)))]
        if c < 0.45:
            v = r.choice(self.locals + self.uninit)
            if v in self.uninit and r.random() < 0.7:
                self.uninit.remove(v)
                self.locals.append(v)
            k = r.random()
            if k < 0.6:
                return ["%s%s = %s;" % (ind, v, self.expr(2))]
            if k < 0.85:
                self.features.add("compound")
                return ["%s%s %s= %s;" % (ind, v, r.choice(["+", "-", "*", "<<", "&", "|", "^", "\\", "%"]), self.expr(1))]
            self.features.add("incdec")
            return ["%s%s%s;" % (ind, v, r.choice(["++", "--"]))]
        if c < 0.5 and self.arrays:
            n, ln = r.choice(self.arrays)
            self.features.add("array-update")
            idx = str(r.randrange(ln)) if r.random() < 0.7 else self.expr(0)
            return ["%s%s[%s] = %s;" % (ind, n, idx, self.expr(2))]
        if c < 0.68 and depth > 0:
            self.features.add("if")
            saved = (list(self.locals), list(self.uninit), list(self.arrays))
            saved_outer = list(self.outer_names)
            self.outer_names = [x for x in self.locals if x.startswith("v")]
            self.depth_now += 1
            out = ["%sif %s {" % (ind, self.cond(1))]
            for _ in range(r.randrange(1, 3)):
                out += self.stmt(depth - 1, in_loop)
            self.locals, un1, self.arrays = list(saved[0]), self.uninit, list(saved[2])
            if r.random() < 0.5:
                self.features.add("else")
                out.append("%s} else {" % ind)
                self.uninit = list(saved[1])
                for _ in range(r.randrange(1, 3)):
                    out += self.stmt(depth - 1, in_loop)
                self.locals, self.arrays = list(saved[0]), list(saved[2])
            self.uninit = [u for u in saved[1]]
            self.depth_now -= 1
            self.outer_names = saved_outer
            out.append("%s}" % ind)
            return out
        if c < 0.8 and depth > 0:
            saved = (list(self.locals), list(self.uninit), list(self.arrays))
            saved_outer = list(self.outer_names)
            self.outer_names = [x for x in self.locals if x.startswith("v")]
            self.depth_now += 1
            k = r.random()
            if k < 0.5:
                self.features.add("for")
                i = self.fresh("i")
                out = ["%sfor (var %s = 0; %s < %d; %s++) {" % (ind, i, i, r.randrange(0, 4), i)]
                self.locals.append(i)
            else:
                self.features.add("while")
                v = r.choice(self.locals)
                out = ["%swhile (%s < %s) {" % (ind, v, self.literal())]
            for _ in range(r.randrange(1, 3)):
                out += self.stmt(depth - 1, True)
            if k >= 0.5:
                out.append("%s  %s = %s + 1;" % (ind, v, v))
            self.locals, self.uninit, self.arrays = saved
            self.depth_now -= 1
            self.outer_names = saved_outer
            out.append("%s}" % ind)
            return out
        if self.template:
            if c < 0.86 and (self.sig_out + self.sig_mid):
                s = r.choice(self.sig_out + self.sig_mid)
                op = r.choice(["<--", "<==", "<--"])
                self.features.add("sig" + op)
                e = self.expr(2, arith_only=(op == "<==" or r.random() < 0.5))
                return ["%s%s %s %s;" % (ind, s, op, e)]
            if c < 0.9:
                self.features.add("===")
                return ["%s%s === %s;" % (ind, self.expr(1, arith_only=True), self.expr(1, arith_only=True))]
        if c < 0.95:
            self.features.add("assert")
            return ["%sassert(%s);" % (ind, self.cond(1))]
        self.features.add("log")
        return ['%slog("x", %s);' % (ind, self.expr(1))]

    def program(self):
        r = self.r
        name = "T" if self.template else "f"
        self.params = ["p%d" % i for i in range(r.randrange(0, 3))]
        lines = []
        if self.template:
            lines.append("template %s(%s) {" % (name, ", ".join(self.params)))
            for i in range(r.randrange(1, 3)):
                self.sig_in.append("in%d" % i)
                lines.append("  signal input in%d;" % i)
            for i in range(r.randrange(1, 3)):
                self.sig_out.append("out%d" % i)
                lines.append("  signal output out%d;" % i)
            if r.random() < 0.5:
                self.sig_mid.append("mid0")
                lines.append("  signal mid0;")
        else:
            lines.append("function %s(%s) {" % (name, ", ".join(self.params)))
        for _ in range(r.randrange(2, self.size)):
            lines += self.stmt(self.max_depth, False)
        if not self.template:
            lines.append("  return %s;" % self.expr(2))
        lines.append("}")
        return "\n".join(lines)


def nest_shape(rng, lit):
    """2-4 accumulators with constant initial values; a nest of depth 2-3 built from for / while / if-else on the
    parameters; each accumulator is updated at one or two randomly chosen levels (most often only the deepest);
    afterwards each is compared with its initial value. A phi missing at any join or header of the nest for any
    one of the variables makes one of the final conditions a wrong constant claim."""
    nv = rng.randrange(2, 5)
    names = ["acc%d" % i for i in range(nv)]
    init = [lit() if rng.random() < 0.5 else str(rng.randrange(4)) for _ in names]
    depth = rng.randrange(2, 4)
    levels = {}
    for v in names:
        ls = {depth} if rng.random() < 0.6 else {rng.randrange(1, depth + 1)}
        if rng.random() < 0.25:
            ls.add(rng.randrange(0, depth + 1))
        levels[v] = ls
    rng.shuffle(names)

    def updates(level):
        out = []
        for v in names:
            if level in levels[v]:
                out.append("%s %s %s;" % (v, rng.choice(["+=", "*=", "-="]), rng.choice(["1", "2", "n", "i0"]) if level else "1")
                           if rng.random() < 0.7 else "%s = %s + %d;" % (v, v, rng.randrange(1, 4)))
        return " ".join(out)

    def build(level):
        if level > depth:
            return ""
        inner = updates(level) + " " + build(level + 1)
        kind = rng.choice(["for", "for", "while", "if", "ifelse"])
        c = "c%d" % level
        if kind == "for":
            return "for (var %s = 0; %s < %s; %s++) { %s }" % (c, c, rng.choice(["n", "m", "3"]), c, inner)
        if kind == "while":
            return "var %s = 0; while (%s < %s) { %s %s += 1; }" % (c, c, rng.choice(["n", "m"]), inner, c)
        if kind == "if":
            return "if (%s > %d) { %s }" % (rng.choice(["n", "m"]), rng.randrange(3), inner)
        return "if (%s > %d) { %s } else { %s }" % (rng.choice(["n", "m"]), rng.randrange(3), inner, updates(level) if rng.random() < 0.5 else "")

    body = " ".join("var %s = %s;" % (v, x) for v, x in zip(sorted(names), [init[int(v[3:])] for v in sorted(names)]))
    body += " var i0 = 1; " + updates(0) + " " + build(1) + " "
    r = rng.random()
    if r < 0.3:      # a sibling loop right behind the nest: the join block of the nest holds phis only
        body += "var w = 0; while (w < %s) { w += 1; } " % rng.choice(["n", "m", "2"])
    elif r < 0.45:
        body += "while (m > %d) { m -= 1; } " % rng.randrange(3)
    elif r < 0.6:    # or a second nest over the same variables
        body += build(1) + " "
    for v in names:
        body += "if (%s == %s) { return %d; } " % (v, init[int(v[3:])], rng.randrange(5))
    body += "return %s;" % " + ".join(names)
    return "function f(n, m) { %s }" % body


def array_shape(rng, lit):
    """Arrays whose elements come from signals: filled element by element in a loop or branch, updated again behind
    the join, read through `<--`; tables indexed by a loop counter, by a signal, by a local that is assigned late
    (its degree is known only after the access has been visited); two-dimensional tables."""
    poly = lambda x: rng.choice(["%s" % x, "%s * %s" % (x, x), "%s * %s * %s" % (x, x, x), "%s + 1" % x, "%s * 2" % x])
    n = rng.randrange(2, 5)
    k = rng.randrange(8)
    if k == 0:     # loop-carried array, updated again after the loop, then read
        return ("template T(n) { signal input in[%d]; signal output out; var t[%d]; for (var i = 0; i < %s; i++) { t[i] = %s; } t[%d] = %s; out <-- t[%d]%s; }"
                % (n, n, rng.choice([str(n), "n"]), poly("in[i]"), rng.randrange(n), rng.choice([lit(), "in[0]"]), rng.randrange(n), rng.choice(["", " * in[0]"])))
    if k == 1:     # the same behind an if-join; array declared with or without initialiser
        init = "" if rng.random() < 0.6 else " = [%s]" % ", ".join(lit() for _ in range(n))
        return ("template T(n) { signal input in[%d]; signal output out; var t[%d]%s; if (n > %d) { t[%d] = %s; } t[%d] = %s; out <-- t[%d]; }"
                % (n, n, init, rng.randrange(3), rng.randrange(n), poly("in[%d]" % rng.randrange(n)), rng.randrange(n), lit(), rng.randrange(n)))
    if k == 2:     # table indexed by a local that gets its value (and degree) after the access
        n = rng.randrange(5, 7)        # five points of the line 0, 1, 2, 3, 4 stay inside the table
        return ("template T() { signal input in[%d]; signal output out[%d]; var table[%d] = [%s]; var state = %s; for (var i = 0; i < %d; i++) { out[i] <-- table[state]; state = %s; } }"
                % (n, n, n, ", ".join(lit() for _ in range(n)), rng.choice(["0", "1"]), n, rng.choice(["in[i]", "i", "state + 1", "in[i] * 0"])))
    if k == 3:     # element-wise quadratic assignments indexed by the loop counter
        return ("template T() { signal input in[%d]; signal output out[%d]; for (var i = 0; i < %d; i++) { out[i] <-- %s; } }"
                % (n, n, n, poly("in[i]")))
    if k == 4:     # two-dimensional table, row chosen by a signal or a counter
        return ("template T() { signal input in[%d]; signal output out; var m[2][2] = [[%s, %s], [%s, in[0]]]; var r = %s; out <-- m[r][%d] %s; }"
                % (n, lit(), lit(), lit(), rng.choice(["0", "1", "in[1]"]), rng.randrange(2), rng.choice(["", "* in[0]", "+ in[1] * in[1]"])))
    if k == 5:     # array built from signals, then one element overwritten by a constant, read at a signal index
        return ("template T() { signal input in[%d]; signal input sel; signal output out; var t[%d] = [%s]; t[%d] = %s; out <-- t[%s]; }"
                % (n, n, ", ".join(poly("in[%d]" % j) for j in range(n)), rng.randrange(n), lit(), rng.choice(["sel", str(rng.randrange(n))])))
    if k == 6:     # function: array parameter-free accumulation with a late update
        return ("function f(n, a) { var t[%d]; var i = 0; while (i < n) { t[i] = a * a * i; i += 1; } t[0] = %s; if (t[1] == %s) { return 1; } return t[0]; }"
                % (n, lit(), lit()))
    return ("template T(n) { signal input in[%d]; signal output out; var acc[2]; var k = 0; while (k < n) { if (k == %d) { acc[0] = in[0] * in[1]; } else { acc[1] = %s; } k += 1; } acc[%d] = %s; out <-- acc[0] + acc[1]; }"
            % (n, rng.randrange(3), poly("in[1]"), rng.randrange(2), lit()))


def targeted(rng, curve="BN254"):
    """Hand-shaped programs aimed at known weak spots (phi without default path,
    values merged at joins, loops, every operator on constants)."""
    p = PRIMES[curve]
    lit = lambda: str(rng.choice([0, 1, 2, 3, 5, p - 1, p // 2, p // 2 + 1, 255, 256, 1 << 20]))
    k = rng.randrange(26)
    if k >= 22:    # a branch or loop that is the LAST statement of an outer branch: the outer join gets the inner
        #            predecessors directly, and every condition on the way decides which definition is merged
        sm = lambda: str(rng.randrange(0, 5))
        outer = rng.choice(["n == %s" % sm(), "n > %s" % sm(), "1 == 1", "n != %s" % sm()])
        inner = rng.choice(["a == %s" % sm(), "a > %s" % sm(), "a * a == %s" % sm(), "n == %s" % sm()])
        v1, v2, v3 = rng.choice([("1", "2", "3"), ("a", "2", "a * a"), ("1", "a", "3"), ("a", "a + 1", "2")])
        use = rng.choice(["x", "x * a", "x + a * a"])
        shape = rng.randrange(5)
        if shape == 0:
            body = "var x; if (%s) { if (%s) { x = %s; } else { x = %s; } } else { x = %s; }" % (outer, inner, v1, v2, v3)
        elif shape == 1:
            body = "var x = %s; if (%s) { if (%s) { x = %s; } }" % (v3, outer, inner, v1)
        elif shape == 2:
            body = "var x = %s; if (%s) { x = %s; if (%s) { x = %s; } }" % (v3, outer, v2, inner, v1)
        elif shape == 3:
            body = "var x = %s; if (%s) { var i = 0; while (i < a) { x = %s; i += 1; } }" % (v3, outer, v1)
        else:
            body = "var x = %s; if (%s) { x = %s; } else { if (%s) { x = %s; } }" % (v3, outer, v2, inner, v1)
        return "template T(n) { signal input a; signal output b; %s b <-- %s; }" % (body, use)
    if k >= 18 and k < 22:    # arrays filled from signals, late updates, late-known indices
        return array_shape(rng, lit)
    if k >= 16:    # a parameter (array) reassigned / updated element-wise more than once: its later versions are
        #            named by no declaration statement (defect D20, repaired in /repo 2468c0a)
        if rng.random() < 0.5:
            return ("template T(arr) { signal input a; signal output b; arr[%d] = a %s a %s a; arr[%d] = %s; b <-- arr[%d]%s; }"
                    % (rng.randrange(2), rng.choice(["*", "+"]), rng.choice(["*", "+"]), rng.randrange(2), lit(), rng.randrange(2),
                       rng.choice(["", " * a", " + a"])))
        return ("function f(arr, n, a) { n = n %s a; arr[%d] = n * a; arr[%d] = %s; if (n == %s) { return arr[0]; } return arr[%d] + n; }"
                % (rng.choice(["*", "+"]), rng.randrange(2), rng.randrange(2), lit(), lit(), rng.randrange(2)))
    if k >= 13 and k < 16:    # several locals changed at different depths of a nest, read after it (phi placement per variable)
        return nest_shape(rng, lit)
    if k == 11:    # a loop as the very first statement (block 0 must stay the entry without predecessors)
        return ("function f(n) { while (n > %s) { n -= 1; } return n; }" % lit())
    if k == 12:    # a loop as the first statement of a template, on a parameter
        return ("template T(n) { while (n < %s) { n = n + 1; } signal input a; signal output b; b <-- a * n; }" % lit())
    if k == 8:     # field element (possibly "negative") as ternary condition
        return ("function f() { var d = %s - %s; var s = d ? %s : %s; if (s == %s) { return 1; } return s; }" % (lit(), lit(), lit(), lit(), lit()))
    if k == 9:     # same-named variables that both need a phi in one block (shadowing inside a loop)
        return ("function f(n) { var t = %s; var i = 0; while (i < n) { if (i == %s) { var t = i * 2; i = i + t; } t += i; i += 1; } return t; }" % (lit(), lit()))
    if k == 10:    # prefix operators and boolean connectives on field elements
        return ("function f() { var a = %s; var b = %s; var c = (!a) || (a && b); var d = -a; if (c == %s) { return d; } return c; }" % (lit(), lit(), lit()))
    if k == 0:
        return ("function f(x) { var y; if (x == %s) { y = %s; } if (y == %s) { return 1; } return y; }" % (lit(), lit(), lit()))
    if k == 1:
        return ("template T() { signal input a; signal output b; var x; if (a == %s) { x = 1; } else { x = 2; } b <-- x; }" % lit())
    if k == 2:
        op = rng.choice(INFIX)
        return ("function f() { var a = %s; var b = %s; var c = a %s b; if (c == %s) { return 1; } return c; }" % (lit(), lit(), op, lit()))
    if k == 3:
        op = rng.choice(PREFIX)
        return ("function f() { var a = %s; var c = %sa; if (c == %s) { return 1; } return c %s 1; }" % (lit(), op, lit(), rng.choice(INFIX)))
    if k == 4:
        return ("template T(n) { signal input a; signal output b; var acc = %s; for (var i = 0; i < %d; i++) { acc = acc %s a; } b <-- acc; }"
                % (lit(), rng.randrange(0, 4), rng.choice(["*", "+", "-"])))
    if k == 5:
        op = rng.choice(INFIX)
        return ("template T() { signal input a; signal input c; signal output b; b <-- (a %s c) %s (%s); }" % (rng.choice(ARITH), op, lit()))
    if k == 6:
        return ("template T() { signal input a; signal output b; var t[2] = [%s, a]; t[%d] = a * a; b <-- t[%d] * a; }" % (lit(), rng.randrange(2), rng.randrange(2)))
    return ("function f(x) { var s = %s; var t = s; while (t < %s) { t = t + 1; s = s; } return (t > 0 ? s : %s); }" % (lit(), lit(), lit()))
