"""Seeded generator of Circom functions and templates for the IR-level engines
(propagation, SSA): all 20 infix and 3 prefix operators, ternaries, literals at
the field boundaries, nested if/while/for, arrays updated element-wise, calls,
signals, components (declarations `component c = X(..)`, component arrays, port
writes `c.in <== e`, port reads `c.out`, `c.out[i]`), array and signal dimensions
that read variables, signals declared under control flow, loops whose trip count
depends on a signal, locals re-declared in nested scopes (bare blocks, branches,
loop bodies) next to look-alike names `<id>_<k>` of their internal names. Mostly valid programs plus a small invalid stream
(uninitialised reads). Which of these features a run really produced is counted
on the implementation's dumps by `propeng.features_of`, not here."""
import random

PRIMES = {
    "BN254": 21888242871839275222246405745257275088548364400416034343698204186575808495617,
    "BLS12_381": 52435875175126190479447740508185965837690552500527637822603658699938581184513,
    "GOLDILOCKS": 18446744069414584321,
}

INFIX = ["*", "/", "+", "-", "**", "\\", "%", "<<", ">>", "<=", ">=", "<", ">", "==", "!=", "||", "&&", "|", "&", "^"]
ARITH = ["*", "+", "-", "*", "+"]
PREFIX = ["-", "~", "!"]


def spell(rng, n, features=None):
    """A numeral: decimal, sometimes hexadecimal (`0x..`)."""
    if rng.random() < 0.12:
        if features is not None:
            features.add("hex-literal")
        return ("0x%x" if rng.random() < 0.5 else "0x%X") % n
    return str(n)


def big_literal(rng, p, features=None):
    """Literals: small ones, the boundaries of the field, and literals that are NOT reduced: p, p + 1, 2p - 1, the
    numbers in [p, 2^nbits) (as many bits as the prime), 2^nbits and beyond (2^256 - 1, a multiple of p plus a bit)."""
    c = rng.random()
    nb = p.bit_length()
    if c < 0.4:
        return spell(rng, rng.choice([0, 1, 2, 3, 5, 7, 8, 16, 255, 256]), features)
    if c < 0.6:
        return spell(rng, rng.choice([p - 1, p - 2, p // 2, p // 2 + 1, p // 2 - 1, 253, 254, 255, (1 << 64), (1 << 128) + 1]), features)
    if c < 0.72:
        return spell(rng, rng.randrange(p), features)
    if c < 0.86:
        if features is not None:
            features.add("literal>=p")
        k = rng.random()
        if k < 0.45:       # as many bits as the prime, yet not smaller than it
            return spell(rng, rng.choice([p, p + 1, p + 2, (1 << nb) - 1, (1 << nb) - 2, rng.randrange(p, 1 << nb), p + rng.randrange(1, 300)]), features)
        return spell(rng, rng.choice([2 * p - 1, 2 * p, 2 * p + 1, 1 << nb, (1 << nb) + 1, (1 << 256) - 1, 1 << 256, 3 * p + 5, rng.randrange(1 << nb, 1 << (nb + 8))]), features)
    return spell(rng, rng.randrange(1 << 16), features)


class Gen:
    def __init__(self, rng, curve="BN254", template=None, max_depth=3, size=8):
        self.r = rng
        self.p = PRIMES[curve]
        self.template = rng.random() < 0.55 if template is None else template
        self.max_depth = max_depth
        self.size = size
        self.locals = []        # scalar locals in scope (declared & initialised)
        self.uninit = []        # declared without initialiser
        self.arrays = []        # (name, len)
        self.params = []
        self.sig_in = []
        self.sig_out = []
        self.sig_mid = []
        self.comps = []         # (name, None) for a single component, (name, len) for a component array
        self.bools = []         # locals that hold the value of a comparison
        self.mats = []          # two-dimensional arrays (name, rows, columns)
        self.counter = 0
        self.depth_now = 0         # nesting depth of the block being generated
        self.outer_names = []      # scalar locals declared in enclosing blocks
        self.features = set()

    # ---- expressions ----
    def literal(self):
        return big_literal(self.r, self.p, self.features)

    def atoms(self, signals_ok):
        a = list(self.locals) + list(self.params)
        if signals_ok:
            a += self.sig_in + self.sig_mid
            for (c, ln) in self.comps:          # an output port of a component is an unknown signal
                a.append(self.port(c, ln, self.r.choice(["out", "out", "o2"])))
        return a

    def port(self, c, ln, name):
        r = self.r
        base = c if ln is None else "%s[%s]" % (c, str(r.randrange(ln)) if r.random() < 0.7 or not self.locals else r.choice(self.locals))
        self.features.add("comp-read")
        if name == "o2":                        # an array port, read at a constant, a local or a signal index
            k = r.random()
            ix = str(r.randrange(3)) if k < 0.5 else (r.choice(self.locals) if (k < 0.75 and self.locals) else r.choice(self.sig_in or ["0"]))
            return "%s.o2[%s]" % (base, ix)
        return "%s.%s" % (base, name)

    def dim(self):
        """An array dimension: most often a literal, otherwise an expression that reads locals / parameters."""
        r = self.r
        names = [x for x in self.locals if x.startswith("v") or x.startswith("i")] + self.params
        if not names or r.random() < 0.55:
            return None
        self.features.add("variable-dimension")
        n = r.choice(names)
        return r.choice(["%s", "%s + 1", "(%s + 2)", "%s * 2", "(%s - 1)"]) % n

    def expr(self, depth, signals_ok=True, arith_only=False):
        r = self.r
        if depth <= 0 or r.random() < 0.3:
            at = self.atoms(signals_ok)
            c = r.random()
            if at and c < 0.6:
                return r.choice(at)
            if self.arrays and c < 0.7:
                n, ln = r.choice(self.arrays)
                self.features.add("array-read")
                idx = str(r.randrange(ln)) if r.random() < 0.6 else self.expr(0, signals_ok)
                return "%s[%s]" % (n, idx)
            if self.mats and c < 0.72:
                n, r1, r2 = r.choice(self.mats)
                self.features.add("matrix-read")
                return "%s[%s][%s]" % (n, str(r.randrange(r1)) if r.random() < 0.6 else self.expr(0, signals_ok), str(r.randrange(r2)))
            if self.uninit and c < 0.73:
                self.features.add("uninit-read")
                return r.choice(self.uninit)
            return self.literal()
        c = r.random()
        if c < 0.62:
            op = r.choice(ARITH) if (arith_only or r.random() < 0.35) else r.choice(INFIX)
            self.features.add("op" + op)
            return "(%s %s %s)" % (self.expr(depth - 1, signals_ok, arith_only), op, self.expr(depth - 1, signals_ok, arith_only))
        if c < 0.74 and not arith_only:
            op = r.choice(PREFIX)
            self.features.add("pre" + op)
            return "(%s%s)" % (op, self.expr(depth - 1, signals_ok))
        if c < 0.84 and not arith_only:
            self.features.add("ternary")
            if r.random() < 0.45:      # a field element as condition (non-zero is true), e.g. a negative constant
                self.features.add("ternary-field-cond")
                c = self.expr(depth - 1, signals_ok)
            else:
                c = self.cond(depth - 1, signals_ok)
            return "(%s ? %s : %s)" % (c, self.expr(depth - 1, signals_ok), self.expr(depth - 1, signals_ok))
        if c < 0.9 and not arith_only:
            self.features.add("call")
            return "ext(%s)" % ", ".join(self.expr(depth - 1, signals_ok) for _ in range(r.randrange(0, 3)))
        return self.expr(depth - 1, signals_ok, arith_only)

    def cond(self, depth, signals_ok=True):
        r = self.r
        k = r.random()
        if k < 0.14:
            # a FIELD-VALUED condition (non-zero is true): a variable, a numeral, a difference, a ternary, a call
            self.features.add("field-valued-condition")
            at = self.atoms(signals_ok)
            j = r.random()
            if at and j < 0.35:
                return r.choice(at)
            if j < 0.5:
                return self.literal()
            if at and j < 0.65:
                v = r.choice(at)
                return "(%s - %s)" % (v, v if r.random() < 0.5 else self.literal())
            if j < 0.8:
                return "(%s ? %s : %s)" % (self.cond(0, signals_ok), self.expr(0, signals_ok), self.expr(0, signals_ok))
            return self.expr(max(1, depth), signals_ok)
        if k < 0.2 and self.bools:
            self.features.add("condition-held-in-a-variable")
            return r.choice(self.bools)
        op = r.choice(["<", "<=", ">", ">=", "==", "!=", "==", "<"])
        c = "(%s %s %s)" % (self.expr(depth, signals_ok), op, self.expr(max(0, depth - 1), signals_ok))
        if r.random() < 0.2:
            c = "(%s %s %s)" % (c, r.choice(["&&", "||"]), self.cond(0, signals_ok))
        if r.random() < 0.1:
            c = "(!%s)" % c
        return c

    # ---- statements ----
    def fresh(self, prefix):
        if prefix == "v" and self.depth_now > 0 and self.outer_names and self.r.random() < 0.3:
            self.features.add("shadowing")
            return self.r.choice(self.outer_names)
        vs = [x for x in self.locals + self.outer_names if x.startswith("v")]
        if prefix == "v" and vs and self.r.random() < 0.12:
            # a look-alike of the internal name of a re-declared variable: `<id>_<k>` (the k-th re-declaration of <id> is
            # renamed to <id> with suffix k, printed <id>_<k>)
            cand = "%s_%d" % (self.r.choice(vs), self.r.choice([0, 0, 0, 1, 1, 2]))
            if cand not in self.locals and cand not in self.uninit and cand not in self.outer_names:
                self.features.add("lookalike-name")
                return cand
        self.counter += 1
        return "%s%d" % (prefix, self.counter)

    def stmt(self, depth, in_loop):
        r = self.r
        c = r.random()
        ind = "  " * (self.max_depth - depth + 1)
        if self.locals and r.random() < 0.05:
            n = self.fresh("v")
            self.features.add("condition-held-in-a-variable")
            s_ = "%svar %s = %s;" % (ind, n, self.cond(1))
            self.locals.append(n)
            self.bools.append(n)
            return [s_]
        if self.locals and r.random() < (0.14 if self.mats else 0.06):
            if not self.mats or r.random() < 0.25:
                n = self.fresh("mat")
                r1, r2 = r.randrange(1, 3), r.randrange(1, 4)
                self.mats.append((n, r1, r2))
                self.features.add("matrix-decl")
                if r.random() < 0.5:
                    return ["%svar %s[%d][%d];" % (ind, n, r1, r2)]
                return ["%svar %s[%d][%d] = [%s];" % (ind, n, r1, r2, ", ".join("[%s]" % ", ".join(self.expr(1) for _ in range(r2)) for _ in range(r1)))]
            n, r1, r2 = r.choice(self.mats)        # an element write into a two-dimensional array; indices literal, local or signal
            self.features.add("matrix-element-write")
            ix = lambda ln: str(r.randrange(ln)) if r.random() < 0.6 else self.expr(0)
            return ["%s%s[%s][%s] = %s;" % (ind, n, ix(r1), ix(r2), self.expr(2))]
        if self.params and r.random() < 0.04:
            q = r.choice(self.params)               # a parameter is assigned (its later versions have no declaration statement)
            self.features.add("parameter-assigned")
            return ["%s%s = %s;" % (ind, q, self.expr(1))] if r.random() < 0.6 else ["%s%s %s= %s;" % (ind, q, r.choice(["+", "*", "-"]), self.expr(1))]
        if c < 0.2 or not self.locals:
            n = self.fresh("v")
            if r.random() < 0.08:
                self.uninit.append(n)
                self.features.add("uninit-decl")
                return ["%svar %s;" % (ind, n)]
            s = "%svar %s = %s;" % (ind, n, self.expr(2))
            self.locals.append(n)
            return [s]
        if c < 0.27:
            n = self.fresh("arr")
            ln = r.randrange(1, 4)
            self.arrays.append((n, ln))
            self.features.add("array-decl")
            d = self.dim()
            if d is not None:       # no initialiser: the elements are zero until assigned
                return ["%svar %s[%s];" % (ind, n, d)]
            return ["%svar %s[%d] = [%s];" % (ind, n, ln, ", ".join(self.expr(1) for _ in range(ln)))]
        if c < 0.45:
            v = r.choice(self.locals + self.uninit)
            if v in self.uninit and r.random() < 0.7:
                self.uninit.remove(v)
                self.locals.append(v)
            k = r.random()
            if k < 0.6:
                return ["%s%s = %s;" % (ind, v, self.expr(2))]
            if k < 0.85:
                self.features.add("compound")
                return ["%s%s %s= %s;" % (ind, v, r.choice(["+", "-", "*", "<<", "&", "|", "^", "\\", "%"]), self.expr(1))]
            self.features.add("incdec")
            return ["%s%s%s;" % (ind, v, r.choice(["++", "--"]))]
        if c < 0.5 and self.arrays:
            n, ln = r.choice(self.arrays)
            self.features.add("array-update")
            idx = str(r.randrange(ln)) if r.random() < 0.7 else self.expr(0)
            return ["%s%s[%s] = %s;" % (ind, n, idx, self.expr(2))]
        if c < 0.68 and depth > 0:
            self.features.add("if")
            saved_sig = (list(self.sig_mid), list(self.comps), list(self.bools), list(self.mats))
            saved = (list(self.locals), list(self.uninit), list(self.arrays))
            saved_outer = list(self.outer_names)
            self.outer_names = [x for x in self.locals if x.startswith("v")]
            self.depth_now += 1
            bare = r.random() < 0.2          # a bare nested block `{ .. }`: a scope without a branch (no phi)
            if bare:
                self.features.add("bare-block")
            out = ["%s{" % ind] if bare else ["%sif (%s) {" % (ind, self.cond(1))]
            for _ in range(r.randrange(1, 3)):
                out += self.stmt(depth - 1, in_loop)
            if not self.template and not bare and r.random() < 0.12:
                self.features.add("return-under-control-flow")
                out.append("%s  return %s;" % (ind, self.expr(1)))
            self.locals, un1, self.arrays = list(saved[0]), self.uninit, list(saved[2])
            self.sig_mid, self.comps, self.bools, self.mats = list(saved_sig[0]), list(saved_sig[1]), list(saved_sig[2]), list(saved_sig[3])
            if not bare and r.random() < 0.5:
                self.features.add("else")
                out.append("%s} else {" % ind)
                self.uninit = list(saved[1])
                for _ in range(r.randrange(1, 3)):
                    out += self.stmt(depth - 1, in_loop)
                self.locals, self.arrays = list(saved[0]), list(saved[2])
                self.sig_mid, self.comps, self.bools, self.mats = list(saved_sig[0]), list(saved_sig[1]), list(saved_sig[2]), list(saved_sig[3])
            self.uninit = [u for u in saved[1]]
            self.depth_now -= 1
            self.outer_names = saved_outer
            out.append("%s}" % ind)
            return out
        if c < 0.8 and depth > 0:
            saved = (list(self.locals), list(self.uninit), list(self.arrays))
            saved_sig = (list(self.sig_mid), list(self.comps), list(self.bools), list(self.mats))
            saved_outer = list(self.outer_names)
            self.outer_names = [x for x in self.locals if x.startswith("v")]
            self.depth_now += 1
            k = r.random()
            if k < 0.5:
                self.features.add("for")
                i = self.fresh("i")
                out = ["%sfor (var %s = 0; %s < %d; %s++) {" % (ind, i, i, r.randrange(0, 4), i)]
                self.locals.append(i)
            else:
                self.features.add("while")
                v = r.choice(self.locals)
                bound = self.literal()
                if self.template and self.sig_in and r.random() < 0.3:     # the trip count depends on a signal
                    self.features.add("signal-dependent-loop")
                    bound = r.choice(self.sig_in)
                if r.random() < 0.15:          # field-valued loop condition: runs until the difference is zero
                    self.features.add("field-valued-condition")
                    out = ["%swhile (%s - %s) {" % (ind, bound, v)]
                else:
                    out = ["%swhile (%s < %s) {" % (ind, v, bound)]
            for _ in range(r.randrange(1, 3)):
                out += self.stmt(depth - 1, True)
            if k >= 0.5:
                out.append("%s  %s = %s + 1;" % (ind, v, v))
            self.locals, self.uninit, self.arrays = saved
            self.sig_mid, self.comps, self.bools, self.mats = saved_sig
            self.depth_now -= 1
            self.outer_names = saved_outer
            out.append("%s}" % ind)
            return out
        if self.template:
            if c < 0.815 and self.comps:       # a write to an input port of a component (scalar port or element of an array port)
                cn, ln = r.choice(self.comps)
                base = cn if ln is None else "%s[%d]" % (cn, r.randrange(ln))
                self.features.add("comp-write")
                port = r.choice(["in", "in", "a[%d]" % r.randrange(2)])
                op = r.choice(["<==", "<==", "<--"])
                return ["%s%s.%s %s %s;" % (ind, base, port, op, self.expr(2, arith_only=(op == "<==")))]
            if c < 0.83:                        # a signal or a component declared where the statement stands (possibly under control flow)
                k = r.random()
                if k < 0.5:
                    sn = self.fresh("s")
                    self.features.add("signal-decl-nested" if self.depth_now else "signal-decl")
                    d = self.dim()
                    if d is not None and r.random() < 0.5:
                        return ["%ssignal %s[%s];" % (ind, sn, d)]       # an array of signals: not an atom
                    self.sig_mid.append(sn)
                    if r.random() < 0.5:
                        return ["%ssignal %s;" % (ind, sn)]
                    op = r.choice(["<==", "<--"])
                    return ["%ssignal %s %s %s;" % (ind, sn, op, self.expr(2, arith_only=(op == "<==")))]
                cn = self.fresh("c")
                self.features.add("comp-decl")
                args = ", ".join(self.expr(1, signals_ok=False) for _ in range(r.randrange(0, 3)))
                if k < 0.8:
                    self.comps.append((cn, None))
                    return ["%scomponent %s = X(%s);" % (ind, cn, args)]
                ln = r.randrange(1, 3)
                self.comps.append((cn, ln))
                d = self.dim()
                out = ["%scomponent %s[%s];" % (ind, cn, d if d is not None else str(ln))]
                for j in range(ln):
                    out.append("%s%s[%d] = X(%s);" % (ind, cn, j, args))
                return out
            if c < 0.86 and (self.sig_out + self.sig_mid):
                s = r.choice(self.sig_out + self.sig_mid)
                op = r.choice(["<--", "<==", "<--"])
                self.features.add("sig" + op)
                e = self.expr(2, arith_only=(op == "<==" or r.random() < 0.5))
                return ["%s%s %s %s;" % (ind, s, op, e)]
            if c < 0.9:
                self.features.add("===")
                return ["%s%s === %s;" % (ind, self.expr(1, arith_only=True), self.expr(1, arith_only=True))]
        if c < 0.95:
            self.features.add("assert")
            return ["%sassert(%s);" % (ind, self.cond(1))]
        self.features.add("log")
        return ['%slog("x", %s);' % (ind, self.expr(1))]

    def program(self):
        r = self.r
        name = "T" if self.template else "f"
        self.params = ["p%d" % i for i in range(r.randrange(0, 3))]
        lines = []
        if self.template:
            lines.append("template %s(%s) {" % (name, ", ".join(self.params)))
            for i in range(r.randrange(1, 3)):
                self.sig_in.append("in%d" % i)
                lines.append("  signal input in%d;" % i)
            for i in range(r.randrange(1, 3)):
                self.sig_out.append("out%d" % i)
                lines.append("  signal output out%d;" % i)
            if r.random() < 0.5:
                self.sig_mid.append("mid0")
                lines.append("  signal mid0;")
            if self.params and r.random() < 0.25:        # a signal array whose size reads a parameter
                self.features.add("variable-dimension")
                lines.append("  signal arrsig[%s + 1];" % r.choice(self.params))
            if r.random() < 0.35:
                self.features.add("comp-decl")
                self.comps.append(("c0", None))
                lines.append("  component c0 = X(%s);" % ", ".join(self.params[:r.randrange(0, 3)]))
        else:
            lines.append("function %s(%s) {" % (name, ", ".join(self.params)))
        for _ in range(r.randrange(2, self.size)):
            lines += self.stmt(self.max_depth, False)
        if not self.template:
            lines.append("  return %s;" % self.expr(2))
        lines.append("}")
        return "\n".join(lines)


def nest_shape(rng, lit):
    """2-4 accumulators with constant initial values; a nest of depth 2-3 built from for / while / if-else on the
    parameters; each accumulator is updated at one or two randomly chosen levels (most often only the deepest);
    afterwards each is compared with its initial value. A phi missing at any join or header of the nest for any
    one of the variables makes one of the final conditions a wrong constant claim."""
    nv = rng.randrange(2, 5)
    names = ["acc%d" % i for i in range(nv)]
    init = [lit() if rng.random() < 0.5 else str(rng.randrange(4)) for _ in names]
    depth = rng.randrange(2, 4)
    levels = {}
    for v in names:
        ls = {depth} if rng.random() < 0.6 else {rng.randrange(1, depth + 1)}
        if rng.random() < 0.25:
            ls.add(rng.randrange(0, depth + 1))
        levels[v] = ls
    rng.shuffle(names)

    def updates(level):
        out = []
        for v in names:
            if level in levels[v]:
                out.append("%s %s %s;" % (v, rng.choice(["+=", "*=", "-="]), rng.choice(["1", "2", "n", "i0"]) if level else "1")
                           if rng.random() < 0.7 else "%s = %s + %d;" % (v, v, rng.randrange(1, 4)))
        return " ".join(out)

    def build(level):
        if level > depth:
            return ""
        inner = updates(level) + " " + build(level + 1)
        kind = rng.choice(["for", "for", "while", "if", "ifelse"])
        c = "c%d" % level
        if kind == "for":
            return "for (var %s = 0; %s < %s; %s++) { %s }" % (c, c, rng.choice(["n", "m", "3"]), c, inner)
        if kind == "while":
            return "var %s = 0; while (%s < %s) { %s %s += 1; }" % (c, c, rng.choice(["n", "m"]), inner, c)
        if kind == "if":
            return "if (%s > %d) { %s }" % (rng.choice(["n", "m"]), rng.randrange(3), inner)
        return "if (%s > %d) { %s } else { %s }" % (rng.choice(["n", "m"]), rng.randrange(3), inner, updates(level) if rng.random() < 0.5 else "")

    body = " ".join("var %s = %s;" % (v, x) for v, x in zip(sorted(names), [init[int(v[3:])] for v in sorted(names)]))
    body += " var i0 = 1; " + updates(0) + " " + build(1) + " "
    r = rng.random()
    if r < 0.3:      # a sibling loop right behind the nest: the join block of the nest holds phis only
        body += "var w = 0; while (w < %s) { w += 1; } " % rng.choice(["n", "m", "2"])
    elif r < 0.45:
        body += "while (m > %d) { m -= 1; } " % rng.randrange(3)
    elif r < 0.6:    # or a second nest over the same variables
        body += build(1) + " "
    for v in names:
        body += "if (%s == %s) { return %d; } " % (v, init[int(v[3:])], rng.randrange(5))
    body += "return %s;" % " + ".join(names)
    return "function f(n, m) { %s }" % body


def array_shape(rng, lit):
    """Arrays whose elements come from signals: filled element by element in a loop or branch, updated again behind
    the join, read through `<--`; tables indexed by a loop counter, by a signal, by a local that is assigned late
    (its degree is known only after the access has been visited); two-dimensional tables."""
    poly = lambda x: rng.choice(["%s" % x, "%s * %s" % (x, x), "%s * %s * %s" % (x, x, x), "%s + 1" % x, "%s * 2" % x])
    n = rng.randrange(2, 5)
    k = rng.randrange(8)
    if k == 0:     # loop-carried array, updated again after the loop, then read
        return ("template T(n) { signal input in[%d]; signal output out; var t[%d]; for (var i = 0; i < %s; i++) { t[i] = %s; } t[%d] = %s; out <-- t[%d]%s; }"
                % (n, n, rng.choice([str(n), "n"]), poly("in[i]"), rng.randrange(n), rng.choice([lit(), "in[0]"]), rng.randrange(n), rng.choice(["", " * in[0]"])))
    if k == 1:     # the same behind an if-join; array declared with or without initialiser
        init = "" if rng.random() < 0.6 else " = [%s]" % ", ".join(lit() for _ in range(n))
        return ("template T(n) { signal input in[%d]; signal output out; var t[%d]%s; if (n > %d) { t[%d] = %s; } t[%d] = %s; out <-- t[%d]; }"
                % (n, n, init, rng.randrange(3), rng.randrange(n), poly("in[%d]" % rng.randrange(n)), rng.randrange(n), lit(), rng.randrange(n)))
    if k == 2:     # table indexed by a local that gets its value (and degree) after the access
        n = rng.randrange(5, 7)        # five points of the line 0, 1, 2, 3, 4 stay inside the table
        return ("template T() { signal input in[%d]; signal output out[%d]; var table[%d] = [%s]; var state = %s; for (var i = 0; i < %d; i++) { out[i] <-- table[state]; state = %s; } }"
                % (n, n, n, ", ".join(lit() for _ in range(n)), rng.choice(["0", "1"]), n, rng.choice(["in[i]", "i", "state + 1", "in[i] * 0"])))
    if k == 3:     # element-wise quadratic assignments indexed by the loop counter
        return ("template T() { signal input in[%d]; signal output out[%d]; for (var i = 0; i < %d; i++) { out[i] <-- %s; } }"
                % (n, n, n, poly("in[i]")))
    if k == 4:     # two-dimensional table, row chosen by a signal or a counter
        return ("template T() { signal input in[%d]; signal output out; var m[2][2] = [[%s, %s], [%s, in[0]]]; var r = %s; out <-- m[r][%d] %s; }"
                % (n, lit(), lit(), lit(), rng.choice(["0", "1", "in[1]"]), rng.randrange(2), rng.choice(["", "* in[0]", "+ in[1] * in[1]"])))
    if k == 5:     # array built from signals, then one element overwritten by a constant, read at a signal index
        return ("template T() { signal input in[%d]; signal input sel; signal output out; var t[%d] = [%s]; t[%d] = %s; out <-- t[%s]; }"
                % (n, n, ", ".join(poly("in[%d]" % j) for j in range(n)), rng.randrange(n), lit(), rng.choice(["sel", str(rng.randrange(n))])))
    if k == 6:     # function: array parameter-free accumulation with a late update
        return ("function f(n, a) { var t[%d]; var i = 0; while (i < n) { t[i] = a * a * i; i += 1; } t[0] = %s; if (t[1] == %s) { return 1; } return t[0]; }"
                % (n, lit(), lit()))
    return ("template T(n) { signal input in[%d]; signal output out; var acc[2]; var k = 0; while (k < n) { if (k == %d) { acc[0] = in[0] * in[1]; } else { acc[1] = %s; } k += 1; } acc[%d] = %s; out <-- acc[0] + acc[1]; }"
            % (n, rng.randrange(3), poly("in[1]"), rng.randrange(2), lit()))


def component_shape(rng, lit, k=None):
    """Components: declaration, writes to input ports, reads of output ports (scalar, array port at a constant /
    local / signal index), component arrays filled in a loop, port values carried through locals and joins. An
    output port is an unknown signal: a polynomial of degree 1 in the indeterminates of the template."""
    n = rng.randrange(2, 4)
    pw = lambda x: rng.choice(["%s" % x, "%s * %s" % (x, x), "%s * %s * %s" % (x, x, x), "%s + a" % x, "%s * a" % x, "%s * a * a" % x, "%s * 2" % x, "%s + %s" % (x, lit())])
    k = rng.randrange(9) if k is None else k
    if k == 0:     # a power of an output port
        return ("template T(n) { signal input a; signal output out; component c = X(n); c.in <== a; out <-- %s; }" % pw("c.out"))
    if k == 1:     # an array port read at a constant, a signal, a local index
        ix = rng.choice(["sel", "sel", str(rng.randrange(n)), "n", "sel + 1", "j"])
        return ("template T(n) { signal input a; signal input sel; signal output out; var j = %d; component c = X(n); c.in <== a; out <-- %s; }"
                % (rng.randrange(n), pw("c.out[%s]" % ix)))
    if k == 2:     # a component array filled in a loop, ports written and read element-wise
        return ("template T(n) { signal input a; signal output out; component c[%d]; for (var i = 0; i < %d; i++) { c[i] = X(i); c[i].in <== a + i; } out <-- %s; }"
                % (n, n, rng.choice(["c[0].out * c[1].out", "c[0].out * c[1].out * c[0].out", "c[1].out + a", "c[0].out", pw("c[%d].out" % rng.randrange(n))])))
    if k == 3:     # a port value carried through a local that is updated in a loop / under a branch
        return ("template T(n) { signal input a; signal output out; component c = X(); c.in <== a * a; var x = c.out; %s out <-- x%s; }"
                % (rng.choice(["for (var i = 0; i < %d; i++) { x = x * c.out; }" % rng.randrange(0, 3), "if (n > %d) { x = x * c.out; }" % rng.randrange(3),
                               "x = x * x;", "if (a == %d) { x = %s; }" % (rng.randrange(3), lit()), "x = x + c.out2;"]),
                   rng.choice(["", " * a", " + a"])))
    if k == 4:     # an element of a component array chosen by a signal or a parameter
        return ("template T(n) { signal input a; signal input sel; signal output out; component c[%d]; c[0] = X(); c[1] = X(); c[0].in <== a; c[1].in <== sel; out <-- c[%s].out%s; }"
                % (2, rng.choice(["sel", "n", "0", "1", "sel * 0"]), rng.choice(["", " * a", " * c[0].out"])))
    if k == 5:     # ports in conditions and ternaries: the merged value depends on an unknown signal
        return ("template T(n) { signal input a; signal output out; component c = X(n); c.in <== a; var x = %s; if (c.out == %d) { x = %s; } out <-- x + (c.ok ? %s : a); }"
                % (lit(), rng.randrange(3), rng.choice(["a", lit(), "c.out"]), lit()))
    if k == 6:     # array ports written element-wise, two-dimensional port reads
        return ("template T(n) { signal input a[%d]; signal output out; component c = X(%d); for (var i = 0; i < %d; i++) { c.in[i] <== a[i] * a[i]; } out <-- c.m[%s][%d] %s; }"
                % (n, n, n, rng.choice(["0", "n", "a[0]"]), rng.randrange(2), rng.choice(["", "* a[0]", "+ c.m[0][0] * c.m[1][1]"])))
    if k == 7:     # a constraint on ports; a port in a dimension-free table read
        return ("template T() { signal input a; signal output out; component c = X(); component d = Y(%s); c.in <== a; d.in <== c.out * a; out <== d.out * %s; c.out === d.out %s a; }"
                % (lit(), rng.choice(["a", "c.out", "d.out", "2"]), rng.choice(["*", "+"])))
    return ("template T(n) { signal input a; signal output out; var t[2] = [%s, a]; component c = X(); c.in <== t[1]; t[%d] = c.out * c.out; out <-- t[%s]%s; }"
            % (lit(), rng.randrange(2), rng.choice(["0", "1", "n"]), rng.choice(["", " * c.out", " * a"])))


def dimension_shape(rng, lit, k=None):
    """Dimensions that read variables: locals (assigned once or several times, so that the dimension needs a version
    and, where its value is a known constant, carries a value claim), parameters, loop counters; arrays of variables,
    of signals, of components."""
    k = rng.randrange(7) if k is None else k
    sm = lambda: str(rng.randrange(1, 4))
    if k == 0:     # the dimension reads a local assigned twice
        return ("function f(x) { var n = %s; n = n + %s; var t[n]; t[0] = n; if (t[0] == %s) { return 1; } return t[0] + n; }" % (sm(), sm(), sm()))
    if k == 1:     # ... a local that is merged at a join (no constant), then a second dimension from a constant
        return ("template T(m) { signal input a; signal output out; var n = %s; if (m > %s) { n = n + 1; } var t[n]; var k = %s; k += 1; signal s[k + 1]; t[0] = a * a; out <-- t[0] * %s; }"
                % (sm(), sm(), sm(), rng.choice(["a", "n", "k"])))
    if k == 2:     # a declaration inside a loop, the dimension reads the counter
        return ("function f(n) { var acc = 0; for (var i = 1; i < %s; i++) { var t[i]; t[0] = i; acc += t[0]; } var w = %s; w = w * 2; var u[w][w + 1]; return acc + w; }" % (rng.choice(["3", "n"]), sm()))
    if k == 3:     # signal arrays sized by a local / a parameter expression
        return ("template T(n) { var k = %s; k = k * %s; signal input in[k]; signal output out[n + 1]; signal mid[k - 1][2]; out[0] <-- in[0] * in[1]; }" % (sm(), sm()))
    if k == 4:     # component arrays sized by a variable
        return ("template T(n) { signal input a; signal output out; var k = %s; k++; component c[k]; component d[n * 2]; c[0] = X(k); c[0].in <== a; out <-- c[0].out * %s; }"
                % (sm(), rng.choice(["a", "k", "c[0].out"])))
    if k == 5:     # a dimension computed with operators on boundary constants
        op = rng.choice(["+", "-", "*", "\\", "%", "&", "|", ">>", "<<"])
        return ("function f() { var a = %s; var b = %s; var n = a %s b; var t[n]; var u[(n %s 1)]; if (n == %s) { return 1; } return n; }" % (lit(), lit(), op, rng.choice(["+", "*", "-"]), lit()))
    return ("template T(n) { signal input a; signal output out; var k = n; k = k + %s; var t[k]; for (var i = 0; i < k; i++) { t[i] = a; } out <-- t[0] %s; }" % (sm(), rng.choice(["", "* a", "* a * a"])))


def nested_signal_shape(rng, lit, k=None):
    """Signals (and components) declared under control flow: in a branch, in a loop body, in a nested block."""
    k = rng.randrange(6) if k is None else k
    sm = lambda: str(rng.randrange(0, 4))
    pw = lambda x: rng.choice(["%s" % x, "%s * %s" % (x, x), "%s * %s * %s" % (x, x, x), "%s + a" % x, "%s * a" % x])
    if k == 0:
        return ("template T(n) { signal input a; signal output out; if (n > %s) { signal s; s <-- a * a; out <-- %s; } else { signal u; u <== a + 1; out <-- %s; } }" % (sm(), pw("s"), pw("u")))
    if k == 1:
        return ("template T(n) { signal input a; signal output out; var x = %s; for (var i = 0; i < %s; i++) { signal s; s <-- x * a; x = x + s * s; } out <-- x; }" % (lit(), rng.choice(["2", "n", "1"])))
    if k == 2:
        return ("template T(n) { signal input a; signal output out; var x = 1; if (a == %s) { signal s <== a * a; x = s; } out <-- x * %s; }" % (sm(), rng.choice(["a", "x", "2"])))
    if k == 3:
        return ("template T(n) { signal input a; signal output out; var i = 0; while (i < n) { if (i == %s) { signal s[2]; s[0] <-- a; s[1] <-- s[0] * a; out <-- %s; } i += 1; } }" % (sm(), pw("s[1]")))
    if k == 4:
        return ("template T(n) { signal input a; signal output out; if (n == %s) { component c = X(n); c.in <== a; signal s <== c.out * a; out <-- %s; } }" % (sm(), pw("s")))
    return ("template T(n) { signal input a; signal output out; var x = a; { signal s; s <== x * x; { signal u; u <-- s * %s; x = u; } } out <-- %s; }" % (rng.choice(["a", "s", "2"]), pw("x")))


def signal_loop_shape(rng, lit, k=None):
    """Loops whose trip count depends on a signal: the header phis must not be claimed a low degree, while values
    computed in or behind the loop that do not depend on the number of iterations keep their degree."""
    k = rng.randrange(6) if k is None else k
    sm = lambda: str(rng.randrange(0, 4))
    inv = rng.choice(["a", "a * a", "a + 1", "a * 2", "a * a + a"])
    use = rng.choice(["y", "y * a", "y + x", "x", "x * a", "y + i"])
    if k == 0:
        return ("template T() { signal input a; signal output b; var i = 0; var x = 1; var y = 0; while (i < a) { y = %s; x = x %s a; i += 1; } b <-- %s; }"
                % (inv, rng.choice(["*", "+"]), use))
    if k == 1:     # a for loop bounded by a signal, with a branch on the counter inside
        return ("template T(n) { signal input a; signal output b; var x = %s; var y = a; for (var i = 0; i < a; i++) { if (i == %s) { x = %s; } y = %s; } b <-- %s; }"
                % (lit(), sm(), rng.choice(["a", "a * a", lit()]), inv, use.replace("+ i", "+ 1")))
    if k == 2:     # the bound is a signal for the inner loop only
        return ("template T(n) { signal input a; signal output b; var x = 0; var y = 0; for (var j = 0; j < %s; j++) { var i = 0; while (i < a) { x = x + %s; i += 1; } y = y + %s; } b <-- %s; }"
                % (rng.choice(["2", "n", "3"]), rng.choice(["1", "a", "j"]), inv, use.replace("+ i", "+ 1")))
    if k == 3:     # exit condition on an accumulated value
        return ("template T() { signal input a; signal output b; var x = a; var y = 1; var i = 0; while (x != %s && i < 4) { x = x - 1; y = %s; i += 1; } b <-- %s; }" % (sm(), inv, use))
    if k == 4:     # loop on a signal, then a constant-bounded loop over the result
        return ("template T(n) { signal input a; signal output b; var i = 0; while (i < a) { i += 1; } var x = 0; var y = %s; for (var j = 0; j < 2; j++) { x = x + i; y = y * a; } b <-- %s; }" % (lit(), use.replace("+ i", "+ 1")))
    return ("function f(a, n) { var i = 0; var x = 1; var y = 0; while (i < a) { y = a * %s; x = x * 2; i += 1; } if (y == %s) { return x; } return y + %s; }" % (rng.choice(["a", "n", "2"]), lit(), rng.choice(["x", "i", "a"])))


def lookalike_shape(rng, lit, k=None):
    """A local re-declared in a nested scope (bare block, branch, loop body, sibling scopes) is renamed internally to
    <id> with suffix k and PRINTED `<id>_<k>`; next to it a different variable whose source name is literally `<id>_<k>`
    (`x_0`, `x_1`, `x_10`, `x0_0`, `x_0_1`). At equal SSA versions one of the two holds a constant and the other does
    not (a parameter, a signal, a merged value); the non-constant one is then read in a condition, an array size or a
    `<--`. A table keyed by the printed name instead of (name, suffix, version) attributes the constant to both."""
    k = rng.randrange(12) if k is None else k
    sm = lambda: str(rng.randrange(1, 5))
    c1, c2 = sm(), sm()
    idn = rng.choice(["x", "x", "acc", "x0", "t_1"])
    la = idn + "_0"
    if k == 0:     # the demo: bare block, the look-alike holds the parameter, read in a condition
        return ("function pick(n) { var %s = 1; var %s = n; var r = 0; { var %s = %s; r = %s; } if (%s == %s) { r += 1; } return r + %s; }"
                % (idn, la, idn, c1, idn, la, c1, idn))
    if k == 1:     # the converse: the look-alike is the constant, the re-declared variable is not; read inside the block
        return ("function pick(n) { var %s = 1; var %s = %s; var r = 0; { var %s = n; if (%s == %s) { r = 1; } r += %s; } return r + %s; }"
                % (idn, la, c1, idn, idn, c1, idn, la))
    if k == 2:     # re-declarations in both branches of an if/else: suffixes 0 and 1
        return ("function f(n, m) { var %s = 0; var %s_0 = n; var %s_1 = m; var r = 0; if (n > %s) { var %s = %s; r = %s; } else { var %s = %s; r = %s + 1; } "
                "if (%s_0 == %s) { r += 1; } if (%s_1 == %s) { r += 2; } return r; }"
                % (idn, idn, idn, sm(), idn, c1, idn, idn, c2, idn, idn, c1, idn, c2))
    if k == 3:     # re-declaration in a loop body; the look-alike is an array size and an index
        return ("function f(n) { var %s = 1; var %s = n; var r = 0; for (var i = 0; i < %s; i++) { var %s = %s; r += %s; } var t[%s]; t[0] = r; return t[0] + %s; }"
                % (idn, la, rng.choice(["2", "n"]), idn, c1, idn, la, la))
    if k == 4:     # template: the look-alike holds a signal expression and is the right-hand side of `<--`
        return ("template T(n) { signal input a; signal output out; var %s = 1; var %s = a * a; { var %s = %s; out <-- %s * %s; } signal b; b <-- %s + %s; }"
                % (idn, la, idn, c1, idn, la, la, idn))
    if k == 5:     # template: re-declaration under a branch on a parameter, look-alike from a signal, read in a condition and a size
        return ("template T(n) { signal input a; signal output out; var %s = %s; var %s = n + 1; if (n > %s) { var %s = %s; out <-- %s * a; } else { out <-- a; } "
                "signal s[%s]; if (%s == %s) { s[0] <-- a; } }"
                % (idn, c2, la, sm(), idn, c1, idn, la, la, c1))
    if k == 6:     # sibling scopes: the eleventh re-declaration gets suffix 10
        blocks = " ".join("{ var x = %d; r += x; }" % (j + 1) for j in range(11))
        return ("function f(n) { var x = 0; var x_10 = n; var x_1 = n + 1; var r = 0; %s if (x_10 == 11) { r += 1; } if (x_1 == 2) { r += 2; } return r; }" % blocks)
    if k == 7:     # a variable called x_0 re-declared: internal name x_0 with suffix 0 or 1, look-alikes x_0_0 / x_0_1, next to x itself re-declared
        return ("function f(n) { var x = 1; var x_0 = 2; var x_0_0 = n; var x_0_1 = n * 2; var r = 0; { var x_0 = %s; r += x_0; } { var x_0 = %s; r += x_0; } { var x = %s; r += x; } "
                "if (x_0_0 == %s) { r += 1; } if (x_0_1 == %s) { r += 2; } if (x_0 == %s) { r += 4; } return r; }" % (c1, c2, c1, c1, c2, c1))
    if k == 8:     # both reassigned once more, so that they collide at version 1 as well
        return ("function f(n) { var %s = 1; var %s = 0; %s = n; var r = 0; { var %s = 0; %s = %s; r = %s; } if (%s == %s) { r += 1; } return r; }"
                % (idn, la, la, idn, idn, c1, idn, la, c1))
    if k == 9:     # nested twice: suffixes 0 and 1 in nested scopes, the look-alikes merged at a join
        return ("function f(n) { var x = 1; var x_0 = 0; var x_1 = 0; if (n > %s) { x_0 = n; x_1 = n; } var r = 0; { var x = %s; { var x = %s; r = x; } r += x; } "
                "if (x_0 == %s) { r += 1; } if (x_1 == %s) { r += 2; } return r; }" % (sm(), c1, c2, c1, c2))
    if k == 10:    # digits without an underscore are NOT look-alikes (x0 vs x with suffix 0): must stay silent
        return ("function f(n) { var x = 1; var x0 = n; var x_ = n; var r = 0; { var x = %s; r = x; } if (x0 == %s) { r += 1; } if (x_ == %s) { r += 1; } return r; }" % (c1, c1, c1))
    return ("template T(n) { signal input a; signal output out; var %s = 1; var %s = %s; var i = 0; while (i < n) { var %s = a; out <-- %s * %s; i += 1; } signal s[%s + 1]; }"
            % (idn, la, c1, idn, idn, la, la))


def matrix_shape(rng, lit, k=None):
    """Element writes into two-dimensional arrays: outer / inner index literal, parameter, loop counter or signal; the
    element read back (through `<--`, a condition, a return) at the same or another position."""
    k = rng.randrange(8) if k is None else k
    pw = lambda x: rng.choice(["%s" % x, "%s * %s" % (x, x), "%s * a" % x, "%s + 1" % x])
    if k == 0:     # a row chosen by a signal, the element by a literal; another row read
        return ("template T() { signal input a; signal output c; var t[2][2]; t[a][%d] = %s; c <-- %s; }" % (rng.randrange(2), lit(), pw("t[%d][%d]" % (rng.randrange(2), rng.randrange(2)))))
    if k == 1:     # the element chosen by a signal
        return ("template T() { signal input a; signal output c; var t[2][2] = [[%s, %s], [%s, %s]]; t[%d][a] = %s; c <-- %s; }"
                % (lit(), lit(), lit(), lit(), rng.randrange(2), rng.choice([lit(), "a", "a * a"]), pw("t[%d][%d]" % (rng.randrange(2), rng.randrange(2)))))
    if k == 2:     # filled in a nest of loops from signals
        return ("template T(n) { signal input in[2]; signal output c; var m[2][2]; for (var i = 0; i < 2; i++) { for (var j = 0; j < 2; j++) { m[i][j] = in[i] %s in[j]; } } m[%d][%d] = %s; c <-- %s; }"
                % (rng.choice(["*", "+"]), rng.randrange(2), rng.randrange(2), lit(), pw("m[%d][%d]" % (rng.randrange(2), rng.randrange(2)))))
    if k == 3:     # both indices from a parameter / a local that is merged
        return ("template T(n) { signal input a; signal output c; var r = 0; if (n > %d) { r = 1; } var m[2][3]; m[r][n] = a * a; m[0][0] = %s; c <-- m[r][%d] * a; }" % (rng.randrange(3), lit(), rng.randrange(3)))
    if k == 4:     # function: constants written and compared
        return ("function f(n) { var m[2][2]; m[0][1] = %s; m[1][0] = n; m[0][1] = m[0][1] + 1; if (m[0][1] == %s) { return 1; } return m[1][0] + m[0][0]; }" % (lit(), lit()))
    if k == 5:     # three dimensions, innermost index a signal
        return ("template T() { signal input a; signal output c; var q[2][2][2]; q[0][1][a] = %s; q[1][0][0] = a; c <-- q[%d][%d][%d]; }" % (lit(), rng.randrange(2), rng.randrange(2), rng.randrange(2)))
    if k == 6:     # a row of signals written element-wise, a 2-D signal array
        return ("template T() { signal input a[2][2]; signal output c[2][2]; for (var i = 0; i < 2; i++) { c[i][%d] <-- a[i][0] * a[%d][i]; c[i][%d] <-- %s; } }" % (0, rng.randrange(2), 1, rng.choice(["a[0][0]", lit(), "a[i][i] * a[i][i] * a[0][1]"])))
    return ("template T(n) { signal input a; signal input sel; signal output c; var t[2][2] = [[a, %s], [%s, a * a]]; t[sel][sel] = %s; c <-- t[%d][%d] %s; }"
            % (lit(), lit(), lit(), rng.randrange(2), rng.randrange(2), rng.choice(["", "* a"])))


ANON_LIB = (" template A() { signal input x; signal output y; y <== x * x; } template B() { signal input x; signal input z; signal output y; signal output w; y <== x * z; w <== x + z; }"
            " template P(k) { signal input x[2]; signal output y; y <== x[0] * x[1] + k; } function g(u) { return u + 1; }")


def anon_shape(rng, lit, k=None):
    """Anonymous components and tuples: they exist only after the desugarer has run, so these programs are whole source
    texts (marker `/*file*/`: the engine parses the text, runs the real remove_syntactic_sugar and lifts the FIRST
    definition). Anonymous components inside loops become arrays of type AnonymousComponent."""
    k = rng.randrange(8) if k is None else k
    pw = lambda x: rng.choice(["%s" % x, "%s * %s" % (x, x), "%s * %s * %s" % (x, x, x), "%s * a" % x, "%s + a" % x])
    if k == 0:
        body = "signal input a; signal output o; signal t1 <== A()(a); signal t2 <== A()(a + 1); o <-- %s;" % pw("t1 * t2")
    elif k == 1:   # in a loop: an array of anonymous components
        body = "signal input a; signal input in[2]; signal output o[2]; for (var i = 0; i < 2; i++) { o[i] <== A()(in[i] %s); } signal q; q <-- %s;" % (rng.choice(["", "+ i", "* 2"]), pw("o[0] * o[1]"))
    elif k == 2:   # tuple of outputs
        body = "signal input a; signal input b; signal output o; signal (p, q) <== B()(a, b); o <-- %s;" % pw("p * q")
    elif k == 3:   # underscore in a tuple, named inputs
        body = "signal input a; signal input b; signal output o; signal q; (_, q) <== B()(z <== b, x <== a); o <-- %s;" % pw("q")
    elif k == 4:   # parameters, array input, in a loop under a branch
        body = ("signal input a; signal input in[2]; signal output o; var acc = 0; for (var i = 0; i < %s; i++) { if (i == %d) { signal s <== P(i)(in); acc = acc + s; } } o <-- acc %s;"
                % (rng.choice(["2", "n"]), rng.randrange(2), rng.choice(["", "* a", "* acc"])))
    elif k == 5:   # nested loops: two-dimensional arrays of anonymous components
        body = "signal input a; signal input in[2]; signal output o[2][2]; for (var i = 0; i < 2; i++) { for (var j = 0; j < 2; j++) { (o[i][j], _) <== B()(in[i], in[j]); } } signal q; q <-- %s;" % pw("o[0][1]")
    elif k == 6:   # a function call next to an anonymous component
        body = "signal input a; signal output o; var c = g(%s); signal t <== A()(a * c); o <-- %s;" % (lit(), pw("t"))
    else:          # anonymous component under a branch on a parameter, result merged through a local
        body = "signal input a; signal output o; var x = a; if (n > %d) { signal t <== A()(a); x = t; } o <-- %s;" % (rng.randrange(3), pw("x"))
    return "/*file*/ template T(n) { %s }%s" % (body, ANON_LIB)


def condition_shape(rng, lit, k=None, p=None):
    """Conditions that are field elements (a numeral, a variable, a difference, a ternary), Booleans held in variables,
    literals that are not reduced (p, p + 1, 2^nbits - 1, 2^256 - 1, hexadecimal), `return` under control flow."""
    k = rng.randrange(10) if k is None else k
    big = lambda: lit()
    if k == 0:
        return "function f(n) { var r = 0; if (%s) { r = 1; } if (%s) { r += 2; } if (r == %d) { return 1; } return r; }" % (rng.choice(["0", "1", "3", big()]), rng.choice(["0", "2", big()]), rng.randrange(4))
    if k == 1:
        return "function f(n) { var x = %s; var y = x - x; var r = 0; if (y) { r = 1; } if (x - %s) { r += 2; } if (x) { r += 4; } return r; }" % (big(), big())
    if k == 2:
        return "function f(n) { var x = %s; var c = x < %s; var d = (x == x); var r = 0; if (c) { r = 1; } if (d) { r += 2; } if (c && d) { r += 4; } if (r == %d) { return 0; } return r; }" % (big(), big(), rng.randrange(8))
    if k == 3:     # a literal with as many bits as the prime, not reduced: parity and comparisons
        if p is not None:
            nb = p.bit_length()
            x = rng.choice([p + 1, p + 2, (1 << nb) - 1, rng.randrange(p, 1 << nb), p + rng.randrange(1, 1000)])
            return ("function f() { var x = %s; var r = 0; if ((x & 1) == 1) { r = 1; } if (x == %d) { r += 2; } if (x < %s) { r += 4; } if ((x | 1) == %d) { r += 8; } return r + (x >> 1); }"
                    % (spell(rng, x), x - p, big(), (x - p) | 1))
        return "function f() { var x = %s; var r = 0; if ((x & 1) == 1) { r = 1; } if (x == %s) { r += 2; } if (x < %s) { r += 4; } return r + (x >> 1); }" % (big(), big(), big())
    if k == 4:
        return "template T(n) { signal input a; signal output b; var x = %s; var r = 0; if (n) { r = x; } if (a) { r = r + 1; } if (x %s %s) { r = r + 2; } b <-- r; }" % (big(), rng.choice(["-", "&", "+"]), big())
    if k == 5:     # return under control flow: in a loop, in nested branches
        return "function f(n) { var acc = %s; for (var i = 0; i < %s; i++) { if (i == %d) { return acc; } acc += i; } if (acc) { if (n == 2) { return acc + 1; } else { return 0; } } return acc; }" % (lit(), rng.choice(["3", "n"]), rng.randrange(3))
    if k == 6:     # while with a field-valued condition, counting down
        return "function f(n) { var k = %d; var acc = 0; while (k) { acc += k; k -= 1; } if (acc == %d) { return 1; } return acc; }" % (rng.randrange(1, 5), rng.randrange(12))
    if k == 7:     # ternary and call as conditions
        return "function f(n) { var x = %s; var r = 0; if (x ? 0 : 1) { r = 1; } if (n ? x : 0) { r += 2; } if (ext(x)) { r += 4; } return r; }" % big()
    if k == 8:     # hexadecimal spellings
        return "function f() { var x = 0x%x; var y = 0x%X; var r = 0; if (x == y) { r = 1; } if (x + 1 == %s) { r += 2; } return r + x; }" % (rng.choice([255, 1 << 64]), rng.choice([255, (1 << 64) + 1]), lit())
    return "template T(n) { signal input a; signal output b; var c = a == %s; var d = %s < %s; var x = %s; if (c) { x = 1; } if (d) { x = x + 1; } b <-- x; }" % (lit(), big(), big(), lit())


OPS_TEXT = ["*", "/", "+", "-", "**", "\\", "%", "<<", ">>", "<=", ">=", "<", ">", "==", "!=", "||", "&&", "|", "&", "^"]


def absorbing_shape(rng, lit, k=None, p=None):
    """One operator, a constant operand that may decide the result alone (0, 1, p - 1, true, false - as a literal, as a
    local holding it, as a constant subexpression) on either side, and on the other side an operand the analysis does
    not know: a parameter, a local computed from one, a loop variable (which is 0 in the first iteration). The results
    flow into conditions, array sizes, `<--` and returns. k selects the operator (20) in the stratum."""
    p = p or PRIMES["BN254"]
    op = OPS_TEXT[(rng.randrange(20) if k is None else k) % 20]
    consts = ["0", "1", str(p - 1), "(1 == 1)", "(1 == 2)", "z", "o", "(3 - 3)", "(2 - 1)"]
    unknown = ["n", "m", "u", "(n - m)", "i"]
    shape = rng.randrange(4)
    forced = None
    if k is not None:   # in the per-run stratum: k < 20 the function shape for operator k; k = 20..23 `**` with a loop variable / in a template,
        shape = 0       # the base being the literal 0 for k = 20, 21
        if k >= 20:
            op, shape = "**", 2 + k % 2
            forced = "0" if k < 22 else None
    if shape <= 1:      # function: every constant on both sides against parameters and a local, each result compared / used as a size
        parts = []
        j = 0
        for c in ["0", "1"] + rng.sample(consts[2:], 4):
            for side in (0, 1):
                x = rng.choice(unknown[:4])
                e = "(%s %s %s)" % ((c, op, x) if side == 0 else (x, op, c))
                j += 1
                sink = rng.randrange(4)
                if sink == 0:
                    parts.append("if (%s == %s) { r += %d; }" % (e, rng.choice(["0", "1"]), j))
                elif sink == 1:
                    parts.append("var e%d = %s; if (e%d != %s) { r += 1; }" % (j, e, j, rng.choice(["0", "1"])))
                elif sink == 2:
                    parts.append("var t%d[%s + 1]; t%d[0] = %d; r += t%d[0];" % (j, e, j, j, j))
                else:
                    parts.append("if (%s) { r += 2; }" % e)
        return "function f(n, m) { var z = 0; var o = 1; var u = n * m; var r = 0; %s return r; }" % " ".join(parts)
    if shape == 2:      # a loop variable as the unknown operand: it is 0 in the first iteration
        c = forced or rng.choice(consts[:5] + ["z", "o"])
        e = "(%s %s i)" % (c, op) if forced else rng.choice(["(%s %s i)" % (c, op), "(i %s %s)" % (op, c)])
        return ("function f(n) { var z = 0; var o = 1; var acc = 0; for (var i = 0; i < %s; i++) { var w = %s; if (w == %s) { acc += 1; } acc += w; } if (acc == %d) { return 1; } return acc; }"
                % (rng.choice(["2", "3", "n"]), e, rng.choice(["0", "1"]), rng.randrange(4)))
    c = forced or rng.choice(consts)  # template: the result is a dimension, a condition and the right-hand side of `<--`
    e1 = "(%s %s n)" % (c, op)
    e2 = "(n %s %s)" % (op, c)
    return ("template T(n) { signal input a; signal output b; var z = 0; var o = 1; var x = %s; var y = %s; signal s[x + 1]; if (y == %s) { b <-- a * x; } else { b <-- a + y; } }"
            % (e1, e2, rng.choice(["0", "1"])))


FEATURE_SHAPES = [(component_shape, 9), (dimension_shape, 7), (nested_signal_shape, 6), (signal_loop_shape, 6), (lookalike_shape, 12), (matrix_shape, 8), (anon_shape, 8), (condition_shape, 10), (absorbing_shape, 24)]


def feature_stratum(rng, curve="BN254"):
    """One program of every hand shape of the four feature families (components, dimensions that read variables,
    signals declared under control flow, loops bounded by a signal), with random details: part of every run."""
    p = PRIMES[curve]
    lit = lambda: (str(rng.choice([0, 1, 2, 3, 5, p - 1, p // 2, p // 2 + 1, 255, 256, 1 << 20])) if rng.random() < 0.85 else big_literal(rng, p))
    big = lambda: big_literal(rng, p)
    return [(f(rng, big, k, p) if f in (condition_shape, absorbing_shape) else f(rng, lit, k)) for f, n in FEATURE_SHAPES for k in range(n)]


def targeted(rng, curve="BN254"):
    """Hand-shaped programs aimed at known weak spots (phi without default path,
    values merged at joins, loops, every operator on constants)."""
    p = PRIMES[curve]
    lit = lambda: (str(rng.choice([0, 1, 2, 3, 5, p - 1, p // 2, p // 2 + 1, 255, 256, 1 << 20])) if rng.random() < 0.85 else big_literal(rng, p))
    k = rng.randrange(54)
    if k >= 50:
        return absorbing_shape(rng, lit, None, p)
    if k >= 47:
        return condition_shape(rng, lambda: big_literal(rng, p), None, p)
    if k >= 44:
        return anon_shape(rng, lit)
    if k >= 41:
        return matrix_shape(rng, lit)
    if k >= 38:
        return lookalike_shape(rng, lit)
    if k >= 35:
        return signal_loop_shape(rng, lit)
    if k >= 32:
        return nested_signal_shape(rng, lit)
    if k >= 29:
        return dimension_shape(rng, lit)
    if k >= 26:
        return component_shape(rng, lit)
    if k >= 22:    # a branch or loop that is the LAST statement of an outer branch: the outer join gets the inner
        #            predecessors directly, and every condition on the way decides which definition is merged
        sm = lambda: str(rng.randrange(0, 5))
        outer = rng.choice(["n == %s" % sm(), "n > %s" % sm(), "1 == 1", "n != %s" % sm()])
        inner = rng.choice(["a == %s" % sm(), "a > %s" % sm(), "a * a == %s" % sm(), "n == %s" % sm()])
        v1, v2, v3 = rng.choice([("1", "2", "3"), ("a", "2", "a * a"), ("1", "a", "3"), ("a", "a + 1", "2")])
        use = rng.choice(["x", "x * a", "x + a * a"])
        shape = rng.randrange(5)
        if shape == 0:
            body = "var x; if (%s) { if (%s) { x = %s; } else { x = %s; } } else { x = %s; }" % (outer, inner, v1, v2, v3)
        elif shape == 1:
            body = "var x = %s; if (%s) { if (%s) { x = %s; } }" % (v3, outer, inner, v1)
        elif shape == 2:
            body = "var x = %s; if (%s) { x = %s; if (%s) { x = %s; } }" % (v3, outer, v2, inner, v1)
        elif shape == 3:
            body = "var x = %s; if (%s) { var i = 0; while (i < a) { x = %s; i += 1; } }" % (v3, outer, v1)
        else:
            body = "var x = %s; if (%s) { x = %s; } else { if (%s) { x = %s; } }" % (v3, outer, v2, inner, v1)
        return "template T(n) { signal input a; signal output b; %s b <-- %s; }" % (body, use)
    if k >= 18 and k < 22:    # arrays filled from signals, late updates, late-known indices
        return array_shape(rng, lit)
    if k >= 16:    # a parameter (array) reassigned / updated element-wise more than once: its later versions are
        #            named by no declaration statement (defect D20, repaired in /repo 2468c0a)
        if rng.random() < 0.5:
            return ("template T(arr) { signal input a; signal output b; arr[%d] = a %s a %s a; arr[%d] = %s; b <-- arr[%d]%s; }"
                    % (rng.randrange(2), rng.choice(["*", "+"]), rng.choice(["*", "+"]), rng.randrange(2), lit(), rng.randrange(2),
                       rng.choice(["", " * a", " + a"])))
        return ("function f(arr, n, a) { n = n %s a; arr[%d] = n * a; arr[%d] = %s; if (n == %s) { return arr[0]; } return arr[%d] + n; }"
                % (rng.choice(["*", "+"]), rng.randrange(2), rng.randrange(2), lit(), lit(), rng.randrange(2)))
    if k >= 13 and k < 16:    # several locals changed at different depths of a nest, read after it (phi placement per variable)
        return nest_shape(rng, lit)
    if k == 11:    # a loop as the very first statement (block 0 must stay the entry without predecessors)
        return ("function f(n) { while (n > %s) { n -= 1; } return n; }" % lit())
    if k == 12:    # a loop as the first statement of a template, on a parameter
        return ("template T(n) { while (n < %s) { n = n + 1; } signal input a; signal output b; b <-- a * n; }" % lit())
    if k == 8:     # field element (possibly "negative") as ternary condition
        return ("function f() { var d = %s - %s; var s = d ? %s : %s; if (s == %s) { return 1; } return s; }" % (lit(), lit(), lit(), lit(), lit()))
    if k == 9:     # same-named variables that both need a phi in one block (shadowing inside a loop)
        return ("function f(n) { var t = %s; var i = 0; while (i < n) { if (i == %s) { var t = i * 2; i = i + t; } t += i; i += 1; } return t; }" % (lit(), lit()))
    if k == 10:    # prefix operators and boolean connectives on field elements
        return ("function f() { var a = %s; var b = %s; var c = (!a) || (a && b); var d = -a; if (c == %s) { return d; } return c; }" % (lit(), lit(), lit()))
    if k == 0:
        return ("function f(x) { var y; if (x == %s) { y = %s; } if (y == %s) { return 1; } return y; }" % (lit(), lit(), lit()))
    if k == 1:
        return ("template T() { signal input a; signal output b; var x; if (a == %s) { x = 1; } else { x = 2; } b <-- x; }" % lit())
    if k == 2:
        op = rng.choice(INFIX)
        return ("function f() { var a = %s; var b = %s; var c = a %s b; if (c == %s) { return 1; } return c; }" % (lit(), lit(), op, lit()))
    if k == 3:
        op = rng.choice(PREFIX)
        return ("function f() { var a = %s; var c = %sa; if (c == %s) { return 1; } return c %s 1; }" % (lit(), op, lit(), rng.choice(INFIX)))
    if k == 4:
        return ("template T(n) { signal input a; signal output b; var acc = %s; for (var i = 0; i < %d; i++) { acc = acc %s a; } b <-- acc; }"
                % (lit(), rng.randrange(0, 4), rng.choice(["*", "+", "-"])))
    if k == 5:
        op = rng.choice(INFIX)
        return ("template T() { signal input a; signal input c; signal output b; b <-- (a %s c) %s (%s); }" % (rng.choice(ARITH), op, lit()))
    if k == 6:
        return ("template T() { signal input a; signal output b; var t[2] = [%s, a]; t[%d] = a * a; b <-- t[%d] * a; }" % (lit(), rng.randrange(2), rng.randrange(2)))
    return ("function f(x) { var s = %s; var t = s; while (t < %s) { t = t + 1; s = s; } return (t > 0 ? s : %s); }" % (lit(), lit(), lit()))
