"""Maintenance script for coq/PANIC_MAP.json (C01): `python3 lib/panicmap_rules.py`
re-derives the entry of every CURRENT panic site from the per-file / per-function
rules below (each rule was written after reading the site and the cited theorem)
and rewrites the JSON. The JSON stays the committed, reviewed artifact; this script
only saves retyping when sites move. It is never run by ./check."""
assert __name__ == "__main__", "maintenance script: run it directly, it rewrites coq/PANIC_MAP.json"
import sys, json, re
sys.path.insert(0,'/verif/lib')
import panicsites
sites,_=panicsites.scan()
M={}
def D(thm, why): return {"discharged_by": thm, "why": why}
def O(why): return {"observed_only": why}
def X(why): return {"outside_model": why}
def G(what, why, **kw):
    e={"guarded": what, "why": why}; e.update(kw); return e
C12="no no-panic theorem for the CFG lifting yet (agent-C12: Model.Lift has these as Panic sites, lift_never_panics is in progress); exercised by the C12/C13 correspondence and by the C01 totality engine. Upgrade to C12's theorem when it exists"
SSA="SSA construction (insert_phi_statements / insert_ssa_variables): Model.Ssa mirrors it with explicit SPanic/SFuel sites, but there is no totality theorem for it (C14's six theorems are about the validator of its output); mirror and implementation agree, panics included, on the C14 correspondence; exercised by every analysed definition of the C01 engine"
UNC="no non-test code of the workspace calls it (checked on every run: `uncalled`)"
for s in sites:
    f,fn,k,t=s["file"],s["fn"],s["kind"],s["text"]
    e=None
    m_=fn.split("::")[-1]
    # ---- fourth audit: remove / insert with any argument, powers ----
    rn=panicsites.receiver_name(panicsites._all_sources()[f], s["pos"]) if k in ("insert","remove_index") else None
    mt=panicsites.map_receiver(f, rn) if rn else None
    if k in ("insert","remove_index") and mt:
        e=G("map or set operation","the receiver `%s` is declared as %s in this file (re-resolved on every run: `receiver_map`); insert / remove of a hash or tree map or set does not panic (allocation aside)" % (rn, mt),receiver_map=rn)
    elif k=="insert" and f.endswith("basic_block.rs"):
        e=G("index 0","`Vec::insert(0, x)` panics only for an index beyond the length; 0 never is",site_is=".insert(0,")
    elif k=="insert" and f.endswith("declarations.rs"):
        e=G("map operation","`self.0` of the tuple struct Declarations is a HashMap; HashMap::insert does not panic",guard_in={"file":f,"text":"pub struct Declarations(HashMap<VariableName, Declaration>);"})
    elif k=="insert" and f.endswith("program_merger.rs"):
        which="template" if "template" in t else "function"
        e=G("map operation","the receiver is the `&mut %sInfo` the private getter returns, and %sInfo is a type alias of HashMap<String, ..>; HashMap::insert does not panic" % (which.capitalize(), which.capitalize()),
            guard_in={"file":"program_structure/src/program_library/%s_data.rs" % which,"text":"pub type %sInfo = HashMap<String, %sData>;" % (which.capitalize(), which.capitalize())})
    elif k in ("insert","remove_index") and f.endswith("utils/environment.rs") and fn.startswith("VariableBlock"):
        e=G("map operation","`variables` of VariableBlock is a HashMap (the field of the same name of RawEnvironment is a Vec, which is why the receiver is not resolved by name here); HashMap insert / remove do not panic",guard_in={"file":f,"text":"struct VariableBlock<VC> { variables: HashMap<String, VC>, }"})
    elif k=="pow" and (f.endswith("degree_meta.rs") or (f.endswith("expression_impl.rs") and "lhr.pow" in t)):
        e=G("own total function","`pow` of Degree / DegreeRange is the crate's own function (a match over the degree lattice), not an integer power",guard_in={"file":"program_structure/src/intermediate_representation/degree_meta.rs","text":"pub fn pow(&self, other: &Degree) -> Degree {"})
    elif k=="pow" and f.endswith("expression_impl.rs"):
        e=D("C16_field_never_panics","modular_arithmetic::pow = BigInt::modpow(exp, field): panics for a negative exponent or a zero modulus; the operands are reduced field elements and the field is one of the three primes (Model.Field.pow mirrors it; panics are compared as output values by the C16 run)")
    if e is not None:
        e["text"]=s["text"]; e["shape"]=s["shape"]
        if s.get("core"): e["core"]=s["core"]
        M[s["key"]]=e
        continue
    # ---- third audit: the files anchored since the scan covers the whole crate set ----
    if f.endswith("abstract_syntax_tree/ast.rs"):
        if m_=="get_file_id":
            e=D("C18_desugar_never_panics","Meta::get_file_id panics on a meta without a file id. Its callers are the desugarer (name generation for anonymous components: site 1801 site_get_file_id of Model.Desugar) and the into_report of AnonymousComponentError / TupleError in parser/src/errors.rs on a meta of the tree (site 1803 site_report_file_id); remove_syntactic_sugar returns DOk under wf_template / meta_known (every meta of a parsed definition carries the file id: parse_file calls fill; evaluated by C18's engine and, third audit, by the stage `chain` of ./check C01 on C01's own inputs). The other files that call a method of this NAME call TemplateData::get_file_id / FunctionData::get_file_id (plain field reads); the number of calls per file is recorded (`call_counts`), so a further call anywhere - in one of these files too - is reported")
            # fourth audit: by NAME (three types have a method get_file_id; the scanner cannot tell receivers apart), so
            # the NUMBER of calls per file is recorded: a new `meta.get_file_id()` anywhere changes a count and is reported
            e["call_counts"]={"method":"get_file_id","counts":panicsites.call_counts("get_file_id")}
        elif fn.startswith("TypeKnowledge"):
            e=G("not called","type knowledge of the SYNTAX tree (inherited from circom's type checker): a TypeKnowledge is reached only through Meta::get_type_knowledge / get_mut_type_knowledge (the field is private; reduces_to itself is called by is_var / is_component / is_signal / is_tag of the same impl, which is why it is not in the `uncalled` list - the two gateways are, and since the fourth audit `uncalled` looks inside the defining file too); "+UNC+". The `type_knowledge()` the analysis passes call belongs to the IR meta (intermediate_representation/type_meta.rs), another type",uncalled=["get_type_knowledge","get_mut_type_knowledge"])
        else:
            e=G("not called","memory knowledge of the SYNTAX tree (inherited from circom's code generator): a MemoryKnowledge is reached only through Meta::get_memory_knowledge / get_mut_memory_knowledge (the field is private); "+UNC,uncalled=[m_,"get_memory_knowledge","get_mut_memory_knowledge"])
    elif f.endswith("program_library/function_data.rs") or f.endswith("program_library/template_data.rs"):
        e=G("not called","inherited from circom; "+UNC+". (The desugarer reads bodies with get_body and has its own `body is not a block` site, site_body_not_block of Model.Desugar)",uncalled=m_)
    elif f.endswith("program_library/program_archive.rs") or f.endswith("program_library/template_library.rs") or (f=="parser/src/lib.rs" and fn=="duplicate_definitions"):
        if k=="index":
            own={"ProgramArchive::new":"program_contents.keys().copied().collect();","duplicate_definitions":"definitions.keys().copied().collect();"}[fn]
            e=G("own key","added by the repair of the duplicate-definition defect (/repo f1ec9dc): the map is indexed by `file_id`, which ranges over a sorted copy of the map's OWN keys (`file_ids`), and the map is borrowed immutably in between, so the key is present",guard_text=own)
        else:
            e=G("not called","assert + unwrap accessor inherited from circom; the analysis reads the definition maps through get_templates / get_functions; "+UNC,uncalled=m_)
    elif f.endswith("utils/constants.rs"):
        if k=="expect": e=D("C11_primes_are_documented","parse_bytes(.., 10) of one of three string literals; Gen.Primes is regenerated from these literals as decimal numbers on every run (the generator fails on anything but decimal digits) and C11_primes_are_documented pins their values, so the parse is Some"); e["guard_text"]="let prime = match self {"
        else: e=G("full-range slice","`[..]` cannot be out of range",site_is="[..]")
    elif k=="add" and f.endswith("syntax_sugar_remover.rs"):
        e=G("string concatenation","`String + &str`: concatenation, not integer arithmetic (allocation only)",guard_text='"anon_var_".to_string()')
    elif k=="add" and f.endswith("definition_complexity.rs"):
        e=X("resource bound, not proved: `edges` sums the sizes of the successor sets of one graph; every counted element is a live `usize` in a HashSet (8 bytes of address space), all sets exist at once, so the sum stays below 2^61")
    elif k=="add" and f.endswith("writers.rs"):
        e=X("resource bound, not proved: a counter of the reports written during one run; an overflow needs 2^64 reports")
    elif f.endswith("modular_arithmetic.rs"):
        why={"modulus":"`b` is the prime (hypothesis 2 < p of the theorem) or the non-zero reduced divisor handed over by mod_op after its zero check; BigInt `%` panics only for a zero divisor",
             "mask":"BigInt subtraction is arbitrary precision","sub":"BigInt subtraction is arbitrary precision",
             "complement_256":"from_radix_le fails only on an empty digit vector or a digit >= radix; the vector holds exactly 256 digits 0/1 (mirrored by Model.Field.compl)",
             "shift_l":"division by the constant 2 / BigInt subtraction","shift_r":"divisor is 2 or a power of two / BigInt subtraction",
             "val":"division by the constant 2 / BigInt subtraction","not":"remainder by the constant 2","bool_or":"remainder by the constant 2; BigInt addition is arbitrary precision",
             "pow":"BigInt::modpow panics for a negative exponent or a zero modulus: the exponent is a reduced field element, the modulus the prime","add":"BigInt addition is arbitrary precision","mul":"BigInt multiplication is arbitrary precision","bool_and":"BigInt multiplication is arbitrary precision"}.get(fn,"mirrored by Model.Field")
        e=D("C16_field_never_panics",why+"; Model.Field mirrors the function and the C16 differential run compares panics as output values")
        if fn=="idiv": e["guard_text"]="if right == zero {"
        if fn=="modulus": e["guard_in"]={"file":f,"text":"if right == zero { Err(ArithmeticError::DivisionByZero) } else { Ok(modulus(&left, &right)) }"}
    elif f.endswith("include_logic.rs"):
        e=D("C01_includes_never_panic","Model.Includes (C19) has both `expect`s as Panic sites 1901/1902; parse_files never returns Panic for any file system in which a canonical non-directory path has a file name: current_location is Some whenever add_include runs (set by take_next, kept by push), and a non-directory library was entered as such a canonical path")
    elif f.endswith("lang.lalrpop"):
        if fn=="DECNUMBER": e=D("C01_decnumber_action_total","the token matches [0-9]+, so parse_bytes(.., 10) is Some")
        elif fn=="HEXNUMBER": e=D("C01_hexnumber_action_total","the token matches 0x[0-9A-Fa-f]+ (fix 4e93f91): the slice [2..] is in range and non-empty, parse_bytes(.., 16) is Some")
        elif fn=="STRING": e=D("C01_string_action_total","the token matches \"[^\"]*\": at least two bytes, both quotes are ASCII, so 1..len-1 is a valid char-boundary range")
    elif f=="parser/src/lib.rs": e=G("full-range slice","`[..]` cannot be out of range",site_is="[..]")
    elif f.endswith("parser_logic.rs"): e=G("emptiness check","tokens.len() - 1 is evaluated only in the else branch of `if tokens.is_empty()`",guard_text="if tokens.is_empty() {")
    elif f.endswith("syntax_sugar_remover.rs"):
        W="remove_syntactic_sugar as a whole returns DOk on parser output (Model.Desugar has this as a DPanic site). Hypotheses wf_template / meta_known: every meta belongs to a file of the library (parse_file sets the file id), log strings are at most 230 bytes (C01_split_string_never_panics: chunk bound of build_log_call), named inputs come one per argument and bodies are blocks (grammar)"
        if fn in ("remove_tuples_from_statement","remove_tuple_from_expression"):
            e=D("C18_pass2_unreachable_never_fires C18_desugar_never_panics","in pass 2 as invoked on the output of pass 1 neither `remove(0)` nor the `unreachable!()` fires, for every input; "+W)
        else:
            e=D("C18_desugar_never_panics",W)
    elif f.endswith("analysis_runner.rs"):
        if fn.endswith("cache_template"): e=G("insert precedes get","the entry is inserted on the path that did not find it; every other path returned",guard_text="self.template_cfgs.insert(name.to_string(), cfg);")
        elif fn.endswith("cache_function"): e=G("insert precedes get","the entry is inserted on the path that did not find it; every other path returned",guard_text="self.function_cfgs.insert(name.to_string(), cfg);")
        elif fn.endswith("take_template"): e=G("caching succeeded","`?` returned on a failed cache_template, which otherwise leaves the entry in the map",guard_text="self.cache_template(name)?;")
        elif fn.endswith("take_function"): e=G("caching succeeded","`?` returned on a failed cache_function, which otherwise leaves the entry in the map",guard_text="self.cache_function(name)?;")
        else: e=G("not called","AnalysisContext::underlying_str is implemented here but no non-test code of the workspace calls it",uncalled="underlying_str")
    elif f.endswith("signal_assignments.rs"):
        e=G("prefix length","added by the repair of the partial-access defect (/repo 4f017e8, amended in 96648cc: the comparison now sits in the closure `mentions`): both slices are `[..n]` with n = min(used.len(), access.len()), computed on the line before, so n is within both vectors",guard_text="let n = used.len().min(access.len());")
    elif f.endswith("bn254_specific_circuit.rs") or f.endswith("unused_output_signal.rs"):
        e=G("full-range slice","`[..]` cannot be out of range",site_is="[..]")
    elif f.endswith("definition_complexity.rs"):
        e=D("C01_complexity_does_not_underflow","`2 + edges - nodes` is evaluated left to right on usize; for every lifted graph nodes <= 2 + sum of the successor-set sizes, because every block but the entry is reachable (C12) and hence the target of an edge. The theorem is about the graph as lifted; into_ssa leaves blocks and edge sets untouched (observed by the C12 correspondence, which dumps the graph after into_ssa)")
    elif f.endswith("nonstrict_binary_conversion.rs"):
        e=D("C11_nonstrict_reports_exact","the pass never panics; `args[0]` is read under `args.len() == 1`"); e["guard_text"]="args.len() == 1"
    elif f.endswith("unconstrained_less_than.rs"):
        if k=="sub": e=D("C11_primes_are_documented","prime_size() is 254, 255 or 64 for the three curves (regenerated Gen.Primes), so `- 1` cannot underflow")
        else:
            e=D("C11_lessthan_reports_exact","the pass never panics; `args[0]` is read under `args.len() == 1`"); e["guard_text"]="args.len() == 1"
    elif f.endswith("ast_shortcuts.rs"):
        e=G("grammar","debug_assert only; the three tuple-declaration productions of lang.lalrpop take SimpleSymbol items, whose action sets `init: None`",guard_in={"file":"parser/src/lang.lalrpop","text":"SimpleSymbol : Symbol = { <name:IDENTIFIER> <dims:ParseArrayAcc*> => Symbol { name, is_array: dims, init: None, }, }"})
    elif f.endswith("statement_builders.rs"):
        e=D("C01_split_string_never_panics","Model.Pipeline.split_string mirrors the loop (fix c447a1c) with split_at and the usize decrement as Panic sites; for every valid UTF-8 string neither fires and the fuel suffices")
    elif f.endswith("control_flow_graph/cfg.rs") and fn=="start_after":
        e=G("default budget","verification hook in `#[cfg(circomspect_verif)] mod verif_budget`: not part of the shipped binary (the checks build with that cfg). The `expect` is evaluated only when `exhausted(..)` holds, i.e. after a harness lowered a pass budget (default usize::MAX, which `passes_done` cannot reach); `Instant::checked_sub(11 s)` then fails only on a machine whose monotonic clock is younger than 11 s",guard_text="if exhausted(budget, passes_done) {",guard_in={"file":f,"text":"pub(super) static VALUE_PASSES: AtomicUsize = AtomicUsize::new(usize::MAX);"})
    elif f.endswith("control_flow_graph/cfg.rs") and fn.endswith("merge_control") and "current_index" in t:
        e=D("C12_preds_succs_mirror C15_idom_exact","added by the completion of the D18 repair (/repo 64f724b): `current_index` is a member of the predecessor set of a block (every member of a predecessor set names an existing block: C12_preds_succs_mirror, on the graph as lifted; SSA conversion keeps the block vector and its edges) or `block.index()` of the block Cfg::get_immediate_dominator returned, i.e. of `&self.basic_blocks[i]` for the immediate dominator i (a node of the graph: C15_idom_exact; BasicBlock::index is the position, C12). Model.Propagate.cond_at totalises this lookup (an index out of range gives no condition), so the site is not a Panic site of that mirror; the walk up the dominator tree ends at the immediate dominator of the join or at the entry block (the mirror bounds it by the number of blocks)")
    elif f.endswith("control_flow_graph/cfg.rs") and fn.endswith("merge_control"):
        e=G("loop index of the only caller","added by the repair of D18 (/repo e096e8a). `Cfg::merge_control` is a private method (`fn`, not `pub`; the `merge_control()` called in expression_impl.rs is the getter of DegreeEnvironment, another type); its only call is inside `for index in 0..self.basic_blocks.len()` of propagate_degrees, so the index is in range (the loop body does not change the length of the block vector: Model.Propagate.pd_blocks / block_ctl go over the same list)",guard_in={"file":f,"text":"for index in 0..self.basic_blocks.len() { env.set_merge_control(self.merge_control(index));"})
    elif f.endswith("control_flow_graph/cfg.rs") and fn.endswith("propagate_degrees") and k=="index":
        e=G("loop index","changed by the repair of D18 (/repo e096e8a) from an iterator over the blocks to an index loop, so that merge_control can read the whole graph: the index ranges over 0..self.basic_blocks.len() and the body does not change the length of the block vector",guard_text="for index in 0..self.basic_blocks.len() {")
    elif f.endswith("control_flow_graph/cfg.rs"):
        KEEP=" The theorem is about the graph as lifted; into_ssa only prepends phi statements and renames (C14_phis_at_head), the block vector and the edge sets are untouched (observed by the C12 correspondence, which dumps the graph after into_ssa)"
        if fn.endswith("get_dominators"): e=D("C15_dominators_exact","members of a dominator set are nodes on a path of the graph, hence valid block indices")
        elif fn.endswith("get_immediate_dominator"): e=D("C15_idom_exact","the immediate dominator is a strict dominator, hence a node of the graph")
        elif fn.endswith("get_dominator_successors"): e=D("C15_dom_tree_children_invert_idom","children are nodes whose idom is the block, hence valid block indices")
        elif fn.endswith("get_dominance_frontier"): e=D("C15_frontier_exact","frontier members are nodes of the graph")
        elif fn.endswith("entry_block"): e=D("C12_entry_no_pred","every lifted graph has a block 0."+KEEP)
        elif k=="panic": e=D("C12_branch_only_last","the only caller (taint_analysis.rs) passes the block in which it met an IfThenElse statement; an if-then-else occurs only as the last statement of its block, so `statements().last()` is that statement."+KEEP)
        elif fn.endswith("get_true_branch") or fn.endswith("get_false_branch"): e=D("C12_branch_targets_exist_and_are_succs","the true target and a recorded false target of the final if-then-else are existing blocks."+KEEP)
        else: e=D("C12_preds_succs_mirror","every member of a successor or predecessor set names an existing block, so every index reached by the closure loops is in the graph."+KEEP)
    elif f.endswith("control_flow_graph/lifting.rs"):
        e=D("C01_lift_never_panics_on_desugared_shape C01_desugar_output_has_desugared_shape C12_lift_never_panics","Model.Lift has both assert!s and every indexing of lifting.rs as Panic sites; lift returns Ok for every body that is a block whose initialisation blocks hold straight-line entries only (C12: leaves only; C01 extends it to the blocks of substitutions the desugarer puts there). That desugared bodies have this shape is C01_desugar_output_has_desugared_shape (through C18_desugar_refines_expand), given that the initialisation blocks of the parsed body hold declarations and (multi-)substitutions only (the grammar: ParseBlock bodies, initialisation blocks built by split_declaration_*; observed by the C12/C13 correspondence on the real into_cfg); composed in C01_pipeline_mirrors_never_panic")
    elif f.endswith("ssa_impl.rs"):
        if fn.endswith("ensure_phi_argument"):
            e=G("caller checks","the only caller, update_phi_statements (static_single_assignment/traits.rs), calls ensure_phi_argument under `if stmt.is_phi_statement()`, which matches exactly the arm that does not panic; Model.Ssa.update_phis has the same guard",guard_in={"file":"program_structure/src/static_single_assignment/traits.rs","text":"if stmt.is_phi_statement() { stmt.ensure_phi_argument(env); }"})
        elif fn=="update_declarations" and "get_version_range(name).expect" in t:
            e=G("registered by Environment::new","every parameter gets a version in Environment::new (get_next_version), and global_versions never forgets a name, so get_version_range is Some",guard_in={"file":f,"text":"for name in parameters.iter() { env.get_next_version(name); }"})
        elif fn=="update_declarations" and k=="assert":
            e=G("built by IR lifting","a Declaration statement is built only by IR lifting with `NonEmptyVec::new(<one name>)` (length 1, no version); insert_ssa_variables visits only the dimensions of a declaration, and update_declarations runs once per into_ssa (which consumes the CFG)",guard_in={"file":"program_structure/src/intermediate_representation/lifting.rs","text":"names: NonEmptyVec::new(name.try_lift(meta, reports)?),"})
        elif fn=="update_declarations":
            e=G("non-empty range","the Vec converted into a NonEmptyVec holds one name per version of `get_version_range(name).unwrap_or(0..1)`; get_version_range yields 0..(max + 1), so the range is never empty",guard_text=".unwrap_or(0..1)")
        else:
            e=D("C01_into_ssa_never_panics C01_lifted_children_order_facts","Model.Ssa (C14) has this site as SPanic; into_ssa never returns SPanic on a graph whose variables are still unversioned (IR lifting builds names with from_string / with_suffix only; observed by the C14 correspondence) and whose dominator-tree children lists satisfy three order facts (child index larger than parent and in range, no duplicates, unique parent), which C01_lifted_children_order_facts proves for the tree that DominatorTree::new computes on every lifted graph (from the invariant of idom_loop, C15_idom_unique and C12_dom_implies_le); C01_into_ssa_fuel_suffices excludes SFuel of the mirror, so a later panic is not masked; composed in C01_pipeline_mirrors_never_panic")
    elif f.endswith("unique_vars.rs"):
        e=G("grammar","the body of every definition is built by the ParseBlock production (and rebuilt by build_block in the desugarer); C10_pass_never_panics then covers the pass on every block",guard_in={"file":"parser/src/lang.lalrpop","text":"<arge:@R> \")\" <body: ParseBlock> <e:@R>"})
    elif f.endswith("declarations.rs"):
        e=D("C10_renaming_injective_on_declarations","after ensure_unique_variables two declarations never share a (name, suffix), so the insert finds no previous entry; a duplicate parameter is answered by an error before lifting (C10_duplicate_parameters_reported)")
    elif f.endswith("degree_meta.rs"):
        e=G("emptiness check","the only caller, iter_opt, calls iter_inf under `!ranges.is_empty()`",guard_in={"file":f,"text":"Some(ranges) if !ranges.is_empty() => Some(Self::iter_inf(ranges)),"},call_counts={"method":"iter_inf","counts":panicsites.call_counts("iter_inf")})
    elif f.endswith("expression_impl.rs"):
        if k=="rem": e=D("C11_primes_are_documented","the divisor is env.prime(), one of the three shipped primes (Gen.Primes, pinned by the theorem), BigInt `%` panics only for zero"); e["site_is"]="% env.prime()"
        else: e=G("size check","`next()` on a set of size 1",guard_text="Some(values) if values.len() == 1 => {")
    elif f.endswith("intermediate_representation/lifting.rs"):
        if k=="panic": e=D("C18_desugar_output_sugar_free C18_functions_with_sugar_rejected","the catch-all arms are reached only by tuples, anonymous components, multi-assignments and parallel operators' sugar; every body handed on by remove_syntactic_sugar is sugar free (templates) or was rejected (functions)")
        else: e=G("length match","tokens[0] / tokens[1] are read in the arms `1 =>` / `2 =>` of `match tokens.len()`",guard_text="match tokens.len() {")
    elif f.endswith("value_meta.rs"):
        e=D("C14_unique_defs","since fix 79353f9 only SSA-versioned locals are published; a validated SSA graph defines every versioned name once, and re-publishing in a later pass repeats the same value (set_reduces_to is write-once); Model.Propagate has the assert as site_add_variable")
    elif f.endswith("variable_meta.rs"):
        e=O("`expect(\"variable knowledge must be initialized before it is read\")`: cache_variable_use must have run on the node; a discipline of the passes with no mirror; exercised by every analysed definition of the C08/C09 correspondences and the C01 engine")
    elif f.endswith("dominator_tree.rs"):
        e=D("C15_no_panic","Model.Dom has every index as `get site` and both asserts as Panic sites; for every rooted graph and hash order the tree is built (Ok)")
    elif f.endswith("static_single_assignment/mod.rs"):
        if "frontier_index" in t:
            e=D("C15_frontier_exact","frontier members are nodes of the graph, so `basic_blocks[frontier_index]` is in range (Model.Ssa.process_frontier skips an index out of range instead of panicking, so this site is not covered by C01_into_ssa_never_panics)")
        elif s["line"]>75 and k=="expect":
            e=D("C12_preds_succs_mirror","the members of a successor set name existing blocks (Model.Ssa.update_succ_phis is a total list update, so this site is not covered by C01_into_ssa_never_panics). The theorem is about the graph as lifted; phi insertion changes statements only")
        else:
            e=D("C01_into_ssa_never_panics C01_lifted_children_order_facts","Model.Ssa (C14) has this site as SPanic; into_ssa never returns SPanic on a graph whose variables are still unversioned (IR lifting builds names with from_string / with_suffix only; observed by the C14 correspondence) and whose dominator-tree children lists satisfy three order facts (child index larger than parent and in range, no duplicates, unique parent), which C01_lifted_children_order_facts proves for the tree that DominatorTree::new computes on every lifted graph (from the invariant of idom_loop, C15_idom_unique and C12_dom_implies_le); C01_into_ssa_fuel_suffices excludes SFuel of the mirror, so a later panic is not masked; composed in C01_pipeline_mirrors_never_panic")
    elif f.endswith("environment.rs"):
        m=fn.split("::")[-1]
        if m in ("remove_variable_block","add_variable"):
            e=D("C10_pass_never_panics","Model.UniqueVars has these as site_remove_block / site_add_variable; neither fires on a function or template body")
        elif m=="merge": e=G("loop condition","`pop()` under `while !variables_left.is_empty() && !variables_right.is_empty()`; also never called",guard_text="while !variables_left.is_empty() && !variables_right.is_empty() {")
        elif m in ("block_with_variable_symbol","mut_block_with_variable_symbol"): e=G("loop condition","`act - 1` under `while act > 0`, act <= variables.len()",guard_text="while act > 0 {")
        elif fn.startswith("VariableBlock"):
            e=G("lookup precedes","called only from RawEnvironment::get_variable / get_mut_variable on the block returned by block_with_variable_symbol, which contains the symbol",guard_in={"file":f,"text":"if VariableBlock::contains_variable(&variables[act - 1], symbol) {"})
        else:
            e=G("not called","inherited from circom; no non-test code of the workspace calls it",uncalled=m)
    elif f.endswith("nonempty_vec.rs"):
        if k=="sub": e=G("zero arm first","`n - 1` in the arm after `0 =>` / under `self.index == 0` else",guard_text=("if self.index == 0 {" if "next" in fn else "0 =>"))
        elif "try_from" in fn: e=G("non-empty","`xs[1..]` under `if let Some(x) = xs.first()`",guard_text="if let Some(x) = xs.first() {")
        else: e=D("C01_lift_never_panics_on_desugared_shape C12_lift_never_panics","`tail[n - 1]` panics for an index beyond the vector. The only NonEmptyVec that is ever indexed is BasicBlockVec in control_flow_graph/lifting.rs (Declaration::names is never indexed); Model.Lift models `basic_blocks[i]` as a lookup that panics out of range, and lift returns Ok on every desugared-shape body")
    elif f.endswith("sarif_conversion.rs"):
        if k=="assert": e=D("C04_label_start_le_end","every label range is the range of a node meta or a parser range (C04_labels_from_nodes), so start <= end is inherited from the ranges the parser builds with Meta::new(s, e) from LALRPOP's @L/@R positions (that hypothesis is about the generated parser: observed by the C04 engine on every label); C04_labels_wellformed_through_desugaring carries it through the desugarer")
        else: e=G("from a String","the PathBuf is built from a `String` two lines above, so to_str() is Some",guard_text=".replace('\"', \"\") .into();")
    elif f.endswith("writers.rs") and k=="expect" and "StdoutWriter::write_reports" in fn:
        e=D("C04_labels_wellformed_through_desugaring_lifting_and_ssa C04_label_file_is_a_node_file C04_unclosed_comment_label_valid","fourth audit (was booked `outside_model`): term::emit fails when stdout cannot be written (run-time environment, DESIGN 5.3) AND when a label names an unknown file or a range that is out of range / not on a character boundary. The second cause is C04's subject: every label carries the range and the file of a node of the parsed source or the parser's own error range (start <= end; positions are LALRPOP byte offsets of tokens, hence character boundaries of a file of the library); that the ranges lie inside the file is observed by C04's engine on every label of every run, not proved")
    elif f.endswith("writers.rs"):
        e=X("fails only when stdout cannot be written (closed pipe, full disk): run-time environment, DESIGN §5.3; termcolor/codespan internals are observed only")
    assert e is not None, s["key"]
    if s.get("core"): e["core"]=s["core"]
    e["text"]=s["text"]; e["shape"]=s["shape"]      # secondary hints (third audit): line text for the reader, statement shape for the check
    M[s["key"]]=e
# second audit: the sites that the content-carrying lifting mirror Model.LiftFull has (renaming on the real tree, lifting,
# IR lifting, declarations) are discharged by its totality theorems, merged into props/C01.v
LF="C01_liftfull_never_panics C01_lift_to_ir_never_panics"
for k,v in M.items():
    if "control_flow_graph/lifting.rs::" in k and "discharged_by" in v:
        v["discharged_by"]=LF+" "+v["discharged_by"]
        v["why"]="Model.LiftFull (content-carrying mirror of try_lift_impl, compared with the real into_cfg on every run) reaches this site exactly when Model.Lift does (lock-step relation of Proofs.LiftFullTotal); "+v["why"]
    elif "unique_vars.rs::ensure_unique_variables::assert" in k:
        M[k]=dict(D(LF+" C01_desugar_output_has_desugared_shape","site 3184 of Model.LiftFull.ensure_unique_variables; definition_wf asks the body to be a block, which C01_desugar_output_has_desugared_shape proves of every body the desugarer hands on (templates) and the ParseBlock production of lang.lalrpop builds for every definition (functions: function_ok of C01_pipeline_mirrors_never_panic, evaluated per definition by the chain stage)"), text=v["text"], shape=v["shape"])
    elif "declarations.rs::Declarations::add_declaration::assert" in k:
        v["discharged_by"]=LF+" "+v["discharged_by"]
        v["why"]="site 2017 of Model.LiftFull.decls_add: excluded by the clause names_distinct of definition_wf (the keys after the renaming mirror are pairwise different: evaluated on every explored definition by the chain stage of ./check C01 and the liftfull stage of ./check C13); for C10's own mirror of the renaming pass: "+v["why"]
    elif "intermediate_representation/lifting.rs::ast::" in k and "::panic#" in k:
        v["discharged_by"]=LF+" C01_sugar_free_spec_is_wf_clause "+v["discharged_by"]
        v["why"]="sites 1119 / 1193 of Model.LiftFull.lift_stmt / lift_expr (every TryLift impl mirrored, catch-all arms included): not reached on a body that meets stmt_sugar_free, which C18's sugar-freeness implies (C01_sugar_free_spec_is_wf_clause); "+v["why"]
    elif "environment.rs::RawEnvironment::add_variable::" in k or "environment.rs::RawEnvironment::remove_variable_block::assert" in k:
        v["discharged_by"]=LF+" "+v["discharged_by"]
        v["why"]="sites 4001 / 4002 of Model.LiftFull (VarEnvironment asserts of the renaming pass on the real syntax tree): the three environments keep their depths (Proofs.LiftFullTotal.ren_total_all); "+v["why"]
json.dump(M,open("/verif/coq/PANIC_MAP.json","w"),indent=1,ensure_ascii=False,sort_keys=True)
print(len(M))
