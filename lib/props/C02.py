"""C02 — no silent failure.

Proof side: coq/props/C02.v (Model.Runner: every error-level report of the
parse stage and every lift/SSA error of a user definition is displayed and
makes the exit status 1, for every failure class, order and option set that
does not allow-list it; exit 0 only if every user definition was analysed).
Derived, not assumed (coq/props/C02.v over Model.Includes + Model.Front +
Model.FrontStages + Model.Runner, all file systems and syntax trees) for EIGHT
of the ten failure classes: a named path that cannot be opened, an unreadable
file, a named file that does not parse, an unresolvable include of a named
file (second pass), an unsupported compiler version, several main components,
a template / function of a named file that the desugarer rejects (invalid
tuple / anonymous component), a repeated parameter name (third pass:
Model.FrontStages mirrors check_compiler_version and the main-component match
and joins C18's Model.Desugar, C13's Model.LiftFull and C01's chain) put an
error report into the project handed to the runner whose location passes the
file filter, so it is displayed and the exit status is 1.  LiftFailure is
derived up to the file id inside the error value (not returned by the
lifting / SSA mirrors).  DuplicateDefinition (ProgramArchive::new, no mirror)
has no class theorem: it is covered by the injection matrix below only (+ the
class table check, whose table is read from Spec.NoSilentSpec.class_table
through the extracted driver);
the user-input ids are the ids of the named files whatever the order in which
they are read.  Tie of that front to the code (engine front, lib/c02front.py):
Model.Includes.run_project + Model.Front on the file system of every project of
the matrix vs the FileLibrary / report collection of the real parse_files,
every report of the Includes stage with its category, code id and code name.
Tie to the code (engine e2e): the failure-injection matrix — every failure
class x every injection position in otherwise clean projects — run through
the real binary (default options, verbose and not), compared with the model
fed by the in-process ground truth, and judged by the property text:
an error-level diagnostic is displayed and the exit status is non-zero;
`No issues found.` + exit 0 only if every user file was read and every
definition analysed."""
import os
import re
import shutil

import common
import c02front
import e2e


def gen(ctx):
    e2e.gen_category()
    c02front.gen_compiler_version()


LIB = """pragma circom 2.0.0;
template Helper(n) {
    signal input in;
    signal output out;
    out <== in * n;
}
function twice(a) {
    return a + a;
}
"""

USER_A = """pragma circom 2.0.0;
include "lib.circom";
function inc(a) {
    return a + 1;
}
template Alpha(n) {
    signal input in;
    signal output out;
    component h = Helper(n);
    h.in <== in;
    out <== h.out + inc(n);
}
template Beta(n) {
    signal input in;
    signal output out;
    out <== in * twice(n);
}
"""

USER_B = """pragma circom 2.0.0;
include "lib.circom";
template Gamma(n) {
    signal input in;
    signal output out;
    component a = Alpha(n);
    a.in <== in;
    out <== a.out;
}
"""

USER_C = """pragma circom 2.0.0;
include "b.circom";
template Delta(n) {
    signal input in;
    signal output out;
    component g = Gamma(n);
    g.in <== in;
    out <== g.out;
}
"""

MAIN_A = "component main = Alpha(2);\n"
MAIN_B = "component main = Gamma(2);\n"

# third audit: shapes no base had — a custom template, a parallel template, definitions with 0 / 2 / 3 parameters, a named
# file WITHOUT definitions (pragma + include + main component only), the included file behind `-L`
USER_D = """pragma circom 2.0.0;
pragma custom_templates;
include "lib.circom";
template custom Gate(n) {
    signal input in;
    signal output out;
    out <== in * n;
}
template parallel Par(n, m) {
    signal input in;
    signal output out;
    out <== in * (n + m);
}
function sum3(a, b, c) {
    return a + b + c;
}
template Zero() {
    signal input in;
    signal output out;
    component p = Par(1, 2);
    p.in <== in;
    component h = Helper(3);
    h.in <== p.out;
    out <== h.out + sum3(1, 2, 3);
}
"""

MAIN_ONLY = """pragma circom 2.0.0;
include "d.circom";
component main = Zero();
"""

TOKEN = re.compile(r'"[^"]*"|[A-Za-z_][A-Za-z_0-9]*|\d+|<==|==>|<--|-->|===|==|\+\+|[{}()\[\];,.=+*<>/-]')


def bases():
    """Clean projects (no finding at the default level): (tag, files, argv)."""
    out = []
    out.append(("lib1", {"a.circom": USER_A, "lib.circom": LIB}, ["a.circom"]))
    out.append(("prog1", {"a.circom": USER_A + MAIN_A, "lib.circom": LIB}, ["a.circom"]))
    out.append(("lib2", {"a.circom": USER_A, "b.circom": USER_B.replace('include "lib.circom";', 'include "a.circom";'), "lib.circom": LIB},
                ["a.circom", "b.circom"]))
    out.append(("prog2", {"a.circom": USER_A, "b.circom": USER_B.replace('include "lib.circom";', 'include "a.circom";') + MAIN_B,
                          "lib.circom": LIB}, ["b.circom", "a.circom"]))
    # a named file that another named file includes, in both orders on the command line and in both modes
    # (the stack is LIFO: the file named LAST is read first and pulls the files it includes before their own turn)
    b_inc_a = USER_B.replace('include "lib.circom";', 'include "a.circom";')
    out.append(("lib2r", {"a.circom": USER_A, "b.circom": b_inc_a, "lib.circom": LIB}, ["b.circom", "a.circom"]))
    out.append(("prog2r", {"a.circom": USER_A, "b.circom": b_inc_a + MAIN_B, "lib.circom": LIB}, ["a.circom", "b.circom"]))
    out.append(("chain3", {"a.circom": USER_A, "b.circom": b_inc_a, "c.circom": USER_C, "lib.circom": LIB},
                ["a.circom", "b.circom", "c.circom"]))
    # third audit
    out.append(("custom1", {"d.circom": USER_D, "lib.circom": LIB}, ["d.circom"]))
    out.append(("mainonly", {"m.circom": MAIN_ONLY, "d.circom": USER_D, "lib.circom": LIB}, ["m.circom", "d.circom"]))
    out.append(("minusL", {"a.circom": USER_A + MAIN_A, "vendor/lib.circom": LIB}, ["a.circom"], ["vendor"]))
    return [b if len(b) == 4 else b + ([],) for b in out]


def random_bases(rng, n):
    """Per seed: n clean projects whose shape is drawn — 1..3 named files, each with 1..3 definitions (templates with
    0..2 parameters, plain / parallel / custom; functions with 1..3 parameters), instantiating each other and the
    included file, which is next to them or behind `-L`; with or without a main component. Whether they are clean is
    checked at run time like for the fixed bases (a random base that is not clean is dropped and counted)."""
    out = []
    for bi in range(n):
        nuser = rng.choice([1, 2, 2, 3])
        behind_l = rng.random() < 0.4
        libname = "vendor/lib.circom" if behind_l else "lib.circom"
        files = {libname: LIB}
        templates = [("Helper", 1)]
        argv = []
        for ui in range(nuser):
            name = "r%d.circom" % ui
            lines = ["pragma circom 2.0.0;"]
            defs = []
            has_custom = False
            for di in range(rng.randint(1, 3)):
                if rng.random() < 0.3:
                    k = rng.randint(1, 3)
                    ps = ["a%d" % j for j in range(k)]
                    defs.append("function f%d_%d(%s) {\n    return %s + 1;\n}" % (ui, di, ", ".join(ps), " + ".join(ps)))
                else:
                    k = rng.randint(0, 2)
                    ps = ["n%d" % j for j in range(k)]
                    flavour = rng.choice(["", "", "parallel ", "custom "])
                    has_custom |= flavour == "custom "
                    body = ["signal input in;", "signal output out;"]
                    factor = " + ".join(["1"] + ps)
                    if templates and flavour != "custom " and rng.random() < 0.6:
                        t, ar = rng.choice(templates)
                        body += ["component c = %s(%s);" % (t, ", ".join(["2"] * ar)), "c.in <== in;", "out <== c.out * (%s);" % factor]
                    else:
                        body.append("out <== in * (%s);" % factor)
                    tname = "T%d_%d" % (ui, di)
                    defs.append("template %s%s(%s) {\n    %s\n}" % (flavour, tname, ", ".join(ps), "\n    ".join(body)))
                    templates.append((tname, k))
            if has_custom:
                lines.append("pragma custom_templates;")
            lines.append('include "lib.circom";')
            if ui and rng.random() < 0.5:
                lines.append('include "r%d.circom";' % (ui - 1))
            files[name] = "\n".join(lines + defs) + "\n"
            argv.append(name)
        # references to templates of later files need their include: only earlier ones are referenced (list order), and a file
        # that references an earlier file's template includes it
        for ui in range(1, nuser):
            name = "r%d.circom" % ui
            for uj in range(ui):
                if re.search(r"= T%d_\d+\(" % uj, files[name]) and 'include "r%d.circom";' % uj not in files[name]:
                    files[name] = files[name].replace('include "lib.circom";', 'include "lib.circom";\ninclude "r%d.circom";' % uj, 1)
        if rng.random() < 0.5:
            t, ar = rng.choice([x for x in templates if x[0] != "Helper"] or templates)
            owner = [a for a in argv if re.search(r"template (?:parallel |custom )?%s\(" % t, files[a])]
            files[owner[0] if owner else argv[-1]] += "component main = %s(%s);\n" % (t, ", ".join(["2"] * ar))
        rng.shuffle(argv)
        out.append(("rand%d" % bi, files, argv, ["vendor"] if behind_l else []))
    return out


DEF_HEAD = re.compile(r"(template|function)(?:\s+(?:custom|parallel))*\s+(\w+)\s*\(([^)]*)\)")


def def_spans(text):
    """(kind, name, start of header, end of parameter list) of the definitions of a clean source."""
    return [(m.group(1), m.group(2), m.start(), m.end()) for m in DEF_HEAD.finditer(text)]


def lib_key(files):
    return next((k for k in files if k.endswith("lib.circom")), None)


def a_main_for(files, prefer):
    """`component main = T(2, ..);` for a template of file `prefer` (or, if it has none, of any file)."""
    for name in [prefer] + sorted(files):
        for m in DEF_HEAD.finditer(files.get(name, "")):
            if m.group(1) == "template":
                ar = len([x for x in m.group(3).split(",") if x.strip()])
                return "component main = %s(%s);\n" % (m.group(2), ", ".join(["2"] * ar))
    return "component main = Helper(2);\n"


def injections(ctx, all_bases):
    """-> list of (Project, class, unconditional?) built from the clean bases."""
    quick = ctx.tier == "quick"
    out = []
    for btag, files, argv, blibs in all_bases:
        def add(tag, files, argv, cls, uncond=True, raw=None, libs=None, note=None, blibs=blibs):
            out.append((e2e.Project(files, argv, libs=blibs if libs is None else libs, tag=tag, meta={"class": cls, "note": note}, raw=raw),
                        cls, uncond))
        user = [a for a in argv]
        LIBF = lib_key(files)
        # 1. missing file at every argv position (with and without the .circom suffix handled separately)
        for pos in range(len(argv) + 1):
            add("%s-missing@%d" % (btag, pos), files, argv[:pos] + ["nosuchfile.circom"] + argv[pos:], "missing-file")
            add("%s-missing-dir@%d" % (btag, pos), files, argv[:pos] + ["nodir/nosuchfile.circom"] + argv[pos:], "missing-file")
        add("%s-only-missing" % btag, files, ["nosuchfile.circom"], "missing-file")
        # 2. unreadable file: invalid UTF-8 (read_to_string fails) at every position, as user file and as include
        bad = b"pragma circom 2.0.0;\ntemplate X() { signal input a; signal output b; b <== a; }\n// \xff\xfe\xc3\x28\n"
        for pos in range(len(argv) + 1):
            add("%s-nonutf8@%d" % (btag, pos), files, argv[:pos] + ["bad.circom"] + argv[pos:], "unreadable-file", raw={"bad.circom": bad})
        for u in user:
            f2 = dict(files)
            f2[u] = f2[u].replace('include "', 'include "bad.circom";\ninclude "', 1)
            add("%s-include-nonutf8-%s" % (btag, u), f2, argv, "unreadable-file", raw={"bad.circom": bad})
        # 2b. an include statement of a named file that resolves nowhere (relative, in a missing directory, absolute)
        for u in user:
            for k, inc in enumerate(("nothere.circom", "nodir/nothere.circom", "/nonexistent-root/nothere.circom")):
                f2 = dict(files)
                f2[u] = f2[u].replace('include "', 'include "%s";\ninclude "' % inc, 1)
                add("%s-unresolved-include%d-%s" % (btag, k, u), f2, argv, "unresolved-include")
        # chmod 000 (only meaningful when not running as root; decided at run time)
        add("%s-chmod000" % btag, dict(files, **{"locked.circom": "pragma circom 2.0.0;\ntemplate Y() { signal input a; signal output b; b <== a; }\n"}),
            argv + ["locked.circom"], "unreadable-file", uncond=False, note="chmod000")
        # 3. unsupported compiler version in every user file / in the included file
        for ver in ("2.1.5", "3.0.0", "1.0.0", "2.2.0"):
            for u in user + [LIBF]:
                f2 = dict(files)
                f2[u] = f2[u].replace("pragma circom 2.0.0;", "pragma circom %s;" % ver, 1)
                # C02's text speaks of the files NAMED on the command line: a bad pragma of a file that is only included is
                # injected for the correspondence of the version check (and today reported), but a tree that does not report
                # it is not charged with a silent failure (third audit: the oracle asked for more than the property says)
                add("%s-pragma-%s-%s" % (btag, ver, u.replace("/", "_")), f2, argv, "bad-pragma" if u in user else "bad-pragma-included-only",
                    uncond=u in user)
        # 3b. NOT failures (third pass, for the correspondence of Model.FrontStages.check_compiler_version only): the boundary
        # versions the check accepts (the project must stay clean) and a file without pragma (a warning, no error)
        for ver in ("2.1.4", "2.1.0", "2.0.9"):
            f2 = dict(files)
            f2[user[0]] = f2[user[0]].replace("pragma circom 2.0.0;", "pragma circom %s;" % ver, 1)
            add("%s-okpragma-%s-%s" % (btag, ver, user[0]), f2, argv, "supported-pragma", uncond=False)
        for u in user[:1] + [LIBF]:
            f2 = dict(files)
            f2[u] = f2[u].replace("pragma circom 2.0.0;\n", "", 1)
            add("%s-nopragma-%s" % (btag, u.replace("/", "_")), f2, argv, "no-pragma", uncond=False)
        # 3c. (third audit, AUDIT.md section 0, first bullet) a lexical error in a file that is ONLY INCLUDED and whose templates
        # the named files use: the report is located solely in the included file and is hidden by design (C19 / C03); C02's
        # text speaks of the named files. Generated, observed (per_class), never a violation of C02.
        for k, tail in enumerate(("\n/* unterminated", "\n@\n")):
            f2 = dict(files)
            f2[LIBF] = f2[LIBF] + tail
            add("%s-included-only-lexical%d" % (btag, k), f2, argv, "included-only-parse-error", uncond=False)
        # 4. lexical / syntactic error at each token of each user file
        for u in user:
            toks = list(TOKEN.finditer(files[u]))
            # the bases added for the include-order shapes repeat the sources of lib2/prog2: every third token in quick
            step = 3 if quick and (btag in ("lib2r", "prog2r", "chain3", "mainonly", "minusL") or btag.startswith("rand")) else 1
            for ti in range(0, len(toks), step):
                m = toks[ti]
                src = files[u]
                f2 = dict(files)
                f2[u] = src[:m.start()] + "@" + src[m.end():]
                add("%s-%s-tok%d-invalid" % (btag, u, ti), f2, argv, "lexical-error")
                f3 = dict(files)
                f3[u] = src[:m.start()] + src[m.end():]
                add("%s-%s-tok%d-deleted" % (btag, u, ti), f3, argv, "syntax-error", uncond=False)
                f4 = dict(files)
                f4[u] = src[:m.end()] + " " + m.group(0) + src[m.end():]
                add("%s-%s-tok%d-doubled" % (btag, u, ti), f4, argv, "syntax-error", uncond=False)
            f5 = dict(files)
            f5[u] = files[u] + "\n/* unterminated"
            add("%s-%s-unclosed-comment" % (btag, u), f5, argv, "lexical-error", uncond=False)
        # 5. invalid tuple / anonymous component in every definition of every user file
        bad_template_stmts = [
            ("anon-in-condition", "if (Helper(1)(in) == 1) { }"),
            ("tuple-in-condition", "if ((in, in) == 1) { }"),
            ("tuple-arity", "var t1; var t2; (t1, t2) = (1, 2, 3);"),
            ("anon-arity", "signal output zz; zz <== Helper(1)(in, in);"),
            ("anon-unknown-template", "signal output zy; zy <== Nowhere(1)(in);"),
        ]
        bad_function_stmts = [
            ("tuple-in-function", "var t1; var t2; (t1, t2) = (a, a);"),
            ("anon-in-function", "var q = Helper(1)(a);"),
        ]
        for u in user:
            for kind, name, s, e in def_spans(files[u]):
                body_start = files[u].index("{", e) + 1
                for tag, stmt in (bad_template_stmts if kind == "template" else bad_function_stmts):
                    f2 = dict(files)
                    f2[u] = files[u][:body_start] + "\n    " + stmt + files[u][body_start:]
                    add("%s-%s-%s-%s" % (btag, u, name, tag), f2, argv, "invalid-tuple-or-anonymous", uncond=False)
        # 6. duplicate parameter names, 9. lift failure (read before write) in every definition
        for u in user:
            for kind, name, s, e in def_spans(files[u]):
                src = files[u]
                params = src[src.index("(", s) + 1:e - 1]
                first = params.split(",")[0].strip()
                f2 = dict(files)
                f2[u] = src[:e - 1] + (", " + first if first else "q, q") + src[e - 1:]
                add("%s-%s-%s-dupparam" % (btag, u, name), f2, argv, "duplicate-parameter")
                body_start = src.index("{", e) + 1
                f3 = dict(files)
                f3[u] = src[:body_start] + "\n    var yy; var zz = yy + 1;" + src[body_start:]
                add("%s-%s-%s-usebeforedef" % (btag, u, name), f3, argv, "lift-failure")
        # 7. several main components
        if len(user) >= 2:
            f2 = dict(files)
            for u in user:
                if "component main" not in f2[u]:
                    f2[u] += a_main_for(f2, u)
            add("%s-mains-all-user" % btag, f2, argv, "several-mains")
        f2 = dict(files)
        if not any("component main" in f2[u] for u in user):
            f2[user[0]] += a_main_for(f2, user[0])
        f2[LIBF] = LIB + "component main = Helper(2);\n"
        add("%s-main-in-include" % btag, f2, argv, "several-mains")
        # 8. duplicate definitions: same file / two files; with a main (Merger) and without (TemplateLibrary)
        for u in user:
            for kind, name, s, e in def_spans(files[u]):
                src = files[u]
                depth, i = 0, src.index("{", e)
                while True:
                    depth += {"{": 1, "}": -1}.get(src[i], 0)
                    i += 1
                    if depth == 0:
                        break
                f2 = dict(files)
                # (before the main component: a definition after `component main` is a syntax error, not a duplicate)
                cut = src.find("component main")
                cut = len(src) if cut < 0 else cut
                f2[u] = src[:cut] + "\n" + src[s:i] + "\n" + src[cut:]
                add("%s-%s-%s-dup-samefile" % (btag, u, name), f2, argv, "duplicate-definition")
                f3 = dict(files)
                f3["extra.circom"] = "pragma circom 2.0.0;\n" + ("pragma custom_templates;\n" if "custom" in src[s:e] else "") + src[s:i] + "\n"
                add("%s-%s-%s-dup-otherfile" % (btag, u, name), f3, argv + ["extra.circom"], "duplicate-definition")
                # third audit (AUDIT.md section 0, second bullet): the copy lives in the file that is ONLY INCLUDED (the
                # Merger labels both definitions, so the report is located in the named file too); a function against a
                # template of the same name (one name space)
                f4 = dict(files)
                f4[LIBF] = files[LIBF] + src[s:i].replace("custom ", "") + "\n"
                add("%s-%s-%s-dup-in-included" % (btag, u, name), f4, argv, "duplicate-definition")
                f5 = dict(files)
                clash = ("function %s(a) {\n    return a + 1;\n}\n" % name if kind == "template" else
                         "template %s(n) {\n    signal input in;\n    signal output out;\n    out <== in * n;\n}\n" % name)
                f5[u] = src[:cut] + "\n" + clash + src[cut:]
                add("%s-%s-%s-dup-clash" % (btag, u, name), f5, argv, "duplicate-definition")
        # ... and the reverse: a name of the included-only file defined again in a named file (one main / library mode)
        for u in user:
            for kind, name, s2, e2 in def_spans(files[LIBF]):
                src = files[u]
                cut = src.find("component main")
                cut = len(src) if cut < 0 else cut
                again = ("template %s(n) {\n    signal input in;\n    signal output out;\n    out <-- in * n;\n    out === in * n;\n}\n" % name
                         if kind == "template" else "function %s(a) {\n    return a + 2;\n}\n" % name)
                f6 = dict(files)
                f6[u] = src[:cut] + "\n" + again + src[cut:]
                add("%s-%s-%s-dup-of-included-name" % (btag, u, name), f6, argv, "duplicate-definition")
        # ---- fourth audit (report A item 6): what the tool detects / could detect and the matrix lacked
        # anonymous main component (`invalid ... anonymous component` of the property text; parser/src/lib.rs:148-157, the one
        # report of `rest'`): must be reported. The main component of the base (if any) is replaced.
        mu = next((u for u in user if "component main" in files[u]), user[0])
        base_src = re.sub(r"component main\b[^;]*;\n?", "", files[mu])
        f2 = dict(files)
        f2[mu] = base_src + a_main_for(files, mu).replace(";\n", "(1);\n")
        add("%s-anonymous-main" % btag, f2, argv, "anonymous-main")
        # a main component naming a template that exists nowhere: NOT a failure class of C02's text (the file is read and
        # parsed, every definition in it analysed, nothing is dropped); generated and counted (today: `No issues found.`)
        f2 = dict(files)
        f2[mu] = base_src + "component main = Nowhere(3);\n"
        add("%s-undefined-main-template" % btag, f2, argv, "undefined-main-template", uncond=False)
        # a named directory without any .circom file: not `a file named on the command line [that] cannot be opened`; the set
        # of user-specified files it stands for is empty. Observed, not a failure class.
        f2 = dict(files, **{"emptydir/README.txt": "no circom file here\n"})
        add("%s-empty-named-directory" % btag, f2, argv + ["emptydir"], "empty-named-directory", uncond=False)
        add("%s-only-empty-named-directory" % btag, f2, ["emptydir"], "empty-named-directory", uncond=False)
        # `-L nosuchdir`: ignored by add_libraries. Harmless when no include needs it (observed); when an include of a named
        # file can only be served from it, that include resolves nowhere: class unresolved-include, must be reported
        add("%s-missing-library-dir" % btag, files, argv, "missing-library-dir", uncond=False, libs=list(blibs) + ["nosuchdir"])
        f2 = dict(files)
        f2[user[0]] = f2[user[0]].replace('include "', 'include "only_in_the_library.circom";\ninclude "', 1)
        add("%s-include-needs-missing-library-dir" % btag, f2, argv, "unresolved-include", libs=list(blibs) + ["nosuchdir"])
        # the open question of DESIGN §4: arguments without the .circom suffix
        add("%s-nosuffix-missing" % btag, files, argv + ["nosuchfile.txt"], "non-circom-argument", uncond=False)
        # (its own template: since the repair the file is read, and a copy of b.circom would be a duplicate definition)
        add("%s-nosuffix-existing" % btag, dict(files, **{"notes.txt": NOTES_TXT}), argv + ["notes.txt"], "non-circom-argument", uncond=False)
    return out


NOTES_TXT = ("pragma circom 2.0.0;\ntemplate Notes(n) {\n    signal input in;\n    signal output out;\n"
             "    out <== in * n;\n}\n")


# The class names of the matrix -> the constructors of Spec.NoSilentSpec.failure_class: CamelCase of the name; the
# matrix injects the class SyntaxError of the property text in two ways (an invalid character, a deleted/doubled token).
# Which mirror produces the report of a class and in which form (class_producer, class_shape) is NOT written here: it
# is read from the Coq definition through the extracted driver (c02front.class_table()).
MATRIX_CLASS_ALIAS = {"lexical-error": "SyntaxError"}


# classes the matrix can only inject conditionally (the inserted statement / the copied definition may leave a valid
# program): their table check is made on the injections that apply (the in-process pipeline reports an error-level problem)
CONDITIONAL_ONLY = ("InvalidTupleOrAnonymous",)


# injected for the correspondence of the version check only: no failure class of the property text
NOT_FAILURES = ("supported-pragma", "no-pragma", "included-only-parse-error", "bad-pragma-included-only", "custom-template",
                "undefined-main-template", "empty-named-directory", "missing-library-dir", "many-named-files")


def coq_class(cls):
    return MATRIX_CLASS_ALIAS.get(cls) or "".join(w.capitalize() for w in cls.split("-"))


def producers(t, pf_code_id, codes):
    """The shapes (Spec.NoSilentSpec.report_shape, Proofs.NoSilentProofs.failure_event_shape) of the error-level
    reports in the ground truth of a project. codes: the ids of Model.FrontStages.codes in the tree under test."""
    out = set()
    user = set(t.user_files)
    for q in t.parse:
        r = t.payload[q][0]
        if r["level"] != "error":
            continue
        in_user = any(f in user for f in r["pfiles"])
        form = c02front.stage_form(r)
        if r["id"] == pf_code_id:
            if not r["pfiles"]:
                out.add("ShOsError")
            elif in_user and r["message"].startswith("Failed to open file"):
                out.add("ShIncludeError")
            elif in_user:
                out.add("ShParseError")
        elif form == "version_error" and r["id"] == codes["version_error"]["id"]:
            out.add("ShVersionError")
        elif form == "multiple_main" and r["id"] == codes["multiple_main"]["id"]:
            out.add("ShMultipleMain")
        elif form == "sugar" and r["id"] in (codes["tuple"]["id"], codes["anonymous"]["id"]) and in_user:
            out.add("ShSugarError")
        elif form == "duplicate" and r["id"] == codes["same_symbol"]["id"] and in_user:
            out.add("ShDuplicate")
        elif in_user:
            out.add("ShOtherInNamedFile")
    for d in t.defs:
        if d["user"] and d["err"] is not None:
            r = t.payload[d["err"]][0]
            if r["level"] == "error" and (not r["pfiles"] or any(f in user for f in r["pfiles"])):
                out.add("ShParamCollision" if r["id"] == codes["param_collision"]["id"] else "ShLiftError")
    return out


def has_error(events):
    return any(e[0] == "diag" and e[1] == "error" for e in events)


def clean_claim(events, exit_status):
    return exit_status == 0 and any(e[0] == "log" and e[1] == "No issues found." for e in events)


def run(ctx, proofs):
    cli = common.build_cli()
    common.build_harness("e2e")
    common.build_model("e2e")
    base = e2e.scratch_dir("C02")
    kf_nosuffix = [k for k in ctx.known if k["id"] == "C02-non-circom-argument"]
    try:
        # third audit: besides the fixed bases, bases whose shape is drawn per seed (kept if the binary finds them clean)
        rand_stats = {"wanted": 2 if ctx.tier == "quick" else 6, "drawn": 0, "not_clean_dropped": 0}
        rbases = []
        for cand in random_bases(ctx.rng, 3 * rand_stats["wanted"]):
            if len(rbases) >= rand_stats["wanted"]:
                break
            rand_stats["drawn"] += 1
            pc = e2e.Project(cand[1], cand[2], libs=cand[3], tag="probe").write(base, 90000 + rand_stats["drawn"])
            rc, out, _ = e2e.run_cli(cli, pc.abs_argv(), e2e.cli_args(libs=pc.abs_libs()), cwd=pc.dir)
            if clean_claim(e2e.parse_stdout(out), rc):
                rbases.append(("rand%d" % len(rbases),) + tuple(cand[1:]))
            else:
                rand_stats["not_clean_dropped"] += 1
        rand_stats["shapes"] = [{"argv": b[2], "libs": b[3], "definitions": sorted(n for f in b[1].values() for n in c02front.scan_definitions(f)),
                                 "custom": sum(f.count("template custom") for f in b[1].values()),
                                 "parallel": sum(f.count("template parallel") for f in b[1].values()),
                                 "main": any("component main" in f for f in b[1].values())} for b in rbases]
        all_bases = bases() + rbases
        inj = injections(ctx, all_bases)
        # fourth audit: MANY named files (a cap on the number of named / read files would leave named files silently unread):
        # 70 named one-template files, clean (judged by clean_problems: every named file read, every definition analysed), and the
        # same with a definition that cannot be lifted in the LAST file / a missing file named last
        many = {"m%02d.circom" % i: "pragma circom 2.0.0;\ntemplate M%02d(n) {\n    signal input in;\n    signal output out;\n    out <== in * n;\n}\n" % i
                for i in range(70)}
        names = sorted(many)
        inj.append((e2e.Project(many, names, tag="many70-clean", meta={"class": "many-named-files"}), "many-named-files", False))
        bad_last = dict(many)
        bad_last[names[-1]] = bad_last[names[-1]].replace("out <== in * n;", "var yy; var zz = yy + 1;\n    out <== in * n;")
        for order, tag in ((names, "last"), (names[::-1], "first")):
            inj.append((e2e.Project(bad_last, order, tag="many70-lift-failure-in-the-file-named-" + tag, meta={"class": "lift-failure"}),
                        "lift-failure", True))
        inj.append((e2e.Project(many, names + ["nosuchfile.circom"], tag="many70-missing-file-named-last", meta={"class": "missing-file"}),
                    "missing-file", True))
        # fourth audit: a third of the injected projects is run with RELATIVE spellings of the named files (`a.circom`, `./a.circom`)
        for p_, _, _ in inj:
            x = ctx.rng.random()
            if x < 0.34 and p_.meta.get("note") != "chmod000":
                p_.meta["spelling"] = "rel" if x < 0.2 else "dot"
        projects = []
        # the clean bases themselves + corpus witnesses
        for btag, files, argv, blibs in all_bases:
            projects.append(e2e.Project(files, argv, libs=blibs, tag="base-" + btag, meta={"class": "clean"}))
        nbase = len(projects)
        for rec in e2e.load_corpus("C02"):
            p = e2e.project_from_description(rec)
            p.meta = dict(rec.get("meta", {}), corpus=rec["_file"])
            inj.append((p, p.meta.get("class", "corpus"), p.meta.get("unconditional", True)))
        # order: the bases, then every injected project (corpus witnesses last)
        projects = projects[:nbase] + [p for p, _, _ in inj]
        for i, p in enumerate(projects):
            p.write(base, i)
            if p.meta.get("note") == "chmod000":
                os.chmod(os.path.join(p.dir, "locked.circom"), 0)
                try:
                    open(os.path.join(p.dir, "locked.circom")).read()
                    p.meta["readable_anyway"] = True
                except OSError:
                    p.meta["readable_anyway"] = False
        raw_truths = e2e.ground_truth(projects)
        truths = [e2e.Truth(t) for t in raw_truths]
        # ---- the front: Model.Includes + Model.Front on the real file system of every project vs the FileLibrary and
        # the report collection of the real parse_files (the premise side of C02_failure_classes_reported,
        # C02_clean_only_if_all_read_and_analysed, C02_user_ids_are_named_files)
        front_dis, front_stats = c02front.compare(projects, raw_truths)
        canon_broken = front_stats.pop("hypothesis_broken")
        revisited = front_stats.pop("directory_revisited")
        pf_code = front_stats["parse_fail_code"]
        # Spec.NoSilentSpec.class_table, printed by the extracted driver: class -> (producer, shape)
        coq_table = c02front.class_table()
        derived = sorted(c for c, (_, dv, _) in coq_table.items() if dv == "Derived")
        derived_partly = sorted(c for c, (_, dv, _) in coq_table.items() if dv == "DerivedUpToLocation")
        matrix_only = sorted(c for c, (_, dv, _) in coq_table.items() if dv == "Assumed")
        stage_stats = front_stats.pop("stage")
        metas_broken = stage_stats.pop("metas_hypothesis_broken")
        model_wf_broken = stage_stats.pop("wf_project_broken")
        defs_file_broken = stage_stats.pop("defs_file_hypothesis_broken")
        stage_codes = stage_stats["codes"]
        # hypothesis wf_project of the theorems (one definition per (kind, name)), on the definitions of every ground truth
        wf_holds, wf_broken = 0, []
        for p, t in zip(projects, truths):
            if t.bad:
                continue
            keys = [d["key"] for d in t.defs]
            if len(keys) == len(set(keys)):
                wf_holds += 1
            else:
                wf_broken.append(p.describe())
        runs = []
        for i in range(len(projects)):
            runs.append({"p": i, "level": "warning", "omit_level": True, "allow": [], "verbose": True, "sarif": True})
            runs.append({"p": i, "level": "warning", "omit_level": True, "allow": [], "verbose": False, "sarif": False})
        # third audit: non-default options. `--level error` and an allow list of NEAR MISSES of the ids of the error-level
        # reports of the project (proper prefixes such as `P`, case variants, the empty string, unknown ids): by the property
        # text none of them is `the id` of the report, so the error must still be displayed. At least OPT_PER_CLASS projects
        # of every class (drawn per seed), every corpus witness.
        OPT_PER_CLASS = 12 if ctx.tier == "quick" else 40
        by_class = {}
        for k in range(nbase, len(projects)):
            by_class.setdefault(inj[k - nbase][1], []).append(k)
        opt_runs_of = {}
        for cls, ks in sorted(by_class.items()):
            for k in (ks if len(ks) <= OPT_PER_CLASS else ctx.rng.sample(ks, OPT_PER_CLASS)):
                t = truths[k]
                ids = sorted({t.payload[q][0]["id"] for q in t.produced() if t.payload[q][0]["level"] == "error"}) if not t.bad else []
                miss = e2e.near_miss_allows(ids or [pf_code["id"]], ctx.rng)
                short = [m for m in miss if ids and any(i.startswith(m) for i in ids)]       # proper prefixes first
                allow = (short[:1] + [m for m in miss if m not in short[:1]])[:ctx.rng.randint(1, 3)]
                runs.append({"p": k, "level": "error", "allow": allow, "verbose": ctx.rng.random() < 0.5, "sarif": ctx.rng.random() < 0.5,
                             "option_variant": True, "short": ctx.rng.random() < 0.5,
                             "curve": ctx.rng.choice([None, "BN254", "bn254"])})
                opt_runs_of.setdefault(k, []).append(len(runs) - 1)
        dis, fail = e2e.evaluate(cli, projects, truths, runs)
        # the bases must be clean, otherwise the matrix shows nothing
        base_silent = []
        for i in range(nbase):
            for r in runs[2 * i:2 * i + 2]:
                if not clean_claim(r["events"], r["exit"]):
                    ctx.violation("a base project of the injection matrix is not clean: %s" % projects[i].tag,
                                  {"broken": "lib/props/C02.py bases()", "events": [list(e) for e in r["events"]][:10]}, no_input=True)
                else:
                    # the clean verdict of a base must be justified too (every definition of its named files analysed)
                    problems = clean_problems(projects[i], truths[i], r)
                    if problems:
                        base_silent.append({"run": e2e.run_brief(r), "project": projects[i].describe(), "class": "clean",
                                            "what": ["`No issues found.` with exit 0 although " + "; ".join(problems)]})
        # ---- the C02 oracle
        per_class = {}
        silent = list(base_silent)
        known_hits = {}
        table_mismatch = []
        table_stats = {"checked": 0, "skipped_conditional_injection": 0, "skipped_no_coq_class": {},
                       "skipped_truth_unavailable": 0, "coq_classes_checked": {}}
        for (p, cls, uncond), k in zip(inj, range(nbase, len(projects))):
            t = truths[k]
            st = per_class.setdefault(cls, {"injected": 0, "applicable": 0, "reported": 0, "silent": 0, "still_clean_and_valid": 0})
            st["injected"] += 1
            for r in runs[2 * k:2 * k + 2] + [runs[j] for j in opt_runs_of.get(k, [])]:
                if r["exit"] not in (0, 1):
                    continue                       # already a failure of the contract (judge)
                if r.get("option_variant"):
                    st["option_variant_runs"] = st.get("option_variant_runs", 0) + 1
                err = has_error(r["events"]) and r["exit"] != 0
                # does the injected class apply? unconditional ones always; the others when the in-process
                # pipeline itself reports an error-level problem or drops a definition
                applicable = uncond
                if not uncond and not t.bad:
                    truth_err = any(t.payload[q][0]["level"] == "error" for q in t.produced())
                    applicable = truth_err
                if p.meta.get("note") == "chmod000":
                    applicable = not p.meta.get("readable_anyway", True)
                if cls in NOT_FAILURES:
                    # no failure class of the property text (which speaks of the files NAMED on the command line): what the
                    # tool does is observed and counted, and the clean verdict is still judged by clean_problems
                    applicable = False
                    st["observed_error_displayed"] = st.get("observed_error_displayed", 0) + int(err)
                    st["observed_clean_verdict"] = st.get("observed_clean_verdict", 0) + int(clean_claim(r["events"], r["exit"]))
                if cls == "non-circom-argument":
                    # since the repair C02-non-circom-argument (fix a7109ba) a named path that is not a directory
                    # is an input file whatever its suffix: a missing one must be reported; an existing one is
                    # read like any other named file and is judged by clean_problems below
                    applicable = p.tag.endswith("-nosuffix-missing")
                if applicable and r is runs[2 * k]:
                    cc = coq_class(cls)
                    truth_err = not t.bad and any(t.payload[q][0]["level"] == "error" for q in t.produced())
                    if t.bad:
                        table_stats["skipped_truth_unavailable"] += 1
                    elif cc not in coq_table:
                        table_stats["skipped_no_coq_class"][cls] = table_stats["skipped_no_coq_class"].get(cls, 0) + 1
                    elif not uncond and cc not in CONDITIONAL_ONLY:
                        table_stats["skipped_conditional_injection"] += 1
                    if not t.bad:
                        prods = producers(t, pf_code["id"], stage_codes)
                        for q in prods:
                            st.setdefault("manifests_by", {}).setdefault(q, 0)
                            st["manifests_by"][q] += 1
                        if (uncond or cc in CONDITIONAL_ONLY) and cc in coq_table:
                            want = coq_table[cc][2]
                            table_stats["checked"] += 1
                            table_stats["coq_classes_checked"][cc] = table_stats["coq_classes_checked"].get(cc, 0) + 1
                            if want not in prods:
                                table_mismatch.append({"tag": p.tag, "class": cls, "coq_class": cc, "producer": coq_table[cc][0],
                                                       "expected_shape": want, "found": sorted(prods), "project": p.describe()})
                if applicable:
                    st["applicable"] += 1
                    if err:
                        st["reported"] += 1
                    else:
                        st["silent"] += 1
                        rec = {"run": e2e.run_brief(r), "project": p.describe(), "class": cls,
                               "what": ["failure class `%s` injected (%s) but no error-level report displayed / exit %d: %s"
                                        % (cls, p.tag, r["exit"], [e for e in r["events"] if e[0] == "log"][-1:])]}
                        if cls == "non-circom-argument" and kf_nosuffix:
                            known_hits["C02-non-circom-argument"] = kf_nosuffix[0]["what"]
                        else:
                            silent.append(rec)
                # clean verdict only if everything was read and analysed
                if clean_claim(r["events"], r["exit"]):
                    problems = clean_problems(p, t, r)
                    if problems:
                        rec = {"run": e2e.run_brief(r), "project": p.describe(), "class": cls,
                               "what": ["`No issues found.` with exit 0 although " + "; ".join(problems)]}
                        if cls == "non-circom-argument" and kf_nosuffix:
                            known_hits["C02-non-circom-argument"] = kf_nosuffix[0]["what"]
                        elif rec not in silent:
                            silent.append(rec)
                    else:
                        st["still_clean_and_valid"] += 1
        for fid, what in known_hits.items():
            ctx.known_finding(fid, what)
        # ---- verdict
        for f in (silent + fail)[:5]:
            ctx.violation("silent failure: " + "; ".join(f["what"])[:400],
                          {"input": f["project"], "project": f["project"], "run": f["run"], "impl": f["what"],
                           "spec": "an error-level report is displayed and the exit status is non-zero; `No issues found.` only if every "
                                   "user file was read and every definition analysed"})
        if (silent or fail) and front_dis:
            ctx.coverage["front_disagreements_first"] = {"tag": front_dis[0]["project"]["tag"], "model": front_dis[0]["model"],
                                                         "impl": front_dis[0]["impl"]}
        if not silent and not fail:
            if front_dis:
                d = front_dis[0]
                if d.get("stage"):
                    ctx.violation("correspondence Model.FrontStages (version check, main components, Model.Desugar, Model.LiftFull / "
                                  "the chain) vs parser::parse_files + generate_cfg broken on the injection matrix (%d projects; "
                                  "first %s): the reports of the stages / the error reports of the definitions differ"
                                  % (len(front_dis), d["project"]["tag"]),
                                  {"broken": "correspondence front stages (Model.FrontStages.stage_run)", "first": d,
                                   "count": len(front_dis), "project": d["project"]}, no_input=True)
                else:
                    ctx.violation("correspondence Model.Includes + Model.Front vs parser::parse_files broken on the injection matrix "
                                  "(%d projects; first %s): FileLibrary / user inputs / error reports differ"
                                  % (len(front_dis), d["project"]["tag"]),
                                  {"broken": "correspondence front (Model.Includes.run_project, Model.Front.front_run)", "first": d,
                                   "count": len(front_dis), "project": d["project"]}, no_input=True)
            elif table_mismatch:
                d = table_mismatch[0]
                ctx.violation("failure class `%s` does not manifest itself in the form Spec.NoSilentSpec.class_shape names "
                              "(%s by %s; found %s) in %d injected projects, first %s"
                              % (d["class"], d["expected_shape"], d["producer"], d["found"], len(table_mismatch), d["tag"]),
                              {"broken": "Spec.NoSilentSpec.class_producer / failure_event vs the pipeline", "first": d,
                               "count": len(table_mismatch), "project": d["project"]}, no_input=True)
            elif dis:
                d = dis[0]
                ctx.violation("correspondence Model.Runner vs the circomspect binary broken on the injection matrix (%d runs, first: %s)"
                              % (len(dis), "; ".join(d["what"])[:300]),
                              {"broken": "correspondence e2e (Model.Runner.run_keys)", "first": d, "count": len(dis),
                               "project": d["project"], "run": d["run"]}, no_input=True)
            elif proofs["failures"]:
                ctx.violation("proof obligations of C02 no longer check: " + "; ".join(proofs["failures"])[:500],
                              {"broken": "props/C02.v", "failures": proofs["failures"]}, no_input=True)
            elif canon_broken or wf_broken or metas_broken or model_wf_broken or defs_file_broken or revisited:
                which = ("canon idempotent (forall p c, canon p = Some c -> canon c = Some c)" if canon_broken else
                         "dirs_revisited = false (no named directory is met twice)" if revisited and not (wf_broken or model_wf_broken or metas_broken or defs_file_broken) else
                         "wf_project" if (wf_broken or model_wf_broken) else
                         "body_in_file (every meta of a definition's body lies in the file of the definition)" if metas_broken else
                         "defs_file_ok (every definition the parser yields for the i-th file of the FileLibrary carries file id i)")
                lst = canon_broken or wf_broken or model_wf_broken or metas_broken or defs_file_broken or revisited
                d = lst[0]
                ctx.violation("hypothesis `%s` of the theorems of props/C02.v does not hold on %d explored projects, first %s"
                              % (which, len(lst), d.get("tag")),
                              {"broken": "hypothesis " + which, "project": d, "count": len(lst)}, no_input=True)
            else:
                never = sorted(c for c in coq_table if not table_stats["coq_classes_checked"].get(c))
                if never:
                    ctx.violation("class table check degenerate: no unconditional injection for the classes %s of "
                                  "Spec.NoSilentSpec.failure_class" % never,
                                  {"broken": "lib/props/C02.py injections() vs Spec.NoSilentSpec.class_table", "table": table_stats},
                                  no_input=True)
                weak = [c for c, st in per_class.items() if st["applicable"] == 0 and c not in ("corpus",) + NOT_FAILURES]
                if weak:
                    ctx.violation("injection matrix degenerate: no applicable injection for classes %s" % weak,
                                  {"broken": "lib/props/C02.py injections()", "classes": per_class}, no_input=True)
        ctx.coverage.update({
            "evaluations": len(runs),
            "distinct_nontrivial": sum(st["applicable"] for st in per_class.values()) // 2,
            "rule": "one evaluation = one run of the real binary on one injected project (default options, once verbose with SARIF, once "
                    "plain); distinct-nontrivial = injected projects in which the failure class really applies (unconditional classes: "
                    "always; mutations that may leave a valid program: when the in-process pipeline reports an error-level problem)",
            "exhaustive": False,
            "exhaustive_part": "every failure class x every injection position of %d clean base projects (library / program mode, 1-3 named "
                               "files, a named file included by another named file in both command-line orders, a chain of three): argv "
                               "position for missing/unreadable files, every user file for unresolvable includes, "
                               "every user/included file for pragmas, every token of every user file for lexical/syntactic errors "
                               "(every third token for the three order-variant bases in quick), " % len(bases()) +
                               "every definition for tuple/anonymous/parameter/"
                               "lift failures and duplicates",
            "per_class": per_class,
            "known_finding_classes_hit": sorted(known_hits),
            "disagreements_model_vs_impl": len(dis), "spec_failures": len(silent) + len(fail),
            "front": dict(front_stats, disagreements=len(front_dis)),
            "front_stages": stage_stats,
            "class_table_mismatches": len(table_mismatch),
            "class_table": {c: list(v) for c, v in sorted(coq_table.items())},
            "class_table_source": "Spec.NoSilentSpec.class_table printed by `model_front classes` (extracted), not a copy",
            "class_table_check": table_stats,
            "classes_derived": derived,
            "classes_derived_up_to_the_file_id_in_the_error_value": derived_partly,
            "classes_covered_by_the_injection_matrix_only": matrix_only,
            "classes_derived_count": "%d of %d" % (len(derived), len(coq_table)),
            "hypotheses_evaluated": {
                "canon_idempotent": {"holds": front_stats["canon_idempotent"], "broken": len(canon_broken),
                                     "on": "the canonicalisation table of every project the front comparison encodes"},
                "name_id_injective": "the hypothesis that replaced wf_project in the run-level theorems (fourth audit: wf_project of the tied "
                                     "project is now PROVED, C02_tied_project_is_wf); in the model run the names are the strings themselves and "
                                     "the check numbers them with a dictionary (lib/e2e.py Truth._dname): injective by construction",
                "wf_project": {"holds": stage_stats["wf_project_holds"], "broken": len(model_wf_broken),
                               "on": "kept as a cross-check only: it cannot fail on the model's library (NoDup by theorem) nor on the HashMap "
                                     "keys of the ground truth; no theorem about a run carries it any more",
                               "on_the_ground_truth": {"holds": wf_holds, "broken": len(wf_broken)}},
                "dirs_revisited_false": {"holds": front_stats.get("no_directory_revisited"), "broken": len(revisited),
                                         "on": "every project the front comparison encodes (printed by the extracted driver; the matrix has no "
                                               "link back to a named directory, C19 owns that shape)"},
                "defs_file_ok": {"holds": stage_stats["defs_file_hypothesis_holds"], "broken": len(defs_file_broken),
                                 "on": "every definition of every file of every project the stage comparison encodes"},
                "body_in_file": {"holds": stage_stats["metas_hypothesis_holds"], "broken": len(metas_broken),
                                 "on": "every meta of every definition the parser yields for the files of every project the stage "
                                       "comparison encodes (Model.FrontStages.meta_in_file, evaluated by the extracted driver)"},
                "sugar_input_returns_DOk": "a model run whose desugaring mirror does not answer DOk has `stage: null`, differs from "
                                           "the ground truth and is a stage disagreement",
                "err_file": "instantiated with the file of the definition in the model run; the primary file ids of the real "
                            "InvalidVariableNameError / UndefinedVariableError reports are compared with it (front_stages."
                            "definition_errors_compared)",
                "parse_files_returns_Ok": "a model run that is not `ok` differs from the ground truth and is a front disagreement",
                "analysis_order": "judged per run by lib/e2e.py judge(): the analysed definitions are a permutation of the "
                                  "definitions of the user files (a failure of the property text otherwise)",
                "pf_id_not_allow_listed": "the default runs have an empty allow list; the option-variant runs allow near misses of the "
                                          "error ids only (strings that are not the id), checked by construction (e2e.near_miss_allows)",
                "failure_event": "derived classes: the file-system / syntax-tree fact is what the injection creates; that the model "
                                 "sees it is part of the front comparison (reports equal). Not evaluated as a Coq predicate",
            },
            "random_bases": rand_stats,
            "option_variant_runs": len([r for r in runs if r.get("option_variant")]),
            "runs_with_one_letter_options": len([r for r in runs if r.get("short")]),
            "runs_naming_the_curve": len([r for r in runs if r.get("curve")]),
            "runs_with_relative_spellings_of_the_named_files": len([r for r in runs if r.get("path_prefix")]),
            "observed_not_failure_classes": {c: {k: v for k, v in st.items() if k.startswith("observed") or k == "injected"}
                                             for c, st in per_class.items() if c in NOT_FAILURES},
            "option_variant_samples": [r["allow"] for r in runs if r.get("option_variant")][:: max(1, len(opt_runs_of) // 6)][:6],
            "included_only_parse_error_observed": per_class.get("included-only-parse-error"),
            "samples": [{"tag": p.tag, "class": c, "argv": p.argv} for p, c, _ in inj[:: max(1, len(inj) // 4)][:4]],
        })
        ctx.assumptions += [
            "unreadable file: the check runs as root, so chmod 000 does not make a file unreadable (recorded per run as readable_anyway); "
            "the class is exercised with invalid UTF-8 content, which makes read_to_string fail the same way",
            "a directory named x.circom is a directory for add_files (best-effort traversal), not an unreadable file",
            "decision on the open question of DESIGN §4 C03: an argument without the `.circom` suffix (existing or not) used to be skipped by "
            "FileStack::add_files without any report; judged against the property text (`a file named on the command line cannot be opened`, "
            "`every user-specified file was read`) that was a silent failure (C02-non-circom-argument, repaired by fix a7109ba in "
            "include_logic.rs): a named path that is not a directory is now always an input file; the two witnesses stay in the matrix "
            "(missing: an error must be displayed; existing: the file must be read and analysed)",
            "the ground truth and the stage outputs are as for C03 (harness e2e); rendering is a black box",
            "front (Model.Includes + Model.Front): the theorems carry the premise that canonicalisation is idempotent (checked on the table "
            "of every project: coverage.front.canon_idempotent); file contents are the model's parameter `content` (unreadable / does not "
            "parse / include statements with ranges), classified per file by read_to_string and parser_logic::parse_file alone "
            "(harness front content); fs::canonicalize, PathBuf and read_dir are observed through the tables (as for C19)",
            "8 of the 10 failure classes are derived (class_derivation = Derived: MissingFile, UnreadableFile, SyntaxError, "
            "UnresolvedInclude from the file system; BadPragma, SeveralMains, InvalidTupleOrAnonymous, DuplicateParameter from what the "
            "parser yields for the files that were read: C02_failure_classes_reported). LiftFailure is derived up to the file id inside "
            "the InvalidVariableNameError / UndefinedVariableError value (the lifting / SSA mirrors return the error without it: "
            "parameter err_file, asked to be absent or the definition's own file; compared on every run). DuplicateDefinition "
            "(ProgramArchive::new, no mirror) has no class theorem: it is covered by the injection matrix only (an error-level report "
            "must be displayed, exit 1) plus the class table check (coverage.class_table_check, class_table_mismatches, "
            "per_class.manifests_by); once such a report exists, C02_error_report_displayed (the runner's filter law) applies",
            "third pass, not mirrored (parameters of Model.FrontStages): the parser itself (pragma version, main component, the syntax "
            "trees: read per file by harness `front stages` with the single-file parser), ProgramArchive::new / TemplateLibrary::new "
            "and the anonymous-main check (`rest`), what lifting / SSA / the passes produce besides the error (`after`). The hypothesis "
            "`every meta of a body lies in the file of its definition` is evaluated on every definition; projects in which a name is "
            "defined twice are not compared by the stage correspondence (hash-dependent survivor, D22) and are counted",
            "the stage correspondence inherits the fidelity of the mirrors it joins: Model.Desugar is compared with the real desugarer "
            "by ./check C18, Model.LiftFull with the real into_cfg by ./check C13, Model.PipelineMirrors.analyse_body with the real "
            "into_cfg + into_ssa by ./check C01; here their REPORTS (category, code, primary file ids) as Model.FrontStages."
            "item_report renders them are compared with the real reports of parse_files / generate_cfg on every matrix project",
            "that errors.rs gives the reports of the Includes stage the category `error` and the code ReportCode::ParseFail, as "
            "Model.Front.report_of says, is compared for every such report of every project (coverage.front."
            "reports_compared_level_and_code, levels_seen, codes_seen); pf_id/pf_name of the model are instantiated with "
            "ParseFail.id()/.name() read from the tree under test (harness `front code`)",
        ]
    finally:
        for d, _, files in os.walk(base):
            for f in files:
                if f == "locked.circom":
                    try:
                        os.chmod(os.path.join(d, f), 0o644)
                    except OSError:
                        pass
        shutil.rmtree(base, ignore_errors=True)


def clean_problems(p, t, r):
    """Reasons why a `No issues found.` verdict is not justified (independent of the parser's own reports)."""
    problems = []
    read_paths = set() if t.bad else {f["path"] for f in t.t["files"] if f["user"]}
    analysed = set(e2e.analysis_order(r["events"]))
    for a in p.argv:
        path = os.path.join(p.dir, a)
        if os.path.isdir(path):
            continue
        try:
            text = open(path, "rb").read().decode("utf-8")
        except (OSError, UnicodeDecodeError):
            problems.append("the named file %s cannot be opened/read" % a)
            continue
        if os.path.realpath(path) not in read_paths:
            problems.append("the named file %s was not read" % a)
            continue
        names = {}
        for kind, name, _, _ in def_spans(text):
            names.setdefault((kind, name), 0)
            names[(kind, name)] += 1
        for (kind, name), cnt in names.items():
            if (kind, name) not in analysed:
                problems.append("%s %s of %s was not analysed" % (kind, name, a))
            if cnt > 1:
                problems.append("%s %s is defined %d times in %s, one definition was dropped" % (kind, name, cnt, a))
    # the same name (templates and functions share one name space) defined twice among the files that were read, one of the
    # definitions in a named file: one definition is dropped (Merger / TemplateLibrary keep the first)
    named_paths = {os.path.realpath(os.path.join(p.dir, a)): a for a in p.argv}
    read = dict(named_paths)
    if not t.bad:
        for f in t.t["files"]:
            read.setdefault(f["path"], os.path.relpath(f["path"], p.dir))
    where = {}
    for path, shown in sorted(read.items()):
        try:
            text = open(path, "rb").read().decode("utf-8")
        except (OSError, UnicodeDecodeError):
            continue
        for name in c02front.scan_definitions(text):
            where.setdefault(name, []).append((path, shown))
    for name, places in sorted(where.items()):
        if len(places) > 1 and any(pth in named_paths for pth, _ in places):
            msg = "%s is defined %d times (%s), one definition was dropped" % (name, len(places), ", ".join(sh for _, sh in places))
            if not any(name + " is defined" in x or " %s is defined" % name in x for x in problems):
                problems.append(msg)
    if not t.bad:
        for d in t.defs:
            if d["user"] and d["err"] is not None:
                problems.append("%s %s could not be lifted" % (d["kind"], d["name"]))
    return problems


def replay(ctx, rep):
    if "project" not in rep:
        print("replay names a broken obligation, not an input:", rep.get("broken"))
        return 1
    if str(rep.get("broken", "")).startswith("correspondence front"):
        base = e2e.scratch_dir("replay-front")
        try:
            p = e2e.project_from_description(rep["project"]).write(base, 0)
            fdis, fstats = c02front.compare([p], e2e.ground_truth([p]))
            print("argv:", p.argv)
            for d in fdis:
                print("model (Model.Includes + Model.Front%s):" % (" + Model.FrontStages" if d.get("stage") else ""), d["model"])
                print("implementation (parse_files%s)        :" % (" + generate_cfg" if d.get("stage") else ""), d["impl"])
            print("front disagreements:", len(fdis), fstats)
            return 1 if fdis else 0
        finally:
            shutil.rmtree(base, ignore_errors=True)
    # the recorded run with ITS options (third audit: the replay used to force the default options and to ask the C03
    # contract only, so a silent failure or an `--allow P` run did not reproduce), judged by the C02 oracle as in run()
    cli = common.build_cli()
    base = e2e.scratch_dir("replay")
    try:
        p = e2e.project_from_description(rep["project"]).write(base, 0)
        t = e2e.Truth(e2e.ground_truth([p])[0])
        r = dict(rep.get("run") or {"level": "warning", "omit_level": True, "allow": [], "verbose": True, "sarif": True})
        r["p"] = 0
        r.pop("exit", None)
        dis, fail = e2e.evaluate(cli, [p], [t], [r])
        cls = (rep.get("project", {}).get("meta") or {}).get("class")
        print("argv:", p.argv, "libs:", p.libs, "options:", {k: r.get(k) for k in ("level", "omit_level", "allow", "verbose", "sarif")})
        print("exit status:", r["exit"])
        for e in r["events"]:
            print("  ", e)
        print("class:", cls)
        oracle = []
        uncond = (rep.get("project", {}).get("meta") or {}).get("unconditional", cls not in NOT_FAILURES + ("clean", "corpus", None))
        truth_err = not t.bad and any(t.payload[q][0]["level"] == "error" for q in t.produced())
        if cls not in NOT_FAILURES and (uncond or truth_err) and not (has_error(r["events"]) and r["exit"] != 0) \
                and not any(t.payload[q][0]["id"] in r["allow"] for q in ([] if t.bad else t.produced()) if t.payload[q][0]["level"] == "error"):
            oracle.append("failure class `%s` injected but no error-level report displayed / exit %s" % (cls, r["exit"]))
        if clean_claim(r["events"], r["exit"]):
            oracle += clean_problems(p, t, r)
        print("model disagreements:", dis[0]["what"] if dis else "none")
        print("output contract    :", fail[0]["what"] if fail else "holds")
        print("C02 oracle         :", oracle if oracle else "holds")
        return 1 if (dis or fail or oracle) else 0
    finally:
        shutil.rmtree(base, ignore_errors=True)
