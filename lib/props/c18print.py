"""Pretty-printer from the wire format of a DESUGARED definition (the s-expressions of harness/src/bin/desugar.rs and
coq/extract/desugar.ml) back to Circom source.  Used by oracle (ii) of C18: the output of Spec.ExpandSpec.expand_spec
for the host template is printed as a hand-written template would be, put in the place of the sugared template, and both
programs go through the CLI binary.

Only sugar-free trees can be printed (Unprintable otherwise).  Every compound expression is parenthesised, every branch
and loop body is braced; declarations are printed one per statement."""

INFIX = {"Mul": "*", "Div": "/", "Add": "+", "Sub": "-", "Pow": "**", "IntDiv": "\\", "Mod": "%", "ShiftL": "<<", "ShiftR": ">>",
         "LesserEq": "<=", "GreaterEq": ">=", "Lesser": "<", "Greater": ">", "Eq": "==", "NotEq": "!=", "BoolOr": "||",
         "BoolAnd": "&&", "BitOr": "|", "BitAnd": "&", "BitXor": "^"}
PREFIX = {"Neg": "-", "BoolNot": "!", "Complement": "~"}
OPS = {"av": "=", "as": "<--", "acs": "<=="}


class Unprintable(Exception):
    pass


def access(acc):
    out = ""
    for a in acc[1:]:
        if a[0] == "ca":
            out += "." + a[1]
        elif a[0] == "aa":
            out += "[%s]" % expr(a[1])
        else:
            raise Unprintable("access " + str(a[0]))
    return out


def expr(e):
    k = e[0]
    if k == "infix":
        return "(%s %s %s)" % (expr(e[2]), INFIX[e[1]], expr(e[3]))
    if k == "prefix":
        return "(%s%s)" % (PREFIX[e[1]], expr(e[2]))
    if k == "switch":
        return "(%s ? %s : %s)" % (expr(e[1]), expr(e[2]), expr(e[3]))
    if k == "par":
        return "(parallel %s)" % expr(e[1])
    if k == "var":
        return e[1] + access(e[2])
    if k == "num":
        return str(int(e[1], 16))
    if k == "call":
        return "%s(%s)" % (e[1], ", ".join(expr(x) for x in e[2:]))
    if k == "array":
        return "[%s]" % ", ".join(expr(x) for x in e[1:])
    raise Unprintable("expression " + str(k))


def xtype(t):
    if t == "var":
        return "var"
    if t in ("comp", "anoncomp"):
        return "component"
    if isinstance(t, list) and t[0] == "sig":
        kind = {"in": " input", "out": " output", "mid": ""}[t[1]]
        tags = (" {%s}" % ", ".join(t[2:])) if len(t) > 2 else ""
        return "signal%s%s" % (kind, tags)
    raise Unprintable("type " + str(t))


def braced(s):
    return s if s.startswith("{") else "{ %s }" % s


def stmt(s):
    k = s[0]
    if k == "if":
        t = "if (%s) %s" % (expr(s[1]), braced(stmt(s[2])))
        if len(s) > 3:
            t += " else %s" % braced(stmt(s[3]))
        return t
    if k == "while":
        return "while (%s) %s" % (expr(s[1]), braced(stmt(s[2])))
    if k == "return":
        return "return %s;" % expr(s[1])
    if k == "initblock":
        return " ".join(stmt(x) for x in s[2:])
    if k == "decl":            # (decl xtype name const dims..)
        return "%s %s%s;" % (xtype(s[1]), s[2], "".join("[%s]" % expr(d) for d in s[4:]))
    if k == "sub":             # (sub name op acc rhe)
        return "%s%s %s %s;" % (s[1], access(s[3]), OPS[s[2]], expr(s[4]))
    if k == "ceq":
        return "%s === %s;" % (expr(s[1]), expr(s[2]))
    if k == "log":
        args = []
        for a in s[1:]:
            if a[0] == "str":
                text = bytes.fromhex(a[1][1:]).decode("utf-8", errors="strict")
                if '"' in text or "\\" in text or "\n" in text:
                    raise Unprintable("string needing escapes")
                args.append('"%s"' % text)
            else:
                args.append(expr(a[1]))
        return "log(%s);" % ", ".join(args)
    if k == "block":
        return "{ %s }" % " ".join(x for x in (stmt(y) for y in s[1:]) if x)
    if k == "assert":
        return "assert(%s);" % expr(s[1])
    raise Unprintable("statement " + str(k))


def body_text(body):
    """The statements of a definition body (a block), one per line."""
    if body[0] != "block":
        raise Unprintable("body is not a block")
    return "\n  ".join(x for x in (stmt(y) for y in body[1:]) if x)
