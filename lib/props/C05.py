"""C05 — comments are transparent (and the pre-processor part of C04).

Correspondence: the real `parser::verif::preprocess` (harness binary
`preprocess`) vs the extracted Gallina mirror (Model.Preprocess.preprocess) vs
the extracted reference lexer (Spec.LexSpec.lex_spec, the oracle of the
violation search) on
  (a) every string of up to 8 (quick) / 10 (thorough) symbols over the alphabet
      / * \\n a " é  — both sides enumerate the same space in the same order and
      exchange per-chunk digests, a differing chunk is re-run verbosely;
  (b) the regression corpus corpus/C05/*.json (witnesses of the fixed defects);
  (c) seeded random longer texts: token streams of small programs with comments
      of every shape of DESIGN Appendix C between the tokens, and random strings
      over a wider alphabet (1- to 4-byte scalars, CR, quotes);
and end to end with the CLI binary, metamorphically: for generated templates
that produce findings, findings(F with comments) == findings(F with the
comments replaced by blanks) and == findings(F without comments) (positions
compared whenever the edit cannot move them) — with comments of every shape,
among them comments whose content looks like code (PAYLOADS: pragma, include,
main component, template, quotes) on every line, files whose only pragma is in a
comment, and comment openers inside string literals of the code (STRING_LINES);
and at the parse entry point (harness mode `ast` = the verif hook parse_source =
parser_logic::parse_file): sources with the same reference-lexer image (the
source, the source with its comments blanked by the extracted reference side,
the source with its comment interiors overwritten by code-like text) must give
the identical AST dump / error report.  This comparison — not a theorem — is
what ties "nothing downstream of parse_file sees a comment" to the code: the
statements about Model.ParseEntry (parser as an arbitrary function of the
pre-processed text) are parametricity facts, kept as lemmas in
Proofs.ParseEntryProofs and not counted as obligations.  Consumers of the
source that sit behind parse_file in OTHER functions (parser/src/lib.rs
parse_file: the FileLibrary entry, check_compiler_version, the include stack)
are reached by the CLI runs only.

Fourth audit: (i) NEGATIVE runs — only `//` and `/* */` are comments: pseudo
comments (scalars outside the language, comment openers of other languages made
of legal tokens) placed outside comments and string literals must be reported
at their offset, on the CLI and through the parse hook (foreign_file,
e2e_foreign, parse_entry); (ii) the command-line options and the spelling of
the input paths are drawn per generated case (draw_opts)."""
import concurrent.futures
import glob
import json
import os
import re

import common

ALPHABET = [47, 42, 10, 97, 34, 233]
# Third audit: the sweeps depend on VERIF_SEED.  Every alphabet keeps the comment
# characters / * and the newline; the other symbols are drawn from these pools
# with ctx.rng (so two seeds explore different spaces), backslash and blank are
# in both pools, the double quote is a fixed member of the second alphabet.
POOL1 = [97, 34, 233, 92, 32, 13, 9, 39]
POOL2 = [13, 9, 0, 97, 233, 0xFEFF, 0x1F600, 0x2028, 0x85, 0x0B, 0x0C, 39, 0x20AC, 0xA0, 0x3000, 33, 64, 35, 0x1680, 0x2003,
         0x202F, 0x205F, 0x1C, 0x1F, 37, 38, 124, 91]
# third sweep: / * and ONE scalar drawn from everything below (incl. the scalars no
# other generator produces: U+000B, U+001C-1F, ! @ % & | [, the Unicode blanks), long strings
POOL3 = POOL1 + POOL2 + [10, 0x1D, 0x1E, 0x2000, 0x200A, 0x2029, 0x7F, 0x80, 0x7FF, 0x800, 0xFFFF, 0x10000, 0x10FFFF, 0xFFFD]
# second exhaustive alphabet: scalars of every UTF-8 length, control characters and
# code points that editors/tools sometimes treat specially (BOM), next to the
# comment characters — so that a special case for ONE scalar (possibly only at a
# particular offset) cannot hide
ALPHABET2 = [47, 42, 10, 13, 9, 0, 97, 233, 0xFEFF, 0x1F600]
# "interesting" code points for the random texts
INTERESTING = [0xFEFF, 0x200B, 0xA0, 0x2028, 0x2029, 13, 9, 12, 0, 0x1F600, 0x10FFFF, 0xFFFD, 0x85,
               47, 42, 34, 39, 92, 35, 0x7F, 0x80, 0x7FF, 0x800, 0xFFFF, 0x10000,
               # third audit: scalars no generator produced (Unicode white space and separators, `!`, `@`, ...)
               0x0B, 0x1C, 0x1D, 0x1E, 0x1F, 33, 64, 37, 38, 124, 91, 0x1680, 0x2000, 0x200A, 0x202F, 0x205F, 0x3000]
WIDE = [47, 42, 10, 13, 32, 9, 97, 34, 39, 92, 233, 0x20AC, 0x1F600, 0x7F, 0x80, 0x7FF, 0x800, 0xFFFF, 0x10000]

# comment shapes (DESIGN Appendix C and the property text); "block" shapes are
# self-contained, "line" shapes run to the end of the line
BLOCK_SHAPES = ["/**/", "/***/", "/****/", "/* x **/", "/** doc **/", "/*/*/", "/*/ x */", "/*\"*/", "/* é */",
                "/* // */", "/* /* */", "/*a*b/c*/", "/* €\U0001F600 */", "/*'*/", "/*! x */", "/*@ x */", "/* \\*/", "/*\x0b*/"]
MULTILINE_SHAPES = ["/*\n*/", "/* a\n * b\n **/", "/*\n//\n*/"]
LINE_SHAPES = ["//", "//*", "// é", "// /*", "///", "//*/", "// \"", "//**/ x", "//! x", "//@ x", "// x \\", "//\x0b x"]

# Comments whose CONTENT looks like code.  A consumer that reads the raw source
# instead of the pre-processed text (a version check by regular expression, an
# include scanner, a duplicate-definition or main-component detector) would see
# them.  For every one of them the metamorphic oracle demands the same thing —
# findings(F) == findings(F with the comment replaced by blanks of the same
# length), positions included, and == findings(F without the comment) — and the
# second column says what a violation would look like for this payload.
PAYLOADS = [
    ("pragma circom 9.9.9;", "not a version pragma: no `requires version 9.9.9` error; the file's own pragma decides, and a "
                             "file whose only pragma is in a comment gets the `no version pragma` warning"),
    ("pragma circom 2.0.0;", "not a version pragma either: a file without a real pragma keeps its `no version pragma` warning"),
    ("pragma custom_templates;", "custom gates are not switched on by a comment"),
    ("include \"nonexistent.circom\";", "not an include: no `file not found` error, no other file is read"),
    ("component main = X();", "not a main component: no `multiple main components` / undefined template error, and a "
                              "library file stays a library"),
    ("component main = T(3);", "same, with an existing template: the main component and its arguments are unchanged"),
    ("template Dup() {}", "not a definition: nothing is analysed that the file does not define"),
    ("template T(n) {}", "not a second definition of T: no duplicate-definition error"),
    ("signal input a; b <-- a;", "commented-out code yields no findings"),
    ("\"", "an odd number of quotes inside a comment does not start a string literal"),
    ("log(\"a // b\");", "quotes and `//` inside a comment are comment text"),
]
PAYLOAD_BLOCK = ["/* %s */" % t for t, _ in PAYLOADS] + ["/** %s **/" % PAYLOADS[0][0], "/*%s*/" % PAYLOADS[3][0]]
PAYLOAD_LINE = ["// %s" % t for t, _ in PAYLOADS] + ["//%s" % PAYLOADS[0][0], "/// %s" % PAYLOADS[4][0]]
# block comments closed by runs of stars of both parities, alone and adjacent
STAR_SHAPES = ["/*****/", "/******/", "/* x ***/", "/* x ****/", "/**//**/", "/***//***/", "/****//**/", "/**/ /***/",
               "/*/**/", "/*//*/", "/* * / */", "/*/ **/"]
BLOCK_SHAPES = BLOCK_SHAPES + STAR_SHAPES + PAYLOAD_BLOCK
LINE_SHAPES = LINE_SHAPES + PAYLOAD_LINE
# Third audit: code-like text on its OWN LINE inside a block comment (only a block
# comment can make a raw line of the file START with comment text).  A consumer
# that scans the raw file line by line (`lines().any(|l| l.trim_start().starts_with("pragma circom"))`,
# a line-anchored include / main-component scan) sees exactly these.
OWN_LINE_SHAPES = ["/*\n%s\n*/" % t for t, _ in PAYLOADS] + \
                  ["/*\n  \t%s\n*/" % PAYLOADS[1][0], "/* x\n%s */" % PAYLOADS[0][0], "/**\n * doc\n%s\n **/" % PAYLOADS[1][0],
                   "/*\r\n%s\r\n*/" % PAYLOADS[1][0]]
MULTILINE_SHAPES = MULTILINE_SHAPES + OWN_LINE_SHAPES
# long comments (third audit: nothing was longer than 1.6 kB; offsets >= 2^16 were never reached)
LONG_BLOCK = "/*" + " long \u00e9 /* x * y // z\n" * 120 + "**/"          # about 3 kB, 120 lines
LONG_LINE = "// " + "long \u00e9 /* x */ " * 150                              # about 3 kB, one line
HUGE_BLOCK = "/*" + "0123456789abcde\n" * 4200 + "*/"                          # > 65 536 bytes

# Code lines with comment openers / closers INSIDE STRING LITERALS.  String
# literals are not special for the comment lexer (Spec.LexSpec, DESIGN §4 C05 —
# as in the code and in Circom's own pre-processor), so "the comment" is what
# the reference lexer says it is; the oracle is again findings(F) ==
# findings(F with that comment blanked), whatever F parses to (the first three
# lines still parse, the others give the same parse error at the same position
# in both files).
STRING_LINES = [
    'log("a /* b */ c");',
    'log("/**/");',
    'log("a /** b **/ c", n);',
    'log("a // b");',
    'log("//");',
    'log("a // b", n); // c',
    'log("a */ b");',
    'log("x/*y"); /* z */',
    'log("x/*y", n); /** z **/ b === a;',
    'log("x/*y");',
    # white space inside a comment inside a string: the stripper turns TAB into a blank, so the string the
    # parser sees differs between a stripper that blanks and one that keeps white space
    'log("a /*\t*/ b");',
]


# --------------------------------------------------------------------------
# stripper level
# --------------------------------------------------------------------------

def utf8len(c):
    return 1 if c < 0x80 else 2 if c < 0x800 else 3 if c < 0x10000 else 4


def line_of(text):
    return " ".join(str(ord(c)) for c in text) if text else "-"


def text_of(line):
    return "" if line.strip() == "-" else "".join(chr(int(t)) for t in line.split())


def split_res(out_line):
    head, res = out_line.split(" = ", 1)
    return head, res


def sweep(ctx, harness, model, maxlen, alphabet=None, fid=0):
    """Exhaustive comparison by digests; returns (evaluations, nontrivial,
    errs, disagreements, failing, differing chunks, differences not listed).
    The real stripper is called with file id `fid`."""
    hfid = ["fid", str(fid)] if fid else []
    chunks = []
    K = len(alphabet) if alphabet else 6
    extra = [",".join(str(c) for c in alphabet)] if alphabet else []
    for L in range(0, maxlen + 1):
        for P in range(1 if L == 0 else K if L == 1 else K * K):
            chunks.append((L, P))

    def one(ch):
        L, P = ch
        a = common.sh([harness] + hfid + ["sweep", str(L), str(P), "digest"] + extra, timeout=900)
        b = common.sh([model, "sweep", "mirror", str(L), str(P), "digest"] + extra, timeout=900)
        c = common.sh([model, "sweep", "spec", str(L), str(P), "digest"] + extra, timeout=900)
        for rc, out, err in (a, b, c):
            if rc != 0 or not out.startswith("digest"):
                raise common.BuildError("preprocess sweep %s failed" % (ch,), (out + err)[-2000:])
        return ch, a[1].strip(), b[1].strip(), c[1].strip()

    evaluations = nontrivial = errs = 0
    bad = []
    with concurrent.futures.ThreadPoolExecutor(max_workers=common.NPROC) as ex:
        for ch, a, b, c in ex.map(one, chunks):
            f = a.split()
            evaluations += int(f[1])
            errs += int(f[3])
            nontrivial += int(f[3]) + int(f[4])
            if not (a == b == c):
                bad.append(ch)
    disagreements, failing = [], []
    unlisted = 0          # differences found but not listed (caps), chunks not re-run: counted, never dropped silently
    for L, P in bad[:6]:
        outs = []
        for cmd in ([harness] + hfid + ["sweep", str(L), str(P), "full"], [model, "sweep", "mirror", str(L), str(P), "full"],
                    [model, "sweep", "spec", str(L), str(P), "full"]):
            rc, out, err = common.sh(cmd + extra, timeout=900)
            outs.append(out.splitlines())
        if len({len(o) for o in outs}) != 1:
            disagreements.append({"case": "chunk %s: the three enumerations print %s lines" % ((L, P), [len(o) for o in outs]),
                                  "impl": "?", "model": "?"})
        for li, lm, ls in zip(*outs):
            head, ri = split_res(li)
            rm, rs = split_res(lm)[1], split_res(ls)[1]
            if ri != rm:
                if len(disagreements) < 20:
                    disagreements.append({"case": head, "impl": ri, "model": rm})
                else:
                    unlisted += 1
            if ri != rs:
                if len(failing) < 20:
                    why = py_checks(text_of(head), ri)
                    failing.append({"case": head, "impl": ri, "spec": rs + ((" [position clause: %s]" % why) if why else ""),
                                    "text": text_of(head)})
                else:
                    unlisted += 1
    unlisted += max(0, len(bad) - 6)
    if bad and not disagreements and not failing:
        disagreements.append({"case": "digest mismatch in chunks %s but the verbose re-run agrees" % bad[:6], "impl": "?", "model": "?"})
    return evaluations, nontrivial, errs, disagreements, failing, len(bad), unlisted


PROGRAM_TOKENS = ("pragma circom 2.0.0 ; template T ( n ) { signal input a ; signal output b ; var x = 3 ; "
                  "b <-- a * a / 2 ; if ( n == 0 ) { x = 1 ; } b === a * a ; log ( \"x/*y\" ) ; } component main = T ( 2 ) ;").split()


def random_texts(ctx, n):
    rng = ctx.rng
    texts = []
    shapes = BLOCK_SHAPES + MULTILINE_SHAPES
    for i in range(n):
        kind = i % 4
        if i % 499 == 5:       # long texts (2 kB .. 9 kB): long comments, many comments (the extracted lexers count
            # offsets in unary and are quadratic: longer texts go to huge_texts / the Python lexer)
            big = rng.choice([LONG_BLOCK, LONG_LINE + "\n", LONG_BLOCK + LONG_LINE + "\n"])
            k = rng.randrange(100, 400)
            parts = []
            for j in range(k):
                parts.append(PROGRAM_TOKENS[j % len(PROGRAM_TOKENS)])
                r = rng.random()
                if r < 0.1:
                    parts.append(rng.choice(shapes))
                elif r < 0.15:
                    parts.append(rng.choice(LINE_SHAPES) + "\n")
                parts.append(rng.choice([" ", "\n", "\t", ""]))
            at = rng.randrange(0, len(parts))
            parts.insert(at, big)
            if rng.random() < 0.3:
                parts.append(rng.choice(["/*", "/* abc *", LONG_BLOCK[:-3]]))      # unclosed, far from the start
            texts.append("".join(parts))
            continue
        if kind in (0, 1):     # token stream with comments between tokens
            k = rng.randrange(3, 40)
            start = rng.randrange(0, len(PROGRAM_TOKENS))
            toks = [PROGRAM_TOKENS[(start + j) % len(PROGRAM_TOKENS)] for j in range(k)]
            out = []
            for t in toks:
                out.append(t)
                r = rng.random()
                if r < 0.25:
                    out.append(rng.choice(shapes))
                elif r < 0.35:
                    out.append(rng.choice(LINE_SHAPES) + rng.choice(["\n", "\r\n", " x\n"]))
                elif r < 0.38:
                    out.append(rng.choice(["/*", "/* abc", "/* **", "/*/", "//", "/", "*/", "*"]))  # possibly unclosed / stray
                out.append(rng.choice([" ", "", "\n", "  "]))
            texts.append("".join(out))
        elif kind == 2:        # shapes glued together without separators
            k = rng.randrange(1, 8)
            texts.append("".join(rng.choice(shapes + LINE_SHAPES + ["a", "/", "*", "\n", "é", "/*", "*/"]) for _ in range(k)))
        else:                  # random scalars, biased to / and *
            k = rng.randrange(0, 30)
            texts.append("".join(chr(rng.choice(WIDE[:3] * 4 + WIDE)) for _ in range(k)))
    # interesting code points: sprinkled anywhere with some probability, and
    # forced at the first and / or the last offset in a share of the texts
    out = []
    for t in texts:
        r = rng.random()
        if r < 0.3:
            cs = list(t)
            for _ in range(rng.randrange(1, 4)):
                cs.insert(rng.randrange(0, len(cs) + 1), chr(rng.choice(INTERESTING)))
            t = "".join(cs)
        r = rng.random()
        if r < 0.15:
            t = chr(rng.choice(INTERESTING)) + t
        elif r < 0.30:
            t = t + chr(rng.choice(INTERESTING))
        elif r < 0.40:
            t = chr(rng.choice(INTERESTING)) + t + chr(rng.choice(INTERESTING))
        out.append(t)
    return out


def huge_texts(rng, n):
    """Texts of 66 kB .. 140 kB (byte offsets beyond 2^16, one comment longer than 2^16 bytes).  Too long for the
    extracted lexers (unary offsets); the oracle for them is py_strip, the Python lexer below."""
    out = []
    for i in range(n):
        pre = " ".join(PROGRAM_TOKENS[j % len(PROGRAM_TOKENS)] for j in range(rng.randrange(0, 400)))
        mid = rng.choice([HUGE_BLOCK, HUGE_BLOCK[:-2] + "\u00e9**/", "// " + "x\u20ac " * 17000 + "\n", HUGE_BLOCK + HUGE_BLOCK])
        post = " ".join(PROGRAM_TOKENS[j % len(PROGRAM_TOKENS)] for j in range(rng.randrange(0, 400)))
        tail = rng.choice(["", "", "/* abc", "/*", "// end", "/**/"])
        out.append(pre + rng.choice(["", " ", "\n"]) + mid + post + " " + tail)
    return out


def py_strip(text):
    """The expected answer of the stripper computed by the independent Python
    lexer (py_comment_mask): same line format as the harness."""
    mask, opener = py_comment_mask(text)
    if opener is not None:
        o = len(text[:opener].encode("utf-8", "surrogatepass"))
        return "err %d %d" % (o, o + 2)
    out = []
    for c, m in zip(text, mask):
        if m:
            out.extend([32] * utf8len(ord(c)))
        else:
            out.append(ord(c))
    return "ok " + (" ".join(map(str, out)) if out else "-")


def py_checks(text, res):
    """Facts that must hold of the implementation's answer whatever the lexer
    says: byte length and scalar boundaries preserved, non-blank scalars in place
    (the C04 clauses), error range on the two bytes of an opener."""
    raw = text.encode("utf-8", "surrogatepass")
    if res.startswith("ok"):
        out = text_of(res[3:])
        ob = out.encode("utf-8", "surrogatepass")
        if len(ob) != len(raw):
            return "byte length changed: %d -> %d" % (len(raw), len(ob))
        for i in range(len(raw)):
            if ob[i] != raw[i] and ob[i] != 0x20:
                return "byte %d changed to a non-blank" % i
        return None
    if res.startswith("err"):
        f = res.split()
        s, e = int(f[1]), int(f[2])
        if raw[s:e] != b"/*":
            return "error range %d..%d does not cover a comment opener" % (s, e)
        return None
    return "unexpected result " + res


def has_surrogate(text):
    return any(0xD800 <= ord(c) <= 0xDFFF for c in text)


# --------------------------------------------------------------------------
# end to end
# --------------------------------------------------------------------------

def gen_template(rng, idx):
    """A small template as a list of lines, each a list of tokens.  Every
    template has at least one `<--` so that there are findings."""
    # `pragma circom` is ONE token of the grammar (literal with a single blank, as in
    # Circom's own grammar): a comment inside it is a comment inside a token
    lines = [["pragma circom", "2.0.0", ";"]]
    with_fn = rng.random() < 0.3
    if with_fn:
        lines += [["function", "f", "(", "m", ")", "{"], ["var", "y", "=", "m", "*", "2", ";"],
                  ["return", "y", "+", "1", ";"], ["}"]]
    lines.append(["template", "T", "(", "n", ")", "{"])
    lines += [["signal", "input", "a", ";"], ["signal", "input", "c", ";"], ["signal", "output", "b", ";"]]
    if rng.random() < 0.5:
        lines.append(["signal", "d", ";"])
        has_d = True
    else:
        has_d = False
    pool = [
        [["b", "<--", "a", "*", "a", ";"]],
        [["b", "<--", "a", "/", "c", ";"]],
        [["b", "<--", "a", "*", "c", "+", "1", ";"]],
        [["b", "<--", "a", ">>", "1", ";"]],
        [["b", "<--", "a", "*", "a", "*", "c", ";"], ["b", "===", "a", "*", "c", ";"]],
    ]
    extra = [
        [["var", "x", "=", "3", ";"]],
        [["var", "x", "=", "n", "*", "2", ";"], ["if", "(", "n", "==", "0", ")", "{", "x", "=", "1", ";", "}"]],
        [["var", "s", "=", "0", ";"], ["for", "(", "var", "i", "=", "0", ";", "i", "<", "n", ";", "i", "++", ")", "{"],
         ["s", "+=", "i", "/", "2", ";"], ["}"]],
        [["assert", "(", "n", ">", "0", ")", ";"]],
        [["a", "*", "c", "===", "b", ";"]],
        [["log", "(", "\"v\"", ",", "n", ")", ";"]],
        [["var", "z", "=", "1", ";"], ["{", "var", "z", "=", "2", ";", "}"]],
        [["var", "w", "=", "a", "==", "c", "?", "1", ":", "0", ";"]],
    ]
    if with_fn:
        extra.append([["var", "q", "=", "f", "(", "n", ")", ";"]])
    if has_d:
        extra.append([["d", "<--", "c", "*", "c", ";"]])
        extra.append([["d", "<==", "a", "*", "c", ";"]])
    body = list(rng.choice(pool))
    for e in rng.sample(extra, rng.randrange(0, 4)):
        body = (body + e) if rng.random() < 0.5 else (e + body)
    lines += body
    lines.append(["}"])
    if rng.random() < 0.7:
        lines.append(["component", "main", "=", "T", "(", "2", ")", ";"])
    return lines


def render(lines, between=None, eol=None, own=None):
    """between[(i,j)] = comment text placed after token j of line i (surrounded
    by blanks); eol[i] = comment text appended to line i; own[i] = comment text
    put on lines of its own after line i."""
    out = []
    for i, toks in enumerate(lines):
        parts = []
        for j, t in enumerate(toks):
            parts.append(t)
            if between and (i, j) in between:
                parts.append(between[(i, j)])
        s = " ".join(parts)
        if eol and i in eol:
            s += " " + eol[i]
        out.append(s)
        if own and i in own:
            out.append(own[i])
    return "\n".join(out) + "\n"


def py_comment_mask(text):
    """Independent (Python) classification of the scalars of `text`: True for
    scalars inside comments.  Returns (mask, unclosed_offset_or_None)."""
    n = len(text)
    mask = [False] * n
    i, state, opener = 0, 0, None
    while i < n:
        if state == 0:
            if text.startswith("//", i):
                mask[i] = mask[i + 1] = True
                state = 1
                i += 2
            elif text.startswith("/*", i):
                mask[i] = mask[i + 1] = True
                state, opener = 2, i
                i += 2
            else:
                i += 1
        elif state == 1:
            if text[i] == "\n":
                state = 0
            else:
                mask[i] = True
            i += 1
        else:
            if text.startswith("*/", i):
                mask[i] = mask[i + 1] = True
                state = 0
                i += 2
            else:
                mask[i] = True
                i += 1
    return mask, (opener if state == 2 else None)


def blank_file(text, per_scalar):
    """Comments replaced by blanks; line breaks inside comments stay line
    breaks so that the line structure of the file is unchanged.  per_scalar:
    one blank per scalar (columns preserved) else one per UTF-8 byte (byte
    offsets preserved)."""
    mask, _ = py_comment_mask(text)
    out = []
    for c, m in zip(text, mask):
        if m and c not in "\n\r":
            out.append(" " * (1 if per_scalar else utf8len(ord(c))))
        else:
            out.append(c)
    return "".join(out)


def lines_starting_inside_comment(text):
    """Number of raw lines of `text` whose first non-blank scalar is comment
    INTERIOR text (inside a comment, not the first scalar of its opener): the
    lines a line-anchored scan of the raw file would misread."""
    mask, _ = py_comment_mask(text)
    n, pos = 0, 0
    for l in text.split("\n"):
        k = len(l) - len(l.lstrip(" \t\r"))
        if k < len(l) and mask[pos + k] and (pos + k == 0 or mask[pos + k - 1] or not (l.startswith("//", k) or l.startswith("/*", k))):
            if pos + k > 0 and mask[pos + k - 1] or not (l.startswith("//", k) or l.startswith("/*", k)):
                n += 1
        pos += len(l) + 1
    return n


def py_comments(text):
    """The comments of `text` as spans (kind, start, end, closed), end exclusive,
    kind '/' (line) or '*' (block); same lexer as py_comment_mask, written as a
    span list (adjacent comments stay separate)."""
    n = len(text)
    spans = []
    i = 0
    while i < n:
        if text.startswith("//", i):
            j = text.find("\n", i)
            j = n if j < 0 else j
            spans.append(("/", i, j, True))
            i = j
        elif text.startswith("/*", i):
            j = text.find("*/", i + 2)
            if j < 0:
                spans.append(("*", i, n, False))
                i = n
            else:
                spans.append(("*", i, j + 2, True))
                i = j + 2
        else:
            i += 1
    return spans


OVERWRITE = " ".join(t for t, _ in PAYLOADS if "/" not in t and "*" not in t) + " "


def overwrite_comments(text, rng):
    """Another file with the SAME comment-lexer image: the interior of every
    comment (openers, closers, line breaks and non-ASCII scalars stay) is
    overwritten with code-like text that contains neither `/` nor `*`, so no
    comment ends earlier or later and every byte length is unchanged."""
    out = list(text)
    for kind, a, b, closed in py_comments(text):
        lo, hi = a + 2, (b - 2 if kind == "*" and closed else b)
        k = rng.randrange(len(OVERWRITE))
        for i in range(lo, hi):
            if ord(out[i]) < 128 and out[i] not in "\n\r":
                out[i] = OVERWRITE[k % len(OVERWRITE)]
                k += 1
    return "".join(out)


# --------------------------------------------------------------------------
# (fourth audit) command-line options.  Every CLI run of C05 used `-l INFO -s <absolute path>`.  Now each generated
# case draws its options with the seed and uses the SAME options for a file and its twins (metamorphic comparisons
# are between runs with identical options): spelling of the level option and of the level, `-s` / `--sarif-file`,
# `-v` / `--verbose` / neither, `-c` / `--curve` with the three curves (or no curve option), and the spelling of the
# INPUT paths: absolute, or relative to the project directory (the tool is then started with that directory as its
# working directory): `main.circom`, `./main.circom`, `sub_c05/../main.circom`.  The tool canonicalises every path it is
# given (parser/src/include_logic.rs: fs::canonicalize in add_files / add_include), so the artifact uri and the location
# line are compared with the real path of the file whatever spelling was used.
# --------------------------------------------------------------------------
LEVELS_ALL = [("-l", "INFO"), ("--level", "INFO"), ("-l", "info"), ("--level", "Info"), ("-l", "INFO"), ("-l", "WARNING")]
# where the oracle needs error-level reports only (the unclosed-comment error, the invalid-token error: displayed at every level)
LEVELS_ERRORS = LEVELS_ALL + [("--level", "warning"), ("-l", "ERROR"), ("--level", "error"), None]
CURVES = [None, ("-c", "BN254"), ("--curve", "BLS12_381"), ("-c", "GOLDILOCKS"), ("--curve", "bn254"), ("-c", "bls12_381"),
          ("--curve", "goldilocks")]
PATH_STYLES = ["abs", "rel", "dot", "updown"]
DEFAULT_OPTS = {"level": ("-l", "INFO"), "sarif": "-s", "verbose": None, "curve": None, "path": "abs"}
OPTS_USED = {}            # option variant -> number of CLI runs (coverage)
_OPTS_LOCK = __import__("threading").Lock()


def draw_opts(rng, errors_only=False):
    return {"level": rng.choice(LEVELS_ERRORS if errors_only else LEVELS_ALL), "sarif": rng.choice(["-s", "--sarif-file"]),
            "verbose": rng.choice([None, None, "-v", "--verbose"]), "curve": rng.choice(CURVES), "path": rng.choice(PATH_STYLES)}


def opts_key(o):
    return "%s | %s | %s | %s | paths:%s" % (" ".join(o["level"]) if o["level"] else "(no level option)", o["sarif"], o["verbose"] or "(not verbose)",
                                          " ".join(o["curve"]) if o["curve"] else "(no curve option)", o["path"])


def spell(style, d, a):
    """The INPUT path of file `a` of directory `d` as written on the command line."""
    return {"abs": os.path.join(d, a), "rel": a, "dot": "./" + a, "updown": "sub_c05/../" + a}[style]


def run_cli(cli, workdir, name, text, opts=None):
    return run_cli_files(cli, workdir, name, {name + ".circom": text}, [name + ".circom"], flat=True, opts=opts)


SARIF_DROPPED = {"unreadable": 0}     # SARIF files that could not be read: counted, and every such run is a reported problem


def run_cli_files(cli, workdir, name, files, args, flat=False, opts=None):
    """Writes `files` (name -> text) into a directory of their own (so that
    includes resolve), runs the CLI on the files named in `args` (options and
    spelling of the paths: `opts`) and returns the exit status, the findings of
    the SARIF file (rule, level, message, regions with the base name of the
    artifact), the standard output and the summary."""
    opts = dict(DEFAULT_OPTS, **(opts or {}))
    opts["level"] = tuple(opts["level"]) if opts["level"] else None
    opts["curve"] = tuple(opts["curve"]) if opts["curve"] else None
    d = workdir if flat else os.path.join(workdir, name)
    os.makedirs(d, exist_ok=True)
    for fn, text in files.items():
        with open(os.path.join(d, fn), "w", encoding="utf-8", newline="") as f:
            f.write(text)
    sarif = os.path.join(d, name + ".sarif")
    try:
        os.remove(sarif)
    except OSError:
        pass
    style = opts["path"]
    if style == "updown":
        os.makedirs(os.path.join(d, "sub_c05"), exist_ok=True)
    paths = [spell(style, d, a) for a in args]
    argv = [cli] + (list(opts["level"]) if opts["level"] else []) + [opts["sarif"], sarif if style == "abs" else name + ".sarif"]
    argv += ([opts["verbose"]] if opts["verbose"] else []) + (list(opts["curve"]) if opts["curve"] else [])
    rc, out, err = common.sh(argv + paths, cwd=None if style == "abs" else d, timeout=120)
    with _OPTS_LOCK:
        OPTS_USED[opts_key(opts)] = OPTS_USED.get(opts_key(opts), 0) + 1
    findings = None
    try:
        doc = json.load(open(sarif))
        findings = []
        for r in doc["runs"][0]["results"]:
            regs = []
            for l in r.get("locations", []):
                g = l["physicalLocation"]["region"]
                reg = (g.get("startLine"), g.get("startColumn"), g.get("endLine"), g.get("endColumn"))
                if not flat:
                    reg = (os.path.basename(l["physicalLocation"]["artifactLocation"]["uri"]),) + reg
                regs.append(reg)
            # messages of un-located reports name the file (`The file `<path>` does not include a version
            # pragma`): the scratch directory (and the spelling of the path) is not part of the finding
            msg = r["message"]["text"]
            for fn in files:
                for sp in sorted({os.path.realpath(os.path.join(d, fn)), os.path.join(d, fn)} | ({spell(style, d, fn)} if style != "rel" else set()),
                                 key=len, reverse=True):
                    msg = msg.replace(sp, "<file>" if flat else "<%s>" % fn)
            findings.append((r.get("ruleId"), r.get("level"), msg, tuple(regs)))
        findings.sort(key=repr)
    except (OSError, ValueError, KeyError, IndexError):
        SARIF_DROPPED["unreadable"] += 1
        findings = None
    summary = [l for l in out.splitlines() if l.startswith("circomspect:") and ("issue" in l or "No issues" in l)]
    uris = sorted({l["physicalLocation"]["artifactLocation"]["uri"] for r in (doc["runs"][0]["results"] if findings is not None else [])
                   for l in r.get("locations", [])}) if findings is not None else []
    return {"rc": rc, "findings": findings, "summary": summary[-1] if summary else None,
            "panic": "panicked" in err, "stdout": out, "dir": d, "opts": opts, "uris": uris, "argv": argv[1:] + paths,
            "spelled": {a: spell(style, d, a) for a in files}}


def shown_paths(res, path, fname):
    """The ways the tool may name the file `fname`: its real path (what the tool does today: it canonicalises every path
    it is given), the absolute path as composed, the spelling used on the command line.  Which of them is displayed is not
    C05's business; that it is THAT FILE is."""
    c = {os.path.realpath(path), path, os.path.join(res.get("dir") or os.path.dirname(path), fname)}
    if res.get("spelled", {}).get(fname):
        c.add(res["spelled"][fname])
    return sorted(c, key=len, reverse=True)


def proj(res, level):
    """level 2: everything; 1: without columns; 0: id, level, message only."""
    if res["findings"] is None:
        return ("no-sarif", res["rc"], res["summary"])
    if level == 2:
        fs = res["findings"]
    elif level == 1:
        fs = sorted(((a, b, c, tuple((r[0], r[2]) for r in d)) for a, b, c, d in res["findings"]), key=repr)
    else:
        fs = sorted(((a, b, c) for a, b, c, d in res["findings"]), key=repr)
    return (fs, res["rc"], res["summary"])


def e2e_case(cli, workdir, rng_seed, idx):
    import random
    rng = random.Random(rng_seed)
    opts = draw_opts(rng)          # one set of options for the file and all its twins
    lines = gen_template(rng, idx)
    base = render(lines)
    # (1) comments only after the last token of a line: no position moves
    eol = {}
    for i in range(len(lines)):
        if rng.random() < 0.5:
            eol[i] = rng.choice(BLOCK_SHAPES + LINE_SHAPES)
    if not eol:
        eol[0] = "/** doc **/"
    f_eol = render(lines, eol=eol)
    # (2) comments of every kind between tokens: columns / lines move
    between = {}
    for i, toks in enumerate(lines):
        for j in range(len(toks)):
            if rng.random() < 0.2:
                between[(i, j)] = rng.choice(BLOCK_SHAPES + MULTILINE_SHAPES)
    if not between:
        between[(0, 0)] = "/***/"
    eol2 = {i: rng.choice(LINE_SHAPES) for i in range(len(lines)) if rng.random() < 0.2}
    f_mid = "/** doc **/ " + render(lines, between=between, eol=eol2)
    if idx % 2 == 0:
        f_mid += rng.choice(["// end", "//", "/* end */", "/**/"])    # comment at end of file without newline
    # (3) code-like payloads, deterministically: EVERY line gets a payload comment
    # (rotating with the template index, so that every payload meets every kind of
    # line over a run).  idx % 3 == 0: the file has NO version pragma, only one in
    # a line comment where the pragma would be; idx % 3 == 1: a commented-out
    # `pragma circom 9.9.9;` stands in front of the real pragma on the same line.
    pay_all = PAYLOAD_LINE + PAYLOAD_BLOCK
    plines = list(lines)
    head = ""
    if idx % 3 == 0:
        plines[0] = []
    elif idx % 3 == 1:
        head = "/* pragma circom 9.9.9; */ "
    pay_eol = {i: pay_all[(i + idx) % len(pay_all)] for i in range(len(plines))}
    version = "9.9.9" if (idx // 2) % 2 else "2.0.0"
    if idx % 3 == 0:
        if idx % 2:
            pay_eol[0] = "// pragma circom %s;" % version
        else:
            # (third audit) the only pragma of the file stands on a line of its own inside a block comment:
            # a raw line of the file starts with `pragma circom`
            del pay_eol[0]
            head = ["/*\npragma circom %s;\n*/\n", "/**\n * doc\n  \tpragma circom %s;\n **/\n", "/*\r\npragma circom %s;\r\n*/\r\n",
                    "\n/* x\npragma circom %s; */ "][(idx // 6) % 4] % version
    # (third audit) code-like text on lines of its own inside block comments, between the lines of the file
    pay_own = {i: OWN_LINE_SHAPES[(i + idx) % len(OWN_LINE_SHAPES)] for i in range(len(plines)) if (i + idx) % 3 == 0}
    f_pay = head + render(plines, eol=pay_eol, own=pay_own)
    f_pay_base = render(plines)
    pay_moves_lines = bool(pay_own) or "\n" in head
    # (third audit) long comments: about 3 kB each, one of them > 64 kB in one template of a run
    if idx % 4 == 1:
        between[(len(lines) // 2, 0)] = LONG_BLOCK
        eol2[len(lines) // 3] = LONG_LINE
        f_mid = "/** doc **/ " + render(lines, between=between, eol=eol2)
    if idx == 2:
        f_mid = HUGE_BLOCK + " " + f_mid
    runs = {"base": base, "eol": f_eol, "mid": f_mid,
            "eol_blank": blank_file(f_eol, True), "eol_blank_bytes": blank_file(f_eol, False),
            "mid_blank": blank_file(f_mid, True), "mid_blank_bytes": blank_file(f_mid, False),
            "pay": f_pay, "pay_blank": blank_file(f_pay, True), "pay_base": f_pay_base}
    res = {k: run_cli(cli, workdir, "t%d_%s" % (idx, k), v, opts) for k, v in runs.items()}
    problems = []

    def same(x, y, level, what):
        if proj(res[x], level) != proj(res[y], level):
            problems.append({"relation": what, "left": x, "right": y, "left_text": runs[x], "right_text": runs[y], "level": level,
                             "left_findings": proj(res[x], level), "right_findings": proj(res[y], level)})
    ascii_only = lambda t: all(ord(c) < 128 for c in t)
    same("base", "eol", 2, "comments appended to lines do not change findings or positions")
    same("eol", "eol_blank", 2, "comments replaced by one blank per character: same findings, same positions")
    same("eol", "eol_blank_bytes", 2, "comments replaced by one blank per byte: same findings, same positions")
    same("base", "mid", 0, "comments between tokens do not change the findings (id, level, message)")
    same("mid", "mid_blank", 2, "comments replaced by one blank per character: same findings, same positions")
    same("mid", "mid_blank_bytes", 2 if ascii_only(f_mid) else 1,
         "comments replaced by one blank per byte: same findings, same lines (columns too when the comments are ASCII)")
    same("pay", "pay_blank", 2, "comments that contain code-like text (pragma, include, main component, template, quotes) "
                                "replaced by blanks: same findings, same positions")
    if pay_moves_lines:
        same("pay_base", "pay", 0, "comments that contain code-like text added to a file, some on lines of their own (lines move): "
                                   "same findings (id, level, message)")
    elif head:
        same("pay_base", "pay", 1, "comments that contain code-like text added to a file (one of them in front of the pragma): "
                                   "same findings, same lines")
    else:
        same("pay_base", "pay", 2, "comments that contain code-like text appended to the lines of a file do not change its "
                                   "findings or positions")
    for k, r in res.items():
        if r["panic"] or r["findings"] is None:
            problems.append({"relation": "the tool ran to completion and wrote its SARIF file", "left": k, "left_text": runs[k],
                             "left_findings": proj(r, 2)})
    nfind = len(res["base"]["findings"] or [])
    for p in problems:
        p["opts"] = opts
    return {"idx": idx, "problems": problems, "nfindings": nfind, "runs": len(runs),
            "rules": sorted({f[0] for f in (res["base"]["findings"] or [])}),
            "own_line_pragma_only": idx % 3 == 0 and idx % 2 == 0, "own_line_payloads": len(pay_own),
            "max_file_bytes": max(len(v.encode("utf-8")) for v in runs.values()),
            "raw_lines_starting_with_comment_text": lines_starting_inside_comment(f_pay)}


def where(text, off):
    """1-based line and column (in characters, as the tool displays them) of offset `off`."""
    return text.count("\n", 0, off) + 1, off - (text.rfind("\n", 0, off) + 1) + 1


def unclosed_report_problems(res, fname, path, line, col, text_for_report):
    """What the property text demands of a file that ends inside a block comment,
    on everything the user sees: the SARIF result (error level, located at the
    two characters of the opener, in the file that holds the opener), the exit
    status (not 0), the standard output (an `error` header with the message of
    that result, the location line `<path>:<line>:<col>`, a summary that counts
    an issue).  Nothing here depends on the wording of the message."""
    problems = []
    paths = shown_paths(res, path, fname)   # (fourth audit: relative spellings on the command line)

    def bad(what):
        problems.append(dict(text_for_report, relation=what, left_findings=proj_files(res, 2), stdout=res["stdout"][-1500:], rc=res["rc"],
                             opts=res.get("opts"), command_line=res.get("argv")))
    want = (line, col, line, col + 2)
    errors = [f for f in res["findings"] or [] if f[1] == "error"]
    located = [f for f in errors if any(tuple(r[-4:]) == want and (len(r) == 4 or r[0] == fname) for r in f[3])]
    if not errors:
        bad("a block comment that is never closed is reported as an error (SARIF: no error-level result)")
    elif not located:
        bad("the unclosed comment is reported on the two characters of its opener, %s:%d:%d-%d:%d, in the file that holds it"
            % ((fname,) + want))
    if res["rc"] == 0:
        bad("a block comment that is never closed is reported as an error: the exit status is not 0")
    out = res["stdout"]
    msg = located[0][2] if located else errors[0][2] if errors else None
    heads = [l for l in out.splitlines() if l.startswith("error")]
    if not heads or (msg is not None and not any(msg in l for l in heads)):
        bad("the unclosed comment is DISPLAYED: standard output has an `error` header carrying the message of the report")
    if not any("%s:%d:%d" % (q, line, col) in out for q in paths):
        bad("the unclosed comment is DISPLAYED at its opener: standard output has the location line <path of %s>:%d:%d "
            "(real path, or the path as spelled on the command line)" % (fname, line, col))
    if located and res.get("uris") is not None and not any(u.endswith(q) for u in res["uris"] for q in paths):
        bad("the SARIF artifact of the unclosed-comment result is %s (artifact uris: %s)" % (fname, res["uris"]))
    if res["summary"] is None or "No issues" in res["summary"] or "issue" not in res["summary"]:
        bad("the summary line counts the unclosed comment as an issue (never `No issues found.`)")
    return problems


def proj_files(res, level):
    """level 2: everything (artifact names included); 0: id, level, message only."""
    if res["findings"] is None:
        return ("no-sarif", res["rc"], res["summary"])
    fs = res["findings"] if level == 2 else sorted(((a, b, c) for a, b, c, d in res["findings"]), key=repr)
    return (fs, res["rc"], res["summary"])


UNCLOSED_TAILS = ["/* abc", "/*", "/* abc *", "/** doc **", "/*/", "/* \u00e9\n more", "/* x\n", "/* /* x", "/* // x\n*"]


def e2e_unclosed(cli, workdir, rng, idx):
    """A file that ends inside a block comment must be reported as an error at
    the line:column of the opener (never 'No issues found'): SARIF, exit status
    and standard output are all asserted."""
    lines = gen_template(rng, idx)
    tail = rng.choice(UNCLOSED_TAILS)
    prefix_comment = rng.choice(["", "/* \u00e9\u00e9 */ ", "// \u20ac\n", "/***/"])
    text = prefix_comment + render(lines) + rng.choice(["", "  ", "\u00e9 "]) + tail
    if idx % 7 == 3:
        text = LONG_BLOCK + "\n" + text
    name = "u%d" % idx
    res = run_cli(cli, workdir, name, text, draw_opts(rng, errors_only=True))
    line, col = where(text, text.rindex(tail))
    problems = unclosed_report_problems(res, name + ".circom", os.path.join(workdir, name + ".circom"), line, col,
                                        {"left": "unclosed", "left_text": text, "kind": "unclosed", "line": line, "col": col})
    return {"idx": idx, "problems": problems}


def project_unclosed_problems(harness, d, texts, args, holder, off, rep):
    """In process, without any hook and without the command-line filters: the
    report collection returned by `parser::parse_files` for the project must
    contain an error-level report whose ONE primary label is on the bytes
    off..off+2 of the opener IN THE FILE THAT HOLDS IT (path of the label's
    file id), and that file contributes no definition (it is not analysed as if
    it were complete).  Wording of the message not read."""
    line = json.dumps({"files": [os.path.join(d, a) for a in args]})
    raw = common.run_lines(harness, ["project"], [line])[0]
    try:
        ans = json.loads(raw)
    except ValueError:
        ans = {"unreadable": raw[:300]}
    problems = []

    def bad(what):
        problems.append(dict(rep, kind="project-unclosed", relation=what, off=off,
                             left_findings={k: ans.get(k) for k in ("mode", "files", "reports", "defs", "panic", "unreadable") if k in ans}))
    hpath = os.path.realpath(os.path.join(d, holder))
    for r in ans.get("reports", []):
        for l in r["primary"]:
            l["path"] = os.path.realpath(l["path"]) if l.get("path") else l.get("path")
    for dd in ans.get("defs", []):
        dd["path"] = os.path.realpath(dd["path"]) if dd.get("path") else dd.get("path")
    errors = [r for r in ans.get("reports", []) if r["level"] == "error"]
    hit = [r for r in errors if len(r["primary"]) == 1 and r["primary"][0]["path"] == hpath
           and (r["primary"][0]["start"], r["primary"][0]["end"]) == (off, off + 2)]
    if "reports" not in ans:
        bad("parse_files answers (no panic) on a project with a file that ends inside a block comment")
    elif not hit:
        bad("parse_files reports the unclosed comment of %s as an error whose one primary label is on the bytes %d..%d of its opener "
            "in that file" % (holder, off, off + 2))
    if any(dd["path"] == hpath for dd in ans.get("defs", [])):
        bad("a file that ends inside a block comment contributes no definitions (it is not analysed as if it were complete)")
    return problems, ans


def rename_lib(lines):
    """The template of gen_template as a library file: T -> L, f -> g, no main component."""
    ren = {"T": "L", "f": "g"}
    return [[ren.get(t, t) for t in l] for l in lines if l[:2] != ["component", "main"]]


def e2e_files(cli, harness, workdir, rng_seed, idx):
    """(third audit) Projects of TWO files: main.circom includes lib.circom and
    instantiates its template L.  Scenarios, by idx % 4:
      0  an unclosed comment in a file that is named on the command line together
         with the other one (so the file that ends inside the comment has a
         non-zero file id in half of the cases): reported IN THAT FILE at its opener;
      1  an unclosed comment in lib.circom, which is only included.  The command
         line does not display reports located solely in included files (C03 is
         an iff, C19: included-only files produce no findings of their own), so
         "reported as an error" is checked where the report is produced: in
         process, on the unfiltered answer of parser::parse_files (error report
         on the opener in THAT file, no definitions from the file); what the CLI
         prints there (`No issues found.`, exit 0) is counted as an observation;
      2  closed comments (all shapes, code-like payloads on lines of their own) in
         both files, both named: findings(F) == findings(F with comments blanked),
         artifact names and positions included;
      3  the same with only main.circom named: comments in an included file do
         not change what is reported."""
    import random
    rng = random.Random(rng_seed)
    main = gen_template(rng, idx)
    if main[-1][:2] != ["component", "main"]:
        main.append(["component", "main", "=", "T", "(", "2", ")", ";"])
    lib = rename_lib(gen_template(rng, idx + 1))
    close = max(i for i, l in enumerate(main) if l == ["}"])
    main[close:close] = [["component", "l", "=", "L", "(", "2", ")", ";"], ["l", ".", "a", "<==", "a", ";"], ["l", ".", "c", "<==", "c", ";"]]
    main.insert(1, ["include", '"lib.circom"', ";"])
    scen = idx % 4
    problems = []
    runs = 0
    opts = draw_opts(rng, errors_only=scen in (0, 1))
    if scen in (0, 1):
        tail = rng.choice(UNCLOSED_TAILS)
        holder = "lib.circom" if scen == 1 or (idx // 4) % 2 == 0 else "main.circom"
        texts = {"main.circom": render(main), "lib.circom": render(lib)}
        pre = rng.choice(["", "/* \u00e9 */\n", "// x\n"])
        texts[holder] = pre + texts[holder] + rng.choice(["", "  ", "\u00e9 "]) + tail
        if scen == 1:
            args = ["main.circom"]
        else:
            other = "main.circom" if holder == "lib.circom" else "lib.circom"
            args = [other, holder] if (idx // 8) % 2 == 0 else [holder, other]
        name = "f%d" % idx
        res = run_cli_files(cli, workdir, name, texts, args, opts=opts)
        runs += 1
        line, col = where(texts[holder], texts[holder].rindex(tail))
        rep = {"left": "project", "files": texts, "args": args, "kind": "unclosed-files", "holder": holder, "line": line, "col": col,
               "left_text": "".join("--- %s\n%s\n" % kv for kv in sorted(texts.items())) + "--- command line: " + " ".join(args)}
        off = len(texts[holder][:texts[holder].rindex(tail)].encode("utf-8"))
        ps, ans = project_unclosed_problems(harness, res["dir"], texts, args, holder, off, rep)
        problems += ps
        cli_silent = None
        if scen == 0:
            problems += unclosed_report_problems(res, holder, os.path.join(res["dir"], holder), line, col, rep)
        else:
            # observation only (coordinator's reading, third audit): displayed or not
            cli_silent = not unclosed_report_problems(res, holder, os.path.join(res["dir"], holder), line, col, rep) == []
        if res["panic"] or res["findings"] is None:
            problems.append(dict(rep, relation="the tool ran to completion and wrote its SARIF file", left_findings=proj_files(res, 2)))
    else:
        shapes = BLOCK_SHAPES + MULTILINE_SHAPES

        def commented(lines_):
            between = {(i, j): rng.choice(shapes) for i, toks in enumerate(lines_) for j in range(len(toks))
                       if rng.random() < 0.15 and not (toks[j] == "include" or toks[j].startswith('"'))}
            eol = {i: rng.choice(LINE_SHAPES + BLOCK_SHAPES) for i in range(len(lines_)) if rng.random() < 0.3}
            own = {i: rng.choice(OWN_LINE_SHAPES) for i in range(len(lines_)) if rng.random() < 0.2}
            return render(lines_, between=between, eol=eol, own=own)
        texts = {"main.circom": commented(main), "lib.circom": commented(lib)}
        blank = {k: blank_file(v, True) for k, v in texts.items()}
        args = ["main.circom", "lib.circom"] if scen == 2 else ["main.circom"]
        if scen == 2 and (idx // 4) % 2:
            args.reverse()
        ra = run_cli_files(cli, workdir, "f%d" % idx, texts, args, opts=opts)
        rb = run_cli_files(cli, workdir, "f%d_blank" % idx, blank, args, opts=opts)
        runs += 2
        if proj_files(ra, 2) != proj_files(rb, 2):
            problems.append({"relation": "project of two files (%s named on the command line): comments of both files replaced by blanks: "
                                         "same findings, same files, same positions" % " and ".join(args),
                             "left": "project", "right": "project with comments blanked", "kind": "files-metamorphic",
                             "files": texts, "right_files": blank, "args": args,
                             "left_text": "".join("--- %s\n%s\n" % kv for kv in sorted(texts.items())),
                             "right_text": "".join("--- %s\n%s\n" % kv for kv in sorted(blank.items())),
                             "left_findings": proj_files(ra, 2), "right_findings": proj_files(rb, 2)})
        for r, t in ((ra, texts), (rb, blank)):
            if r["panic"] or r["findings"] is None:
                problems.append({"relation": "the tool ran to completion and wrote its SARIF file", "left": "project", "kind": "files-ran",
                                 "files": t, "args": args, "left_text": "".join("--- %s\n%s\n" % kv for kv in sorted(t.items())),
                                 "left_findings": proj_files(r, 2)})
    for p in problems:
        p.setdefault("opts", opts)
    return {"idx": idx, "scenario": scen, "problems": problems, "runs": runs,
            "included_only_not_displayed": bool(scen == 1 and cli_silent),
            "label_file_id": next((r["primary"][0]["file"] for r in (ans.get("reports", []) if scen in (0, 1) else [])
                                   if r["level"] == "error" and r["primary"]), None) if scen in (0, 1) else None}


def e2e_strings(cli, workdir, rng_seed, idx):
    """Comment openers inside string literals of the code (STRING_LINES): the
    comment is what the (string-unaware) reference lexer says; blanking it must
    leave the findings — or the parse error and its position — unchanged.  A
    `/*` inside a string with no `*/` after it is an unclosed comment."""
    import random
    rng = random.Random(rng_seed)
    lines = gen_template(rng, idx)
    body_start = next(i for i, l in enumerate(lines) if l[:1] == ["template"]) + 1
    at = rng.randrange(body_start, len(lines) - (2 if lines[-1][:1] == ["component"] else 1) + 1)
    sl = STRING_LINES[idx % len(STRING_LINES)]
    text = render(lines[:at]) + sl + "\n" + render(lines[at:])
    problems = []
    spans = py_comments(text)
    runs = {"str": text}
    if all(c for _, _, _, c in spans):
        runs["str_blank"] = blank_file(text, True)
    # (third audit) an include path that contains a comment with white space other than blanks: the path shown in the
    # `Failed to open file` message is the pre-processed text of the string literal, so a stripper that keeps TAB / VT /
    # FF inside comments shows another path than for the file with the comment replaced by blanks
    ws = ["\t", "\x0b", "\x0c", " \t "][idx % 4]
    inc = render(lines[:1]) + 'include "no/*%s*/such.circom";\n' % ws + render(lines[1:])
    runs["inc"] = inc
    runs["inc_blank"] = blank_file(inc, False)
    opts = draw_opts(rng)
    res = {k: run_cli(cli, workdir, "s%d_%s" % (idx, k), v, opts) for k, v in runs.items()}
    if proj(res["inc"], 2) != proj(res["inc_blank"], 2):
        problems.append({"relation": "a comment with white space (TAB, VT, FF) inside the string literal of an include path replaced by "
                                     "blanks: same findings (the path in the message included), same positions", "level": 2,
                         "left": "inc", "right": "inc_blank", "left_text": inc, "right_text": runs["inc_blank"],
                         "left_findings": proj(res["inc"], 2), "right_findings": proj(res["inc_blank"], 2)})
    if not any("no" in f[2] and "such.circom" in f[2] for f in res["inc"]["findings"] or []):
        problems.append({"relation": "generator: the include of a missing file is reported with its path", "left": "inc", "left_text": inc,
                         "left_findings": proj(res["inc"], 2)})
    if "str_blank" in runs:
        if proj(res["str"], 2) != proj(res["str_blank"], 2):
            problems.append({"relation": "a comment opened inside a string literal (string literals are not special for the comment "
                                         "lexer) replaced by blanks: same findings or same parse error, same positions",
                             "left": "str", "right": "str_blank", "left_text": text, "right_text": runs["str_blank"],
                             "left_findings": proj(res["str"], 2), "right_findings": proj(res["str_blank"], 2)})
    else:
        line, col = where(text, spans[-1][1])
        problems += unclosed_report_problems(
            res["str"], "s%d_str.circom" % idx, os.path.join(workdir, "s%d_str.circom" % idx), line, col,
            {"left": "str", "left_text": text, "kind": "unclosed", "line": line, "col": col,
             "note": "a `/*` inside a string literal that no `*/` follows is an unclosed comment (string literals are not special "
                     "for the comment lexer)"})
    for k, r in res.items():
        if r["panic"] or r["findings"] is None:
            problems.append({"relation": "the tool ran to completion and wrote its SARIF file", "left": k, "left_text": runs[k],
                             "left_findings": proj(r, 2)})
    for p in problems:
        p.setdefault("opts", opts)
    return {"idx": idx, "problems": problems, "runs": len(runs), "line": sl,
            "parsed": not any(f[1] == "error" for f in res["str"]["findings"] or [])}


# --------------------------------------------------------------------------
# (fourth audit) nothing but `//` and `/* */` is a comment: scalars that are not part of the language, and pseudo
# comment openers made of legal tokens, placed OUTSIDE comments and string literals
# --------------------------------------------------------------------------
# Scalars no token of parser/src/lang.lalrpop starts with and that are not white space (Unicode White_Space is skipped by
# the generated lexer, `\s*`): ASCII punctuation outside the language (`$` is an identifier character but no identifier
# starts with it unless a letter follows: it is always written with a blank after it), control characters, non-ASCII.
FOREIGN_ASCII = ["#", "@", "`", "'", "$"]
FOREIGN_OTHER = ["\u00a7", "\u00e9", "\u20ac", "\u03bb", "\u200b", "\ufeff", "\U0001F600", "\u00b6", "\u2014", "\u00ac", "\x01", "\x7f",
                 "\x1b", "\u00b0", "\u2022", "\u00ab", "\u2116"]
# comment openers of other languages that consist of LEGAL tokens of this one: they must be lexed as those tokens (and
# are then a syntax error at the start of a statement / definition), never skipped
# (not in the pool: openers that start with a prefix operator or an opening brace - `! c <-- a;` and `{ - c <-- a;` are
# accepted by the GRAMMAR (the left-hand side is checked later), so the syntax error is not on that line)
LEGAL_OPENERS = ["--", ";;", "<!--", "(*", "%", "%%", "\\\\", "::", "..", "-->", "**", "=begin", "??", "--[[", "<#", "|", "*>", "^^", "&&", "=="]
WORD_OPENERS = ["REM", "rem", "dnl", "comment", "C"]        # an identifier followed by a statement is a syntax error on that line too
# what the pseudo comment would hide, inside a template body / at top level
# (the first four cannot follow a prefix operator: `! b === a;` would be a legal statement)
HIDDEN_BODY = ["b <-- a * c;", "signal input h; b <-- h;", "c <-- a;", "var hidden = 1;", "assert(n > 0);", "b === a;"]
HIDDEN_TOP = ["template Dup() {}", "include \"nonexistent.circom\";", "component main = X();", "pragma circom 9.9.9;",
              "function hidden(m) { return m; }"]
SENTINEL = "\x00F\x00"


def foreign_opener(rng, idx):
    """(opener text, kind): kind 'invalid' = starts with a scalar that is no part of the language (the error is AT that
    scalar), 'legal' = legal tokens only (a syntax error on that line, at or after the opener).  Every ASCII scalar of the
    pool and every legal opener is used in turn (idx), the other scalars are drawn with the seed."""
    if idx % 3 != 2 or rng.random() < 0.3:
        c = FOREIGN_ASCII[(idx // 3) % len(FOREIGN_ASCII)] if idx % 3 == 0 else rng.choice(FOREIGN_OTHER + FOREIGN_ASCII)
        if c == "$":
            return rng.choice(["$", "$ $", "$1"]), "invalid"
        return rng.choice([c, c, c + c, c + "!", c + " " + c, c + "-", c + "[", c + c + c]), "invalid"
    r = rng.random()
    if r < 0.5:
        return LEGAL_OPENERS[(idx // 3) % len(LEGAL_OPENERS)], "legal"
    if r < 0.6:
        return rng.choice(WORD_OPENERS), "legal"
    # a random run of operator characters: the first one is a token no statement / definition starts with (no prefix
    # operator, no opening bracket), `/` and `"` do not occur (no real comment, no string literal)
    return rng.choice("%&*+.:;<=>?^|\\),]") + "".join(rng.choice("!%&*+-.:;<=>?^|~\\") for _ in range(rng.randrange(0, 3))), "legal"


def foreign_file(rng, idx, comments=True):
    """A generated template with ONE pseudo comment `X hidden-code` placed outside comments and string literals.  Returns
    (text, character offset of X, X, kind, mode, text of the same file with X and the rest of its line replaced by blanks =
    what a tool that took X for a line-comment opener would analyse)."""
    lines = gen_template(rng, idx)
    X, kind = foreign_opener(rng, idx)
    body_start = next(i for i, l in enumerate(lines) if l[:1] == ["template"]) + 1
    body_end = max(i for i, l in enumerate(lines) if l == ["}"])          # the closing brace of the template
    simple = [i for i in range(body_start, body_end) if lines[i][-1] == ";" and "{" not in lines[i] and "}" not in lines[i]]
    mode = rng.choice(["own-line", "own-line", "after-statement", "glued-after-statement", "after-comment", "mid-expression",
                       "glued-mid-expression", "file-start", "file-end"])
    if kind == "legal" and mode in ("mid-expression", "glued-mid-expression"):
        mode = "own-line"              # legal tokens inside an expression can be an expression
    hidden = rng.choice(HIDDEN_TOP if mode in ("file-start", "file-end") else HIDDEN_BODY[:4] if kind == "legal" else HIDDEN_BODY)
    lines = [list(l) for l in lines]
    glue_dollar = X.startswith("$")
    if mode in ("own-line", "after-comment"):
        at = rng.choice(simple) + 1 if simple else body_start
        pre = rng.choice(["/* c */", "/**/", "/* // */ ", "/*\n*/"]) if mode == "after-comment" else None
        lines.insert(at, ([pre] if pre else []) + [SENTINEL, hidden])
    elif mode in ("after-statement", "glued-after-statement"):
        at = rng.choice(simple) if simple else body_start
        if mode == "glued-after-statement":
            lines[at][-1] += SENTINEL
            lines[at].append(hidden)
        else:
            lines[at] += [SENTINEL, hidden]
    elif mode in ("mid-expression", "glued-mid-expression"):
        cands = [(i, j) for i in simple for j in range(1, len(lines[i]) - 1)
                 if lines[i][j - 1] in ("<--", "===", "<==", "=", "*", "+", "/") and (lines[i][j].isalnum())]
        if not cands:
            lines.insert(body_start, [SENTINEL, hidden])
            mode = "own-line"
        else:
            i, j = rng.choice(cands)
            if mode == "glued-mid-expression" and not glue_dollar:
                lines[i][j] += SENTINEL
            else:
                lines[i].insert(j + 1, SENTINEL)
                mode = "mid-expression"
    elif mode == "file-start":
        lines.insert(0, [SENTINEL, hidden])
    else:
        lines.append([SENTINEL, hidden])
    eol = {}
    if comments:
        for i, l in enumerate(lines):
            if not any(SENTINEL in t for t in l) and rng.random() < 0.3:
                eol[i] = rng.choice(BLOCK_SHAPES + LINE_SHAPES)
        # a comment AFTER the pseudo comment on the same line is still a comment (and hides nothing of the pseudo comment)
        if rng.random() < 0.2:
            eol[next(i for i, l in enumerate(lines) if any(SENTINEL in t for t in l))] = rng.choice(["// x", "/* y */", "/**/"])
    text = render(lines, eol=eol)
    off = text.index(SENTINEL)
    assert text.count(SENTINEL) == 1
    mask, _ = py_comment_mask(text)
    assert not mask[off], "generator: the pseudo comment must stand outside every comment"
    text = text.replace(SENTINEL, X)
    end = text.find("\n", off)
    end = len(text) if end < 0 else end
    twin = text[:off] + " " * (end - off) + text[end:]
    return text, off, X, kind, mode, twin


def foreign_problems(res, rtwin, path, text, off, X, kind, rep):
    """The unchanged language has no comment syntax but `//` and `/* */`: X is reported — an error-level result at the
    line:column of X's first scalar when that scalar is no part of the language, on X's line at or after X when X consists
    of legal tokens — the exit status is not 0, standard output shows the location, and the run differs from the run on
    the file in which X and the rest of its line are blanks (nothing was skipped).  No wording of a message is read."""
    problems = []
    paths = shown_paths(res, path, os.path.basename(path))
    line, col = where(text, off)

    def bad(what):
        problems.append(dict(rep, relation=what, left_findings=proj(res, 2), right_findings=proj(rtwin, 2) if rtwin else None,
                             stdout=res["stdout"][-1200:], rc=res["rc"], opts=res.get("opts"), command_line=res.get("argv")))
    errors = [f for f in res["findings"] or [] if f[1] == "error"]
    starts = [tuple(r[-4:][:2]) for f in errors for r in f[3]]
    shown = "%r" % X
    if kind == "invalid":
        if (line, col) not in starts:
            bad("only `//` and `/* */` are comments: the scalar U+%04X (%s), which is no part of the language and stands outside every "
                "comment and string literal, is reported as an error at its position %d:%d (error-level results start at: %s)"
                % (ord(X[0]), shown, line, col, starts))
        if not any("%s:%d:%d" % (q, line, col) in res["stdout"] for q in paths):
            bad("only `//` and `/* */` are comments: the error at the scalar U+%04X (%s) is DISPLAYED: standard output has the location "
                "line <path>:%d:%d" % (ord(X[0]), shown, line, col))
    else:
        if not any(l == line and c is not None and c >= col for l, c in starts):
            bad("only `//` and `/* */` are comments: %s (legal tokens, a comment opener in other languages) at the start of a statement / "
                "definition is lexed as tokens and reported as a syntax error on its line %d at or after column %d (error-level results "
                "start at: %s)" % (shown, line, col, starts))
        if not any("%s:%d:" % (q, line) in res["stdout"] for q in paths):
            bad("only `//` and `/* */` are comments: the syntax error at %s is DISPLAYED on line %d" % (shown, line))
    if res["rc"] == 0:
        bad("only `//` and `/* */` are comments: a file with %s outside every comment is not accepted (exit status 0)" % shown)
    if rtwin is not None and proj(res, 2) == proj(rtwin, 2):
        bad("comments never hide code, and nothing but a comment does: the text after %s is analysed, the run is not the run on the "
            "file with %s and the rest of its line replaced by blanks" % (shown, shown))
    return problems


def e2e_foreign(cli, workdir, rng_seed, idx):
    import random
    rng = random.Random(rng_seed)
    text, off, X, kind, mode, twin = foreign_file(rng, idx)
    opts = draw_opts(rng, errors_only=True)
    name = "x%d" % idx
    res = run_cli(cli, workdir, name, text, opts)
    rtwin = run_cli(cli, workdir, name + "_twin", twin, opts)
    rep = {"left": "pseudo-comment", "right": "rest of the line blanked", "left_text": text, "right_text": twin, "kind": "foreign",
           "off": off, "opener": X, "opener_kind": kind, "mode": mode}
    problems = foreign_problems(res, rtwin, os.path.join(workdir, name + ".circom"), text, off, X, kind, rep)
    for k, r, t in (("pseudo-comment", res, text), ("twin", rtwin, twin)):
        if r["panic"] or r["findings"] is None:
            problems.append(dict(rep, relation="the tool ran to completion and wrote its SARIF file", left=k, left_text=t,
                                 left_findings=proj(r, 2), opts=opts))
    return {"idx": idx, "problems": problems, "runs": 2, "opener": X, "kind": kind, "mode": mode,
            "twin_has_findings": bool(rtwin["findings"]), "twin_clean_of_errors": not any(f[1] == "error" for f in rtwin["findings"] or [])}


# --------------------------------------------------------------------------
# parse entry point: sources with the same lexer image give the same AST
# --------------------------------------------------------------------------

def entry_sources(rng, n_templates, n_streams):
    """Sources for the parse-entry comparison: complete generated templates with
    comments of every shape (incl. the code-like payloads and the string lines)
    between tokens and at line ends, a share of them ending inside a block
    comment, and token streams (mostly syntax errors: the error and its position
    must agree too)."""
    out = []
    shapes = BLOCK_SHAPES + MULTILINE_SHAPES
    for k in range(n_templates):
        lines = gen_template(rng, k)
        # real includes / custom-gate pragma (parse_source does not resolve includes): fields of the AST that a
        # raw-source consumer could get wrong
        if rng.random() < 0.3:
            lines.insert(1, ["include", '"lib.circom"', ";"])
        if rng.random() < 0.1:
            lines.insert(1, ["pragma", "custom_templates", ";"])
        between, eol = {}, {}
        dens = rng.choice([0.05, 0.2, 0.5])
        for i, toks in enumerate(lines):
            for j in range(len(toks)):
                if rng.random() < dens:
                    between[(i, j)] = rng.choice(shapes)
            if rng.random() < dens:
                eol[i] = rng.choice(LINE_SHAPES + BLOCK_SHAPES)
        text = render(lines, between=between, eol=eol)
        r = rng.random()
        if r < 0.3:
            text = rng.choice(PAYLOAD_BLOCK + PAYLOAD_LINE[:1] + OWN_LINE_SHAPES + ["/** doc **/", "/***/"]) + \
                (" " if rng.random() < 0.5 else "\n") + text
        if rng.random() < 0.2:
            at = rng.randrange(1, len(lines))
            parts = text.split("\n")
            parts.insert(min(at, len(parts) - 1), rng.choice(STRING_LINES))
            text = "\n".join(parts)
        if rng.random() < 0.01:
            parts = text.split("\n")
            parts.insert(rng.randrange(0, len(parts)), rng.choice([LONG_BLOCK, LONG_LINE]))
            text = "\n".join(parts)
        r = rng.random()
        if r < 0.15:
            text += rng.choice(["// end", "//", "/* end */", "/**/", "/***/", "// pragma circom 9.9.9;"])
        elif r < 0.25:
            text += rng.choice(["/* abc", "/*", "/** doc **", "/*/", "/* é\n more", "/* component main = X();"])
        out.append(text)
    for k in range(n_streams):
        n = rng.randrange(3, 60)
        start = rng.randrange(0, len(PROGRAM_TOKENS))
        parts = []
        for j in range(n):
            parts.append(PROGRAM_TOKENS[(start + j) % len(PROGRAM_TOKENS)])
            r = rng.random()
            if r < 0.25:
                parts.append(rng.choice(shapes))
            elif r < 0.35:
                parts.append(rng.choice(LINE_SHAPES) + "\n")
            elif r < 0.37:
                parts.append(rng.choice(["/*", "/* **", "/*/", "*/", "*", "/"]))
        out.append(" ".join(parts))
    return out


def report_message(answer):
    """The message field (hex) of an `error (report <level> <id> <name> <message> ...` answer of the harness."""
    f = answer.split()
    return f[5] if len(f) > 5 and f[0] == "error" and f[1] == "(report" else None


def parse_entry(ctx, harness, model, n_templates, n_streams, fid=0, n_foreign=0):
    """`parser::verif::parse_source` (= parser_logic::parse_file) on s, on s with
    its comments blanked (computed by the extracted reference side:
    LexSpec.blank_comments) and on s with its comment interiors overwritten by
    code-like text: the three have the same lexer image (checked with the
    extracted lex_spec — equality of the images is evaluated on every source and counted in
    stats["equal_image_pairs_checked"]; a pair that does not meet it is reported as broken machinery),
    so the complete answers — AST with every Meta, or error report with its
    label ranges — must be identical.  When the image is an error, the answer
    must be the unclosed-comment report on the range the reference lexer gives."""
    rng = ctx.rng
    texts0 = entry_sources(rng, n_templates, n_streams)
    # (fourth audit) complete templates with one pseudo comment (a scalar that is no part of the language / a comment opener
    # of another language made of legal tokens) outside comments and string literals
    foreign = {}
    for k in range(n_foreign):
        t, off, X, kind, mode, _ = foreign_file(rng, k)
        end = t.find("\n", off)
        foreign[t] = (len(t[:off].encode("utf-8")), len(t[:(len(t) if end < 0 else end)].encode("utf-8")), X, kind, mode)
        texts0.append(t)
    texts = [t for t in texts0 if not has_surrogate(t)]
    dropped_surrogates = len(texts0) - len(texts)
    over = [overwrite_comments(t, rng) for t in texts]
    lines = [line_of(t) for t in texts]
    olines = [line_of(t) for t in over]
    blines = [split_res(b)[1][3:] for b in common.run_lines(model, ["blank"], lines, shards=common.NPROC)]
    spec = [split_res(x)[1] for x in common.run_lines(model, ["spec"], lines, shards=common.NPROC)]
    spec_o = [split_res(x)[1] for x in common.run_lines(model, ["spec"], olines, shards=common.NPROC)]
    spec_b = [split_res(x)[1] for x in common.run_lines(model, ["spec"], blines, shards=common.NPROC)]
    hargs = (["fid", str(fid)] if fid else []) + ["ast"]
    ast = [split_res(x)[1] for x in common.run_lines(harness, hargs, lines, shards=common.NPROC)]
    ast_o = [split_res(x)[1] for x in common.run_lines(harness, hargs, olines, shards=common.NPROC)]
    ast_b = [split_res(x)[1] for x in common.run_lines(harness, hargs, blines, shards=common.NPROC)]
    unclosed_messages, other_messages = {}, {}
    problems_total = 0
    problems, machinery = [], []
    stats = {"sources": len(texts), "templates": n_templates, "token_streams": n_streams, "parsed": 0, "parsed_with_comment": 0, "syntax_error": 0, "unclosed": 0, "panic": 0,
             "overwritten_differs": 0, "blanked_differs": 0, "with_version": 0, "with_main": 0, "with_include": 0,
             "equal_image_pairs_checked": 0, "asts_compared": 0, "sources_dropped_for_surrogates": dropped_surrogates, "hook": "parser::verif::parse_source (= parser_logic::parse_file), harness `preprocess ast`"}
    for i, t in enumerate(texts):
        if spec_o[i] != spec[i]:
            machinery.append({"what": "overwrite_comments changed the lexer image", "text": t, "variant": over[i]})
            continue
        if spec[i].startswith("ok") and spec_b[i] != spec[i]:
            machinery.append({"what": "blank_comments changed the lexer image (contradicts lex_blank_invariant)", "text": t})
            continue
        has_comment = bool(py_comments(t))
        stats["equal_image_pairs_checked"] += 2 if spec[i].startswith("ok") else 1
        stats["asts_compared"] += 2
        if over[i] != t:
            stats["overwritten_differs"] += 1
        if blines[i] != lines[i]:
            stats["blanked_differs"] += 1
        if ast[i].startswith("ast"):
            stats["parsed"] += 1
            stats["parsed_with_comment"] += 1 if has_comment else 0
            stats["with_version"] += 1 if "(version " in ast[i] else 0
            stats["with_main"] += 1 if "(main " in ast[i] else 0
            stats["with_include"] += 1 if "(inc " in ast[i] else 0
        elif ast[i].startswith("panic"):
            stats["panic"] += 1
        elif spec[i].startswith("err"):
            stats["unclosed"] += 1
        else:
            stats["syntax_error"] += 1
        for other, oa, name in ((over[i], ast_o[i], "its comments overwritten with code-like text"),
                                (text_of(blines[i]), ast_b[i], "its comments replaced by blanks")):
            if oa != ast[i]:
                problems_total += 1
                if len(problems) < 20:
                    problems.append({"relation": "parse entry point: a source and the same source with %s (same comment-lexer image) "
                                                 "give the same AST / the same error" % name, "fid": fid,
                                     "left": "source", "right": "variant", "left_text": t, "right_text": other,
                                     "left_findings": ast[i][:1500], "right_findings": oa[:1500]})
        msg = report_message(ast[i])
        if t in foreign:
            boff, beol, X, kind, mode = foreign[t]
            stats["foreign"] = stats.get("foreign", 0) + 1
            stats.setdefault("foreign_openers", {}).setdefault(kind, set()).add(X)
            labels = [(int(a), int(b), int(c)) for a, b, c in re.findall(r"\(p (\d+) (\d+) (\d+) ", ast[i])]
            if kind == "invalid":
                ok = ast[i].startswith("error (report error ") and labels == [(boff, boff, fid)]
                what = ("the scalar U+%04X (%r), which is no part of the language and stands outside every comment and string literal, is "
                        "answered with an error report whose one primary label is AT its byte offset %d in file %d"
                        % (ord(X[0]), X, boff, fid))
            else:
                ok = ast[i].startswith("error (report error ") and len(labels) == 1 and boff <= labels[0][0] <= beol and labels[0][2] == fid
                what = ("%r (legal tokens, a comment opener in other languages) at the start of a statement / definition is lexed as tokens: "
                        "an error report with one primary label on its line (bytes %d..%d) in file %d" % (X, boff, beol, fid))
            if not ok:
                problems_total += 1
                if len(problems) < 20:
                    problems.append({"relation": "parse entry point: only `//` and `/* */` are comments - " + what, "fid": fid, "kind": "entry-foreign",
                                     "left": "source", "left_text": t, "left_findings": ast[i][:1500], "expect": [boff, beol, kind]})
        if spec[i].startswith("err"):
            f = spec[i].split()
            # one primary label, on the two bytes of the opener, in the file the hook was called for (third audit:
            # the file id is not 0; the wording of the message is not read)
            want = "(p %s %s %d " % (f[1], f[2], fid)
            if msg is not None:
                unclosed_messages.setdefault(msg, t)
            if not (ast[i].startswith("error (report error ") and want in ast[i] and ast[i].count("(p ") == 1):
                problems_total += 1
                if len(problems) < 20:
                    problems.append({"relation": "parse entry point: a source that ends inside a block comment is answered with an "
                                                 "error report whose one primary label is on the bytes %s..%s of its opener in file %d"
                                                 % (f[1], f[2], fid), "fid": fid,
                                     "left": "source", "left_text": t, "left_findings": ast[i][:1500]})
        elif msg is not None:
            other_messages.setdefault(msg, t)
    # the unclosed-comment report is ONE kind of report of its own: the same message for every unclosed comment, and
    # not the message of any syntax error (whatever the wording is)
    if len(unclosed_messages) > 1 or set(unclosed_messages) & set(other_messages):
        problems_total += 1
        m = sorted(unclosed_messages)[-1]
        problems.append({"relation": "parse entry point: every source that ends inside a block comment gets the same report, which no "
                                     "syntax error gets (messages seen for unclosed comments: %s; also seen for other errors: %s)"
                                     % ([bytes.fromhex(x[1:]).decode("utf-8", "replace") for x in sorted(unclosed_messages)],
                                        [bytes.fromhex(x[1:]).decode("utf-8", "replace") for x in sorted(set(unclosed_messages) & set(other_messages))]),
                         "fid": fid, "left": "source", "left_text": unclosed_messages[m], "left_findings": "message " + m})
    stats["unclosed_messages_seen"] = [bytes.fromhex(x[1:]).decode("utf-8", "replace") for x in sorted(unclosed_messages)]
    stats["problems_total"] = problems_total
    stats["foreign_openers"] = {k: sorted(v) for k, v in stats.get("foreign_openers", {}).items()}
    stats["file_id"] = fid
    stats["max_source_bytes"] = max((len(t.encode("utf-8")) for t in texts), default=0)
    sample = next((a for a, t in zip(ast, texts) if a.startswith("ast") and py_comments(t)), ast[0] if ast else "")
    return problems, machinery, stats, sample[:400]


# --------------------------------------------------------------------------
# driver
# --------------------------------------------------------------------------

def load_corpus():
    cases = []
    for p in sorted(glob.glob(os.path.join(common.VERIF, "corpus", "C05", "*.json"))):
        d = json.load(open(p))
        for c in (d if isinstance(d, list) else [d]):
            c["file"] = os.path.basename(p)
            cases.append(c)
    return cases


def run(ctx, proofs):
    quick = ctx.tier == "quick"
    harness = common.build_harness("preprocess")
    model = common.build_model("preprocess")
    cli = common.build_cli()
    disagreements, failing = [], []
    import time
    stage = {}
    t_last = [time.time()]

    def lap(name):
        now = time.time()
        stage[name] = round(now - t_last[0], 1)
        t_last[0] = now

    # (b) regression corpus first
    corpus = load_corpus()
    clines = [line_of(c["text"]) for c in corpus if "text" in c]
    if clines:
        ri = common.run_lines(harness, [], clines)
        rs = common.run_lines(model, ["spec"], clines)
        rm = common.run_lines(model, ["mirror"], clines)
        for c, a, b, m in zip([c for c in corpus if "text" in c], ri, rs, rm):
            ia, sb, mm = split_res(a)[1], split_res(b)[1], split_res(m)[1]
            if ia != sb or ("expect" in c and ia != c["expect"]):
                failing.append({"case": line_of(c["text"]), "impl": ia, "spec": sb, "corpus": c.get("id"), "text": c["text"]})
            if ia != mm:
                disagreements.append({"case": line_of(c["text"]), "impl": ia, "model": mm})

    # the file id handed to the hooks (third audit: it was 0 everywhere); drawn per run, never 0
    fid = ctx.rng.randrange(1, 9)
    hfid = ["fid", str(fid)]

    # (a) exhaustive small strings; the alphabets depend on the seed (third audit): / * newline, backslash or blank, two more of POOL1
    maxlen = 8 if quick else 10
    bs_or_blank = ctx.rng.choice([92, 32])
    alphabet1 = [47, 42, 10, bs_or_blank] + ctx.rng.sample([c for c in POOL1 if c != bs_or_blank], 2)
    ev_sweep, nontrivial_sweep, errs_sweep, dis, fail, badchunks, unlisted = sweep(ctx, harness, model, maxlen, alphabet1, fid=fid)
    disagreements += dis
    failing += fail
    # (a') second exhaustive sweep: wider alphabet (/ * newline backslash blank quote + four of POOL2), shorter strings
    maxlen2 = 6 if quick else 7
    alphabet2 = [47, 42, 10, 92, 32, 34] + ctx.rng.sample(POOL2, 4)
    ev_sweep2, nontrivial_sweep2, errs_sweep2, dis2, fail2, badchunks2, unlisted2 = sweep(ctx, harness, model, maxlen2, alphabet2, fid=fid)
    disagreements += dis2
    failing += fail2
    badchunks += badchunks2
    # (a'') third sweep: / * and one scalar of POOL3, long strings (runs of stars and slashes around ONE other scalar)
    maxlen3 = 12 if quick else 14
    alphabet3 = [47, 42, ctx.rng.choice(POOL3)]
    ev_sweep3, nontrivial_sweep3, errs_sweep3, dis3, fail3, badchunks3, unlisted3 = sweep(ctx, harness, model, maxlen3, alphabet3, fid=fid)
    disagreements += dis3
    failing += fail3
    badchunks += badchunks3
    unlisted += unlisted2 + unlisted3

    lap("sweeps")
    # (c) seeded random longer texts
    texts0 = random_texts(ctx, 20000 if quick else 200000)
    texts = [t for t in texts0 if not has_surrogate(t)]
    dropped_surrogates = len(texts0) - len(texts)      # U+D800..DFFF cannot be in a Rust str: counted, not hidden
    # the long texts first in their shard would serialise: spread them
    ctx.rng.shuffle(texts)
    lines = [line_of(t) for t in texts]
    ri = common.run_lines(harness, hfid, lines, shards=common.NPROC)
    rm = common.run_lines(model, ["mirror"], lines, shards=common.NPROC)
    rs = common.run_lines(model, ["spec"], lines, shards=common.NPROC)
    rnd_nontrivial = set()
    rnd_err = 0
    pyfail = []
    if not (len(ri) == len(rm) == len(rs) == len(lines)):
        disagreements.append({"case": "random texts: %d lines in, %d / %d / %d lines out (implementation / mirror / reference)"
                                      % (len(lines), len(ri), len(rm), len(rs)), "impl": "?", "model": "?"})
    for t, l, a, m, s in zip(texts, lines, ri, rm, rs):
        ia, mm, ss = split_res(a)[1], split_res(m)[1], split_res(s)[1]
        if ia != mm:
            if len(disagreements) < 40:
                disagreements.append({"case": l, "impl": ia, "model": mm})
            else:
                unlisted += 1
        if ia != ss:
            if len(failing) < 40:
                failing.append({"case": l, "impl": ia, "spec": ss, "text": t})
            else:
                unlisted += 1
        why = py_checks(t, ia)
        if why:
            if len(pyfail) < 10:
                pyfail.append({"case": l, "impl": ia, "spec": "position clause: " + why, "text": t})
            else:
                unlisted += 1
        if ia.startswith("err"):
            rnd_err += 1
            rnd_nontrivial.add(l)
        elif ia[3:] != l:
            rnd_nontrivial.add(l)
    failing += pyfail
    # third oracle, independent of Coq: the Python lexer.  For the unclosed comments this evaluates the clause of
    # C05_unclosed_comment_location_is_byte_offset_of_opener per case: the reported offset is that of the first opener
    # whose prefix ends outside every comment (py_comment_mask scans from the start and records exactly that opener)
    py_confirmed_unclosed = py_confirmed = 0
    for t, l, a in zip(texts, lines, ri):
        ia = split_res(a)[1]
        want = py_strip(t)
        if ia == want:
            py_confirmed += 1
            py_confirmed_unclosed += 1 if ia.startswith("err") else 0
        elif len(failing) < 40:
            failing.append({"case": l, "impl": ia, "spec": want + " (Python lexer py_strip)", "text": t})
        else:
            unlisted += 1
    # blank_invariant on the real function: the file with its comments blanked
    # out (computed by the reference side) gives the same parser input
    rb = common.run_lines(model, ["blank"], lines, shards=common.NPROC)
    blines = [split_res(b)[1][3:] for b in rb]
    rib = common.run_lines(harness, hfid, blines, shards=common.NPROC)
    blank_checked = 0
    for t, l, a, bl, ab in zip(texts, lines, ri, blines, rib):
        ia, iab = split_res(a)[1], split_res(ab)[1]
        if bl != l:
            blank_checked += 1
        if ia != iab:
            if len(failing) < 40:
                failing.append({"case": l, "impl": "on the text with comments blanked (%s): %s" % (bl, iab),
                                "spec": "same as on the text itself: " + ia, "text": t})
            else:
                unlisted += 1
    # texts beyond 2^16 bytes: implementation vs the Python lexer (the extracted lexers are quadratic in the offset)
    huge = huge_texts(ctx.rng, 6 if quick else 24)
    hlines = [line_of(t) for t in huge]
    rh = common.run_lines(harness, hfid, hlines, shards=common.NPROC)
    for t, l, a in zip(huge, hlines, rh):
        ia = split_res(a)[1]
        want = py_strip(t)
        why = py_checks(t, ia)
        if ia != want or why:
            short = "%d scalars: %r ... %r" % (len(t), t[:60], t[-60:])
            failing.append({"case": l, "impl": ia[:200] + " ...", "text": short,
                            "spec": (want[:200] + " ... (Python lexer py_strip; text of %d bytes)" % len(t.encode("utf-8")))
                            + (" [position clause: %s]" % why if why else "")})

    lap("random_and_huge_texts")
    # end to end
    n_e2e = 100 if quick else 400
    seeds = [ctx.rng.randrange(1 << 30) for _ in range(n_e2e)]
    with concurrent.futures.ThreadPoolExecutor(max_workers=common.NPROC) as ex:
        e2e = list(ex.map(lambda iv: e2e_case(cli, ctx.work, iv[1], iv[0]), enumerate(seeds)))
    unclosed = [e2e_unclosed(cli, ctx.work, ctx.rng, i) for i in range(20 if quick else 60)]
    sseeds = [ctx.rng.randrange(1 << 30) for _ in range(2 * len(STRING_LINES) if quick else 6 * len(STRING_LINES))]
    with concurrent.futures.ThreadPoolExecutor(max_workers=common.NPROC) as ex:
        strings = list(ex.map(lambda iv: e2e_strings(cli, ctx.work, iv[1], iv[0]), enumerate(sseeds)))
    # (fourth audit) pseudo comments: scalars outside the language / legal-token openers outside comments and strings
    xseeds = [ctx.rng.randrange(1 << 30) for _ in range(240 if quick else 960)]
    with concurrent.futures.ThreadPoolExecutor(max_workers=common.NPROC) as ex:
        foreign = list(ex.map(lambda iv: e2e_foreign(cli, ctx.work, iv[1], iv[0]), enumerate(xseeds)))
    lap("e2e_single_file")
    # (third audit) projects of two files: unclosed comment in the second input / in an included file, comments in both files
    fseeds = [ctx.rng.randrange(1 << 30) for _ in range(32 if quick else 128)]
    with concurrent.futures.ThreadPoolExecutor(max_workers=common.NPROC) as ex:
        projects = list(ex.map(lambda iv: e2e_files(cli, harness, ctx.work, iv[1], iv[0]), enumerate(fseeds)))
    e2e_problems = [p for r in e2e + unclosed + strings + projects for p in r["problems"]]
    # one problem per pseudo-comment case first (a case usually breaks several relations at once)
    fp = [r["problems"] for r in foreign if r["problems"]]
    e2e_problems = [ps[0] for ps in fp][:3] + e2e_problems + [p for ps in fp for p in ps[1:]] + [ps[0] for ps in fp][3:]

    lap("e2e_two_files")
    # parse entry point (AST level)
    entry_problems, entry_machinery, entry_stats, entry_sample = parse_entry(
        ctx, harness, model, 1500 if quick else 8000, 3000 if quick else 20000, fid=fid, n_foreign=600 if quick else 3000)
    lap("parse_entry")
    with_findings = sum(1 for r in e2e if r["nfindings"] > 0)
    rules = sorted({x for r in e2e for x in r["rules"]})

    # verdict
    for f in failing[:5]:
        ctx.violation("the comment stripper differs from the reference lexer on %r: implementation %s, specified %s"
                      % (f.get("text", f["case"]), f["impl"], f["spec"]),
                      {"input": f["case"], "impl": f["impl"], "spec": f["spec"]})
    for p in e2e_problems[:5]:
        ctx.violation("end-to-end: %s — violated" % p["relation"], {"e2e": p, "impl": p.get("left_findings"), "spec": p.get("right_findings")})
    if SARIF_DROPPED["unreadable"] and not e2e_problems:
        ctx.violation("C05 machinery: %d SARIF files could not be read but no run was reported" % SARIF_DROPPED["unreadable"],
                      {"broken": "C05 e2e SARIF reader"}, no_input=True)
    if with_findings < n_e2e * 0.9:
        ctx.violation("generator degenerate: only %d of %d templates produce findings" % (with_findings, n_e2e),
                      {"broken": "C05 e2e generator"}, no_input=True)
    for p in entry_problems[:3]:
        ctx.violation("%s — violated" % p["relation"], {"e2e": p, "impl": p.get("left_findings"), "spec": p.get("right_findings")})
    if entry_machinery:
        ctx.violation("C05 machinery: %s (%d cases)" % (entry_machinery[0]["what"], len(entry_machinery)),
                      {"broken": "C05 parse-entry variant generator", "first": entry_machinery[0]}, no_input=True)
    # (the token streams are syntax errors by construction; the complete templates are what must parse — about
    # three quarters of them do, the rest end inside a comment or carry a string line that breaks the syntax)
    if entry_stats["parsed_with_comment"] < 0.5 * entry_stats["templates"]:
        ctx.violation("generator degenerate: only %d parse-entry sources parse and contain a comment (%d complete templates generated)"
                      % (entry_stats["parsed_with_comment"], entry_stats["templates"]), {"broken": "C05 parse-entry generator"}, no_input=True)
    if not failing and not e2e_problems and not entry_problems:
        if disagreements:
            d = disagreements[0]
            ctx.violation("correspondence Model.Preprocess.preprocess vs parser_logic.rs preprocess broken (%d cases, first: %s impl=%s "
                          "model=%s); the reference lexer agreed with the implementation on every explored input"
                          % (len(disagreements), d["case"], d["impl"], d["model"]),
                          {"broken": "correspondence preprocess (Model.Preprocess.preprocess)", "first": d, "count": len(disagreements)},
                          no_input=True)
        elif proofs["failures"]:
            ctx.violation("proof obligations of C05 no longer check: " + "; ".join(proofs["failures"])[:500],
                          {"broken": "props/C05.v", "failures": proofs["failures"]}, no_input=True)

    ctx.coverage.update({
        "evaluations": ev_sweep + ev_sweep2 + ev_sweep3 + len(lines) + len(clines) + len(huge),
        "distinct_nontrivial": nontrivial_sweep + nontrivial_sweep2 + nontrivial_sweep3 + len(rnd_nontrivial),
        "stage_seconds": stage,
        "seed_dependent": {"file_id_handed_to_the_hooks": fid, "alphabet_1": ["U+%04X" % c for c in alphabet1],
                           "alphabet_2": ["U+%04X" % c for c in alphabet2], "alphabet_3": ["U+%04X" % c for c in alphabet3],
                           "pools": {"1": ["U+%04X" % c for c in POOL1], "2": ["U+%04X" % c for c in POOL2], "3": ["U+%04X" % c for c in POOL3]}},
        "exhaustive_part_wide": "all %d strings of length <= %d over the 10 scalars %s (/ * newline backslash blank double-quote + four "
                                "scalars drawn from pool 2 with the seed); %d of them contain a comment, %d end inside a block comment"
                                % (ev_sweep2, maxlen2, ["U+%04X" % c for c in alphabet2], nontrivial_sweep2, errs_sweep2),
        "exhaustive_part_long": "all %d strings of length <= %d over the 3 scalars %s (/ * and one scalar drawn from pool 3 with the "
                                "seed); %d of them contain a comment, %d end inside a block comment"
                                % (ev_sweep3, maxlen3, ["U+%04X" % c for c in alphabet3], nontrivial_sweep3, errs_sweep3),
        "longest_random_text_bytes": max((len(t.encode("utf-8")) for t in texts), default=0),
        "random_texts_longer_than_1600_bytes": sum(1 for t in texts if len(t.encode("utf-8")) > 1600),
        "huge_texts": {"count": len(huge), "bytes": [len(t.encode("utf-8")) for t in huge],
                       "oracle": "Python lexer py_strip + position clauses (the extracted lexers count offsets in unary: quadratic)"},
        "dropped": {"random_texts_with_surrogates_not_run": dropped_surrogates,
                    "differences_found_but_not_listed_because_of_caps": unlisted,
                    "sarif_files_unreadable": SARIF_DROPPED["unreadable"],
                    "e2e_problems_not_reported_as_violation_lines": max(0, len(e2e_problems) - 5),
                    "parse_entry_problems_total": entry_stats.get("problems_total", 0)},
        "interesting_code_points": ["U+%04X" % c for c in INTERESTING],
        "random_texts_with_interesting_first_or_last": sum(1 for t in texts if t and (ord(t[0]) in INTERESTING or ord(t[-1]) in INTERESTING)),
        "rule": "stripper: every string of length <= %d over 6 symbols (/ * newline, backslash or blank, + two scalars drawn from pool 1 with the seed: "
                "see seed_dependent) (exhaustive, "
                "both sides enumerate, per-chunk digests of the full result lines), plus %d seeded random texts (token streams "
                "with comment shapes %s between tokens, glued shapes, random scalars incl. 3- and 4-byte ones; "
                "30 %% of the texts get 1-3 'interesting' code points (BOM, ZWSP, NBSP, U+2028/9, CR, TAB, FF, NUL, 4-byte scalars, "
                "ASCII punctuation) at random places and 40 %% get one forced at the first and/or last offset) and the corpus; a second "
                "exhaustive sweep over 10 scalars (see exhaustive_part_wide) and a third over 3 scalars up to length 12 "
                "(exhaustive_part_long); long texts (2-9 kB) among the random ones, texts beyond 2^16 bytes against the Python lexer; "
                "the real stripper is called with a non-zero file id and the file id of its label is part of its answer; "
                "an input is nontrivial when the stripper's answer is an error or differs from its input (i.e. it contains a "
                "comment); counted per distinct input" % (maxlen, len(lines), BLOCK_SHAPES + MULTILINE_SHAPES + LINE_SHAPES),
        "exhaustive": True,
        "exhaustive_part": "all %d strings of length <= %d over the 6 symbols %s; %d of them contain a comment, %d end inside a block comment"
                           % (ev_sweep, maxlen, ["U+%04X" % c for c in alphabet1], nontrivial_sweep, errs_sweep),
        "random_texts": len(lines), "blank_invariant_checked_on": blank_checked, "random_nontrivial": len(rnd_nontrivial), "random_unclosed": rnd_err,
        "corpus_cases": len(clines),
        "python_lexer_confirms": {"random_texts": py_confirmed, "of": len(lines), "unclosed_offsets_at_first_unclosed_opener": py_confirmed_unclosed,
                                  "meaning": "third implementation (py_comment_mask): answers equal to the real stripper's; for the texts that end "
                                             "inside a block comment the offset is that of the first `/*` whose prefix ends outside every comment "
                                             "(the decomposition of C05_unclosed_comment_location_is_byte_offset_of_opener, evaluated per case)"},
        "samples": (disagreements[:1] + failing[:1]) or [ri[1], ri[len(ri) // 2], ri[-1]],
        "disagreements_model_vs_impl": len(disagreements),
        "spec_failures": len(failing),
        "differing_chunks": badchunks,
        "e2e_templates": n_e2e,
        "e2e_cli_runs": sum(r["runs"] for r in e2e) + len(unclosed) + sum(r["runs"] for r in strings) + sum(r["runs"] for r in projects)
                        + sum(r["runs"] for r in foreign),
        "e2e_option_variants": {
            "distinct_combinations_used": len(OPTS_USED), "cli_runs": sum(OPTS_USED.values()),
            "level_option": sorted({k.split(" | ")[0] for k in OPTS_USED}), "sarif_option": sorted({k.split(" | ")[1] for k in OPTS_USED}),
            "verbose": sorted({k.split(" | ")[2] for k in OPTS_USED}), "curve_option": sorted({k.split(" | ")[3] for k in OPTS_USED}),
            "input_path_spelling": {st: sum(n for k, n in OPTS_USED.items() if k.endswith("paths:" + st)) for st in PATH_STYLES},
            "rule": "one set of options per generated case, the same for a file and all its twins; levels above INFO only where the oracle "
                    "reads error-level results only (unclosed comment, pseudo comments); relative spellings are run with the project "
                    "directory as working directory; artifact uri and location line are compared with the real path (the tool "
                    "canonicalises what it is given)"},
        "e2e_pseudo_comments": {
            "cases": len(foreign), "cli_runs": sum(r["runs"] for r in foreign),
            "invalid_scalar_openers": sorted({r["opener"] for r in foreign if r["kind"] == "invalid"}),
            "legal_token_openers": sorted({r["opener"] for r in foreign if r["kind"] == "legal"}),
            "by_mode": {m: sum(1 for r in foreign if r["mode"] == m) for m in sorted({r["mode"] for r in foreign})},
            "twins_that_produce_findings_without_error": sum(1 for r in foreign if r["twin_has_findings"] and r["twin_clean_of_errors"]),
            "pools": {"ascii_outside_the_language": FOREIGN_ASCII, "other_scalars": ["U+%04X" % ord(c) for c in FOREIGN_OTHER],
                      "legal_token_openers": LEGAL_OPENERS, "word_openers": WORD_OPENERS,
                      "random_legal_openers": "first character one of % & * + . : ; < = > ? ^ | \\ ) , ] then up to two of ! % & * + - . : ; < = > ? ^ | ~ \\",
                      "hidden_code": HIDDEN_BODY + HIDDEN_TOP},
            "asserts": "error-level SARIF result AT the line:column of the scalar (invalid scalars) / on the line at or after the opener "
                       "(legal tokens); exit status != 0; location line on standard output; the run differs from the run on the file "
                       "with the opener and the rest of its line replaced by blanks; in process (parse entry): one primary label at the "
                       "byte offset / on the line, in the file the hook was called for"},
        "e2e_two_file_projects": {"projects": len(projects), "by_scenario": {str(k): sum(1 for r in projects if r["scenario"] == k) for k in range(4)},
                                  "scenarios": "0 unclosed comment in one of two files named on the command line (label must name THAT file: "
                                               "SARIF artifact, stdout location line; exit != 0) and in process on parse_files; "
                                               "1 unclosed comment in a file that is only included: in process only (unfiltered report "
                                               "collection of parser::parse_files: error on the opener in that file, no definitions from it); "
                                               "2 comments in both files, both named, blanked; 3 the same, only main.circom named",
                                  "label_file_ids_seen": sorted({r["label_file_id"] for r in projects if r["label_file_id"] is not None}),
                                  "OBSERVATION_included_only_unclosed_comment_not_displayed_by_the_cli":
                                      "%d of %d projects whose included-only file ends inside a block comment: the CLI prints no error "
                                      "(`No issues found.` or only the findings of the named file) - the report is located solely in an "
                                      "included file and C03 (iff) / C19 exclude such reports from the display; recorded as an "
                                      "observation, not a finding (coordinator's decision, third audit); the named file's use of the "
                                      "lost template is not reported either"
                                      % (sum(1 for r in projects if r["included_only_not_displayed"]), sum(1 for r in projects if r["scenario"] == 1))},
        "e2e_unclosed_asserts": "SARIF error-level result on the two characters of the opener in the file that holds it; exit status != 0; "
                                "standard output: `error` header with the message of that result, location line <path>:<line>:<col>, "
                                "summary line counting an issue",
        "e2e_own_line_payloads": {"templates_whose_only_pragma_is_on_a_line_of_its_own_in_a_block_comment": sum(1 for r in e2e if r["own_line_pragma_only"]),
                                  "own_line_payload_comments": sum(r["own_line_payloads"] for r in e2e),
                                  "raw_lines_that_start_with_comment_interior_text": sum(r["raw_lines_starting_with_comment_text"] for r in e2e),
                                  "shapes": OWN_LINE_SHAPES},
        "e2e_largest_file_bytes": max(r["max_file_bytes"] for r in e2e),
        "e2e_templates_with_findings": with_findings, "e2e_rules_seen": rules,
        "e2e_findings_per_template_avg": round(sum(r["nfindings"] for r in e2e) / max(1, n_e2e), 2),
        "e2e_unclosed_cases": len(unclosed), "e2e_problems": len(e2e_problems),
        "e2e_payloads": [{"comment_text": t, "must_hold": "findings(F) == findings(F with the comment blanked) == findings(F "
                          "without it), positions included; i.e. " + why} for t, why in PAYLOADS],
        "e2e_payload_shapes": PAYLOAD_BLOCK + PAYLOAD_LINE, "e2e_star_shapes": STAR_SHAPES,
        "e2e_string_literal_cases": len(strings), "e2e_string_literal_lines": STRING_LINES,
        "e2e_string_literal_cases_that_parse": sum(1 for r in strings if r["parsed"]),
        "parse_entry": entry_stats, "parse_entry_sample": entry_sample, "parse_entry_problems": len(entry_problems),
        "parse_entry_rule": "parser::verif::parse_source (= parser_logic::parse_file) run on each source, on the source with its "
                            "comments blanked (LexSpec.blank_comments, extracted) and on the source with its comment interiors "
                            "overwritten by code-like text; equal lex_spec images checked with the extracted lexer; the complete "
                            "answers (AST incl. every Meta start/end/location/file id, version, includes, main component; or the "
                            "report with id, message, label ranges) must be identical; a source is counted in parsed_with_comment "
                            "when it contains at least one comment and parses",
        "parse_entry_role": "this comparison is the ONLY tie between the claim `nothing downstream of parser_logic::parse_file sees a "
                            "comment` and the code: hook parser::verif::parse_source, %d sources x 3 variants (%d AST / error-report "
                            "comparisons, %d of the sources parse and contain a comment). The corresponding statements about "
                            "Model.ParseEntry are parametricity facts of the model (the parser is a function of the pre-processed "
                            "text only) and are lemmas in Proofs.ParseEntryProofs, not obligations (21 obligations, all about "
                            "`preprocess`)" % (entry_stats["sources"], entry_stats["asts_compared"], entry_stats["parsed_with_comment"]),
        "behind_parse_file": "consumers of the source behind parser_logic::parse_file that live in other functions — "
                             "parser/src/lib.rs parse_file: FileLibrary::add_file (raw content, used to resolve positions), "
                             "check_compiler_version, FileStack::add_include — are covered by the metamorphic CLI runs only "
                             "(e2e_cli_runs), not by the hook and not by any theorem; parse_string / parse_definition have no hook "
                             "(test-only helpers) and are not observed",
        "open_statements": [
            "NOT PROVED (observed end to end): replacing a comment by blanks leaves the DISPLAYED findings unchanged - no model of the "
            "LALRPOP lexer/parser and of the passes behind it; tie: metamorphic CLI runs and the parse-entry AST comparison",
            "NOT PROVED: the generated lexer skips the blanks that replace a comment like any other white space (default LALRPOP "
            "lexer, `\\s*`); STRING = \"[^\"]*\" does see them (string literals are not special for the comment lexer)",
            "NOT PROVED: the report of an unclosed comment (level error, id P1000, file id, display, exit status) - the mirror's error "
            "is the byte offset only; level, file, range, exit status and standard output are asserted at run time (hook with a "
            "non-zero file id, CLI runs with one and two files, parse_files in process for an included-only file)",
            "NOT COVERED by any theorem: parser/src/lib.rs (version check, include stack, FileLibrary) - CLI runs only",
            "NOT PROVED (fourth audit): the generated lexer has no comment syntax of its own, i.e. only `//` and `/* */` hide text - "
            "observed with pseudo comments (scalars outside the language and legal-token openers drawn from pools, "
            "coverage.e2e_pseudo_comments and parse_entry.foreign); an opener outside the pools can escape",
            "ALL 21 obligations are statements about the stripper `preprocess`; none is about the display, the lexer or the command line",
        ],
    })
    ctx.assumptions += [
        "the mirror Model.Preprocess.preprocess is the Rust function: observed (exhaustive up to length %d over 6 symbols + random), not proved" % maxlen,
        "the file id of the unclosed-comment report is not modelled (the mirror's error is the offset only): the harness prints it "
        "when it differs from the id the hook was called with (a differing answer is a failing input), and the CLI runs with two "
        "files compare the artifact of the label with the file that holds the opener",
        "white space inside comments: a stripper that keeps TAB / CR / newline inside comments instead of blanking them is reported as "
        "differing from the reference lexer (the property text says blanks); this is not normalised away because findings CAN change: "
        "string literals are not special for the comment lexer, so the text of a string literal that contains a comment (an include path, "
        "shown in the `Failed to open file` message) would keep the white space",
        "`str::chars`, `char_indices`, `char::len_utf8`, `String::push` behave as list traversal, prefix sums of UTF-8 lengths and append",
        "the rest of the pipeline reads only the pre-processed text and resolves positions against the original file: observed end to end "
        "(metamorphic runs of the CLI on %d generated templates, comments with code-like content on every line), not proved" % n_e2e,
        "parser_logic.rs parse_file hands the generated parser the output of preprocess and nothing else, and an unclosed comment "
        "returns before the parser runs: OBSERVED through the verif hook parse_source on %d sources x 3 variants with the same "
        "reference-lexer image (identical AST dump / error report), not proved — there is no theorem about it (the statements over "
        "Model.ParseEntry cannot fail and are not obligations); the LALRPOP parser is not modelled" % entry_stats["sources"],
        "what sits behind parser_logic::parse_file in other functions (parser/src/lib.rs parse_file: version check, include stack, "
        "FileLibrary entry) is covered by the CLI runs only; parse_string / parse_definition are not observed",
        "string literals are not special for the comment lexer (modelling decision recorded in DESIGN §4 C05; matches the code)",
        "the oracle for pseudo comments is the unchanged LANGUAGE: a scalar no token starts with (and that is not Unicode white space) is "
        "an error at its offset; a token that cannot start a statement / definition is a syntax error on its line - read off "
        "parser/src/lang.lalrpop by hand (pools FOREIGN_ASCII, FOREIGN_OTHER, LEGAL_OPENERS in lib/props/C05.py), not regenerated from it: "
        "a grammar change that makes one of them legal shows up as a VIOLATION with that input and needs the pool corrected",
        "INCLUDED-ONLY files: an unclosed comment there is checked in process on parser::parse_files only; the CLI displays nothing and "
        "exits 0 (coordinator's decision) - counted in coverage.e2e_two_file_projects as an observation",
        "a consumer of the RAW source text inside an analysis pass (a message quoting `underlying_str`) is not aimed at by any generator",
    ]


def replay(ctx, rep):
    harness = common.build_harness("preprocess")
    model = common.build_model("preprocess")
    if rep.get("input"):
        # (run with file id 1: the file id of the label is part of the answer)
        out = common.run_lines(harness, ["fid", "1"], [rep["input"]])
        spec = common.run_lines(model, ["spec"], [rep["input"]])
        print("text          :", repr(text_of(rep["input"])))
        print("implementation:", out[0])
        print("specification :", spec[0])
        res = split_res(out[0])[1]
        why = py_checks(text_of(rep["input"]), res)
        if why:
            print("position clause:", why)
        bl = split_res(common.run_lines(model, ["blank"], [rep["input"]])[0])[1][3:]
        outb = common.run_lines(harness, ["fid", "1"], [bl])
        print("with comments blanked:", outb[0])
        same_blank = split_res(outb[0])[1] == res
        return 0 if out[0] == spec[0] and not why and same_blank else 1
    if rep.get("e2e") and rep["e2e"].get("relation", "").startswith("parse entry point"):
        p = rep["e2e"]
        fid = int(p.get("fid", 0))
        hargs = (["fid", str(fid)] if fid else []) + ["ast"]
        a = split_res(common.run_lines(harness, hargs, [line_of(p["left_text"])])[0])[1]
        sa = split_res(common.run_lines(model, ["spec"], [line_of(p["left_text"])])[0])[1]
        print("relation:", p["relation"])
        print("source :", repr(p["left_text"]))
        print("  lexer image:", sa[:300])
        print("  answer     :", a[:1500])
        if "right_text" in p:
            b = split_res(common.run_lines(harness, hargs, [line_of(p["right_text"])])[0])[1]
            sb = split_res(common.run_lines(model, ["spec"], [line_of(p["right_text"])])[0])[1]
            print("variant:", repr(p["right_text"]))
            print("  lexer image:", sb[:300], "(same)" if sa == sb else "(DIFFERENT: not an instance of the relation)")
            print("  answer     :", b[:1500])
            return 0 if a == b else 1
        if p.get("kind") == "entry-foreign":
            boff, beol, kind = p["expect"]
            labels = [(int(x), int(y), int(z)) for x, y, z in re.findall(r"\(p (\d+) (\d+) (\d+) ", a)]
            print("  expected   : an error report with one primary label %s in file %d; labels: %s"
                  % ("at byte %d" % boff if kind == "invalid" else "within bytes %d..%d" % (boff, beol), fid, labels))
            if kind == "invalid":
                return 0 if a.startswith("error (report error ") and labels == [(boff, boff, fid)] else 1
            return 0 if a.startswith("error (report error ") and len(labels) == 1 and boff <= labels[0][0] <= beol and labels[0][2] == fid else 1
        if "every source that ends inside a block comment gets the same report" in p["relation"]:
            print("(a relation between several sources of the run; this source carries one of the messages)")
            return 1
        f = sa.split()
        ok = sa.startswith("err") and a.startswith("error (report error ") and ("(p %s %s %d " % (f[1], f[2], fid)) in a and a.count("(p ") == 1
        return 0 if ok else 1
    if rep.get("e2e") and rep["e2e"].get("kind") == "foreign":
        cli = common.build_cli()
        p = rep["e2e"]
        print("relation:", p["relation"])
        res = run_cli(cli, ctx.work, "replay_foreign", p["left_text"], p.get("opts"))
        rtwin = run_cli(cli, ctx.work, "replay_foreign_twin", p["right_text"], p.get("opts"))
        print("command line:", " ".join(res["argv"]))
        print("pseudo comment %r at %d:%d (%s)" % ((p["opener"],) + where(p["left_text"], p["off"]) + (p["mode"],)))
        print("exit status:", res["rc"])
        print("findings   :", proj(res, 2)[0])
        print("findings of the file with the rest of that line blanked:", proj(rtwin, 2)[0])
        print("stdout     :", res["stdout"][-800:])
        ps = foreign_problems(res, rtwin, os.path.join(ctx.work, "replay_foreign.circom"), p["left_text"], p["off"], p["opener"],
                              p["opener_kind"], {})
        for q in ps:
            print("NOT MET:", q["relation"])
        return 1 if ps else 0
    if rep.get("e2e") and rep["e2e"].get("kind") in ("unclosed", "unclosed-files"):
        cli = common.build_cli()
        p = rep["e2e"]
        print("relation:", p["relation"])
        if p["kind"] == "unclosed":
            res = run_cli(cli, ctx.work, "replay_unclosed", p["left_text"], p.get("opts"))
            fname, path = "replay_unclosed.circom", os.path.join(ctx.work, "replay_unclosed.circom")
        else:
            res = run_cli_files(cli, ctx.work, "replay_project", p["files"], p["args"], opts=p.get("opts"))
            fname, path = p["holder"], os.path.join(res["dir"], p["holder"])
            print("command line:", " ".join(p["args"]), "(unclosed comment in %s at %d:%d)" % (p["holder"], p["line"], p["col"]))
        print("exit status:", res["rc"])
        print("findings   :", proj_files(res, 2)[0])
        print("stdout     :", res["stdout"][-800:])
        ps = unclosed_report_problems(res, fname, path, p["line"], p["col"], {})
        for q in ps:
            print("NOT MET:", q["relation"])
        return 1 if ps else 0
    if rep.get("e2e") and rep["e2e"].get("kind") == "project-unclosed":
        p = rep["e2e"]
        d = os.path.join(ctx.work, "replay_project")
        os.makedirs(d, exist_ok=True)
        for fn, text in p["files"].items():
            with open(os.path.join(d, fn), "w", encoding="utf-8", newline="") as f:
                f.write(text)
        print("relation:", p["relation"])
        print("parse_files on:", " ".join(p["args"]), "(unclosed comment in %s at byte %d)" % (p["holder"], p["off"]))
        ps, ans = project_unclosed_problems(harness, d, p["files"], p["args"], p["holder"], p["off"], {})
        print("answer:", json.dumps({k: ans.get(k) for k in ("mode", "files", "reports", "defs")})[:1500])
        for q in ps:
            print("NOT MET:", q["relation"])
        return 1 if ps else 0
    if rep.get("e2e") and rep["e2e"].get("kind") in ("files-metamorphic", "files-ran"):
        cli = common.build_cli()
        p = rep["e2e"]
        print("relation:", p["relation"])
        a = run_cli_files(cli, ctx.work, "replay_project", p["files"], p["args"], opts=p.get("opts"))
        print("left  :", proj_files(a, 2))
        if "right_files" in p:
            b = run_cli_files(cli, ctx.work, "replay_project_right", p["right_files"], p["args"], opts=p.get("opts"))
            print("right :", proj_files(b, 2))
            return 0 if proj_files(a, 2) == proj_files(b, 2) else 1
        return 1 if a["panic"] or a["findings"] is None else 0
    if rep.get("e2e"):
        cli = common.build_cli()
        p = rep["e2e"]
        a = run_cli(cli, ctx.work, "replay_left", p["left_text"], p.get("opts"))
        print("relation:", p["relation"])
        print("options :", " ".join(a["argv"]))
        print("left  (%s): %s" % (p["left"], proj(a, 2)))
        if "right_text" in p:
            b = run_cli(cli, ctx.work, "replay_right", p["right_text"], p.get("opts"))
            print("right (%s): %s" % (p["right"], proj(b, 2)))
            lvl = p["level"] if "level" in p else 0 if "between tokens" in p["relation"] else 1 if "same lines" in p["relation"] else 2
            return 0 if proj(a, lvl) == proj(b, lvl) else 1
        return 1
    print("replay names a broken obligation, not an input:", rep.get("broken"))
    return 1
