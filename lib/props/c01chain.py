"""C01, stage `chain`: the per-definition part of Model.PipelineMirrors EXTRACTED and run
on real inputs (coq/extract/chain.{v,ml}), next to the real per-definition pipeline
(harness/src/bin/liftfull.rs, mode `chain`: the real parser, the real desugarer, the real
`into_cfg` followed by the real `into_ssa`, which includes propagation).

For every definition the real parser + desugarer hand to lifting:
  * the decidable hypotheses of C01_definition_chain_never_panics /
    C01_pipeline_mirrors_never_panic are EVALUATED (is_block, stmt_sugar_free,
    ast_init_flat - proved of what Model.Desugar hands on, here evaluated on what the REAL
    desugarer hands on - and the two clauses of PipelineMirrors.body_ok: names_distinct,
    stmt_lits_ok; also definition_wf and ast_init_ok).  A definition that does not meet one
    of them is a broken hypothesis.  ssa_output_ok (one defining assignment per local in the
    SSA output) is no hypothesis any more but a theorem for every body
    (C01_chain_ssa_output_unique_local_defs); it is still evaluated, under both enumeration
    orders: a 0 means the extracted code contradicts the theorem;
  * the conclusion of the theorem is evaluated on the extracted chain (hypotheses met =>
    the outcome is ok / err-lift / err-ssa, under the identity and the reversed
    enumeration of every hash-ordered set) - a cross-check of the statement itself;
  * the outcome CLASS of the extracted chain is compared with the outcome class of the
    real code (ok, error report of lifting, `used before defined` error of SSA
    conversion, panic while lifting, panic in SSA conversion / propagation): a difference
    is a correspondence disagreement; a panic of the real code is a failing input of C01.
Nothing is dropped silently: sources that are not fed (too large / too deep for an
in-process harness without a stack guard, not UTF-8) and sources that do not parse are
counted per reason."""
import collections
import os
import sys

sys.path.insert(0, os.path.dirname(os.path.abspath(__file__)))
import c18gen  # noqa: E402
import liftfull_engine  # noqa: E402

MAX_BYTES = 8 * 1024          # up to here a source goes into the sharded batch runs
MAX_DEPTH = 24
# third audit: beyond the batch limits, up to 64 kB (`modest size` of the property) and a nesting estimate of 160 (the
# command-line tool is known to exhaust its 8 MB stack from an estimate of 64 on, C01-stack-depth; the in-process
# harness runs on a 4 GB stack, so the panics of the code itself stay visible well into that class), a source is fed ON ITS OWN (one
# harness process with a 4 GB worker stack and one model process with an unlimited stack per source, BIG_TIMEOUT_S
# each): what does not finish is counted per reason, never dropped silently
BIG_BYTES = 64 * 1024
BIG_DEPTH = 160
BIG_TIMEOUT_S = 60
BIG_MAX_QUICK = 120
# (curve, value passes, degree passes) of the real side; `-` = no budget, the real 10 s time box only.  The model
# takes the prime of that curve (read from the current utils/constants.rs) and the same budgets (4 for `-`: the
# outcome class does not depend on the budget - C01_definition_chain_never_panics holds at every budget - and
# the extracted budget is a unary number)
CONFIGS = [("BN254", "-", "-"), ("BLS12_381", "1", "1"), ("GOLDILOCKS", "4", "4"), ("BN254", "0", "0"),
           ("GOLDILOCKS", "2", "1"), ("BLS12_381", "-", "3")]
HYP_NAMES = ["is_block", "stmt_sugar_free", "ast_init_flat", "names_distinct", "stmt_lits_ok", "ssa_output_ok",
             "definition_wf", "ast_init_ok"]

# fixed sources: every outcome class of the chain must be seen on every run
FIXED = [
    ("ok_loop", "function f(x) { var y = x; while (y) { y = y - 1; } return y; }"),
    ("ok_template", "template T(n) { signal input a; signal output b; var s = 0; for (var i = 0; i < n; i++) { s += i; } b <-- a * s; b === a * s; }"),
    ("err_param_collision", "function h(x, x) { return x; }"),
    ("err_ssa_undefined", "function k(n) { var s = 0; if (n) { var t; s = t + 1; } return s; }"),
    ("err_ssa_undefined2", "function k(n) { var t; var s = t; return s; }"),
    ("big_literal", "function f() { return 21888242871839275222246405745257275088548364400416034343698204186575808495617 + 0xFFFFFFFFFFFFFFFFFFFF; }"),
    ("shadow", "function f(x) { var y = 1; if (x < y) { var x = 3; y = x; { var x = 4; y += x; } y = x; } return x + y; }"),
    ("anon_tuple", "template A() { signal input x; signal output y; signal output z; y <== x; z <== x; } template T() { signal input a; "
                   "signal output b; signal output c; (b, c) <== A()(a); }"),
]


def impl_class(res):
    """(chain X ...) -> class"""
    if not res.startswith("(chain ") or not res.endswith(")"):
        return "malformed " + res[:60]
    w = res[len("(chain "):-1].split(" ")
    return w[0]


def model_class(text):
    w = text.split(" ")
    return w[0] if w[0] != "other" else text


def primes_of_source(common):
    """{CURVE: hex} from the decimal literals of the CURRENT program_structure/src/utils/constants.rs."""
    import re
    text = open(os.path.join(common.REPO, "program_structure/src/utils/constants.rs"), encoding="utf-8").read()
    out = {}
    for variant, curve in (("Bn254", "BN254"), ("Bls12_381", "BLS12_381"), ("Goldilocks", "GOLDILOCKS")):
        m = re.search(r"\b%s\s*=>\s*\{?\s*\"([0-9]+)\"" % variant, text)
        if m:
            out[curve] = "%x" % int(m.group(1))
    return out


def margs(primes, cfg):
    curve, kv, kd = cfg
    return [primes[curve], "4" if kv == "-" else kv, "4" if kd == "-" else kd]


def hargs(cfg):
    curve, kv, kd = cfg
    return ["chain", curve] + ([] if (kv, kd) == ("-", "-") else [kv if kv != "-" else "x", kd if kd != "-" else "x"])


def run_many(common, binary, args, lines, unlimited_stack=False):
    """One process for the given lines -> (output lines or None, reason)."""
    cmd = (["prlimit", "--stack=unlimited", "--"] if unlimited_stack else []) + [binary] + args
    rc, out, err = common.sh(cmd, inp="\n".join(lines) + "\n", timeout=BIG_TIMEOUT_S)
    if rc != 0:
        return None, ("no answer within %d s" % BIG_TIMEOUT_S) if rc == 124 else "exit status %s" % rc
    res = [l for l in out.split("\n") if l.strip()]
    if len(res) != len(lines):
        return None, "answered %d lines for %d" % (len(res), len(lines))
    return res, ""


def run_one(common, binary, args, line, unlimited_stack=False):
    """One process for one line -> (output line or None, reason)."""
    cmd = (["prlimit", "--stack=unlimited", "--"] if unlimited_stack else []) + [binary] + args
    try:
        rc, out, err = common.sh(cmd, inp=line + "\n", timeout=BIG_TIMEOUT_S)
    except Exception as e:            # time-out of common.sh
        return None, "no answer within %d s" % BIG_TIMEOUT_S if "ime" in repr(e) else "failed: %r" % (e,)
    if rc != 0:
        return None, ("no answer within %d s" % BIG_TIMEOUT_S) if rc in (124, -9, None) else "exit status %s" % rc
    lines = [l for l in out.split("\n") if l.strip()]
    return (lines[0] if lines else None), ("" if lines else "no output")


def run(common, rng, quick, sources, nesting_depth):
    """sources: [(label, text)] candidates of C01's own engine.  -> dict"""
    import concurrent.futures
    hb = common.build_harness("liftfull")
    mb = common.build_model("chain")
    primes = primes_of_source(common)
    if len(primes) != 3:
        raise common.BuildError("chain stage: the three primes of utils/constants.rs could not be read", repr(primes))
    skipped = collections.Counter()
    progs = [("fixed/" + k, s) for k, s in FIXED]
    big = []
    own = 0
    for label, s in sources:
        if isinstance(s, bytes):
            try:
                s = s.decode("utf-8")
            except UnicodeDecodeError:
                skipped["not UTF-8"] += 1
                continue
        if not s.strip() or not c18gen.escape(s).strip():
            skipped["blank (the line protocol of the harness skips blank lines)"] += 1
            continue
        if "\x00" in s:
            skipped["NUL byte (line protocol)"] += 1
            continue
        depth = nesting_depth(s.encode("utf-8"))
        if len(s) > BIG_BYTES:
            skipped["larger than %d bytes (beyond `modest size`)" % BIG_BYTES] += 1
            continue
        if depth > BIG_DEPTH:
            skipped["syntactic nesting estimate > %d (deep inside the class of the known finding C01-stack-depth)" % BIG_DEPTH] += 1
            continue
        if len(s) > MAX_BYTES or depth > MAX_DEPTH or s.count(";") > 200:
            # (fourth audit: definitions of several hundred statements take the extracted mirrors many seconds: own process)
            big.append((label, s, depth))
            continue
        progs.append((label, s))
        own += 1
    n_own = len(progs)
    progs += liftfull_engine.gen_programs(rng, quick)

    # ---- the hypothesis wf_template of the PARSER's output (C18_desugar_never_panics), third audit: evaluated on
    # C01's own sources (until then only C18's engine evaluated it, on C18's inputs).  The definitions as parsed are
    # dumped by harness/src/bin/desugar.rs (field PRE); the decision procedure is C18's (props/C18.py wf_violations).
    wf_eval, wf_broken, wf_unparsed = 0, [], 0
    try:
        from props import C18 as c18
    except ImportError:
        import C18 as c18
    db = common.build_harness("desugar")
    wf_lines = common.run_lines(db, [], [c18gen.escape(s) for _, s in progs[:n_own]], shards=common.NPROC)
    if len(wf_lines) != n_own:
        raise common.BuildError("chain stage: desugar harness output length mismatch", "%d %d" % (len(wf_lines), n_own))
    for (label, src), line in zip(progs[:n_own], wf_lines):
        pre = c18.fields(line).get("PRE")
        if not pre or not pre.startswith("(prog"):
            wf_unparsed += 1
            continue
        ndefs = len(c18.split_defs(pre))
        wf_eval += ndefs
        w = c18.wf_violations(pre)
        if w:
            wf_broken.append({"src": src, "label": label, "def": pre[:2000], "unmet": ["wf_template: " + "; ".join(w)],
                              "impl": "-", "model": "-"})

    # ---- batch runs: the programs are dealt over the configurations (the fixed sources go to every one)
    cfgs = CONFIGS[:3] if quick else CONFIGS
    rot = rng.randrange(len(cfgs))
    groups = [[] for _ in cfgs]
    for i, pr in enumerate(progs):
        if pr[0].startswith("fixed/"):
            for g in groups:
                g.append(pr)
        else:
            groups[(i + rot) % len(cfgs)].append(pr)
    statuses = collections.Counter()
    defs = []           # (label, src, def, res, cfg index)
    per_cfg = {}
    for ci, (cfg, grp) in enumerate(zip(cfgs, groups)):
        lines = [c18gen.escape(s) for _, s in grp]
        impl = common.run_lines(hb, hargs(cfg), lines, shards=common.NPROC)
        if len(impl) != len(lines):
            raise common.BuildError("chain stage: harness output length mismatch", "%d %d" % (len(impl), len(lines)))
        nd = 0
        for (label, src), line in zip(grp, impl):
            f = liftfull_engine.split_fields(line)
            if isinstance(f, str):
                statuses[" ".join(f.split(" ")[:2])] += 1
                continue
            for d, r in f:
                defs.append((label, src, d, r, ci))
                nd += 1
        per_cfg["%s value-passes=%s degree-passes=%s" % cfg] = {"programs": len(grp), "definitions": nd}

    # ---- big sources, one process each
    big.sort(key=lambda b: (b[2] <= MAX_DEPTH, len(b[1])))
    if quick and len(big) > BIG_MAX_QUICK:
        rng.shuffle(big)
        skipped["big sources beyond the %d fed per quick run" % BIG_MAX_QUICK] += len(big) - BIG_MAX_QUICK
        big = big[:BIG_MAX_QUICK]
    big_stats = collections.Counter()

    def big_one(item):
        i, (label, src, depth) = item
        cfg = cfgs[i % len(cfgs)]
        line, why = run_one(common, hb, hargs(cfg), c18gen.escape(src))
        return i, cfg, line, why
    with concurrent.futures.ThreadPoolExecutor(max_workers=max(2, common.NPROC // 2)) as ex:
        big_res = list(ex.map(big_one, list(enumerate(big))))
    big_defs = []       # per fed source: (label, src, cfg index, [(def, res)])
    for i, cfg, line, why in big_res:
        label, src, depth = big[i]
        if line is None:
            big_stats["real side: " + why] += 1
            continue
        f = liftfull_engine.split_fields(line)
        if isinstance(f, str):
            statuses[" ".join(f.split(" ")[:2])] += 1
            big_stats["does not parse / no definition"] += 1
            continue
        big_stats["fed"] += 1
        big_defs.append((label + "/big", src, cfgs.index(cfg), list(f)))

    uniq = {}
    for _, _, d, _, ci in defs:
        uniq.setdefault((d, ci), len(uniq))
    ulist = sorted(uniq, key=uniq.get)
    umodel = [None] * len(ulist)
    for ci, cfg in enumerate(cfgs):
        idx = [i for i, (d, c) in enumerate(ulist) if c == ci]
        if not idx:
            continue
        outm = common.run_lines(mb, margs(primes, cfg), [ulist[i][0] for i in idx], shards=common.NPROC)
        if len(outm) != len(idx):
            raise common.BuildError("chain stage: model output length mismatch", "%d %d" % (len(outm), len(idx)))
        for i, o in zip(idx, outm):
            umodel[i] = o
    # big sources: the model in one process per source too, with an unlimited stack (a definition of 2000
    # statements can take the extracted dominator / SSA mirrors longer than the time allotted: counted)

    def big_model(rec):
        label, src, ci, f = rec
        ds = sorted(set(d for d, _ in f))
        lines, why = run_many(common, mb, margs(primes, cfgs[ci]), ds, unlimited_stack=True)
        return rec, (dict(zip(ds, lines)) if lines is not None else None), why
    with concurrent.futures.ThreadPoolExecutor(max_workers=max(2, common.NPROC // 2)) as ex:
        for (label, src, ci, f), answers, why in ex.map(big_model, big_defs):
            if answers is None:
                big_stats["model side: " + why] += 1
                continue
            big_stats["sources compared"] += 1
            for d, r in f:
                big_stats["definitions compared"] += 1
                defs.append((label, src, d, r, ci))
                if (d, ci) not in uniq:
                    uniq[(d, ci)] = len(umodel)
                    ulist.append((d, ci))
                    umodel.append(answers[d])

    classes = collections.Counter()
    by_source = collections.Counter()
    hyp_eval = collections.Counter()
    hyp_fail = collections.Counter()
    disagreements, hyp_broken, thm_broken, impl_panics, order_dependent = [], [], [], [], []
    fixed_seen = {}
    counted = set()
    for label, src, d, r, ci in defs:
        m = umodel[uniq[(d, ci)]]
        first = d not in counted
        counted.add(d)
        if m.startswith("(driver-error"):
            disagreements.append({"src": src, "label": label, "def": d[:2000], "impl": r, "model": m})
            continue
        fl = dict(x.split(" ", 1) for x in m.split("\t") if " " in x)
        ch, cr, bits = fl.get("CH", "?"), fl.get("CR", "?"), fl.get("H", "")
        ic, mc = impl_class(r), model_class(ch)
        if label.startswith("fixed/"):
            if fixed_seen.get(label[6:], ic) != ic:
                disagreements.append({"src": src, "label": label, "def": d[:2000], "impl": r,
                                      "model": "outcome class differs between configurations: " + fixed_seen[label[6:]]})
            fixed_seen[label[6:]] = ic
        if first:
            classes[ic] += 1
            by_source[label.split("/")[0].split(":")[0] + ("/big" if label.endswith("/big") else "")] += 1
            for name, b in zip(HYP_NAMES, bits):
                hyp_eval[name] += 1
                if b != "1":
                    hyp_fail[name] += 1
        cfgname = "%s value-passes=%s degree-passes=%s" % cfgs[ci]
        if ic.startswith("panic"):
            impl_panics.append({"src": src, "label": label, "impl": r, "model": ch, "config": cfgname})
        if ic != mc:
            disagreements.append({"src": src, "label": label, "def": d[:2000], "impl": r, "model": ch, "config": cfgname})
        if ch != cr:
            order_dependent.append({"src": src, "label": label, "identity_order": ch, "reversed_order": cr})
        if len(bits) != len(HYP_NAMES):
            disagreements.append({"src": src, "label": label, "def": d[:2000], "impl": r, "model": m[:200]})
            continue
        unmet = [n for n, b in zip(HYP_NAMES, bits) if b != "1"]
        if "ssa_output_ok" in unmet:
            thm_broken.append({"src": src, "label": label, "def": d[:2000], "model": ch, "reversed": cr,
                               "contradicts": "C01_chain_ssa_output_unique_local_defs"})
            unmet.remove("ssa_output_ok")
        if unmet:
            hyp_broken.append({"src": src, "label": label, "def": d[:2000], "unmet": unmet, "impl": r, "model": ch})
        elif mc not in ("ok", "err-lift", "err-ssa"):
            thm_broken.append({"src": src, "label": label, "def": d[:2000], "model": ch, "reversed": cr})
    hyp_eval["wf_template (parser output, C18's decision procedure)"] = wf_eval
    if wf_broken:
        hyp_fail["wf_template"] = len(wf_broken)
    hyp_broken += wf_broken
    expected_fixed = {"ok_loop": "ok", "ok_template": "ok", "err_param_collision": "err-lift", "err_ssa_undefined": "err-ssa"}
    degenerate = ["fixed source %s: expected class %s, saw %s" % (k, v, fixed_seen.get(k))
                  for k, v in expected_fixed.items() if fixed_seen.get(k) != v]
    if big and big_stats["fed"] * 2 < len(big) - big_stats["does not parse / no definition"]:
        degenerate.append("fewer than half of the big / deep sources could be fed: %r" % dict(big_stats))
    if wf_eval == 0:
        degenerate.append("wf_template was evaluated on no definition")
    return {"programs": len(progs), "sources_not_fed": dict(skipped), "statuses": dict(statuses),
            "definitions": len(defs), "distinct_definitions": len(counted), "impl_outcome_classes": dict(classes),
            "distinct_definitions_by_source": dict(by_source),
            "hypothesis_evaluations": dict(hyp_eval), "hypothesis_failures": dict(hyp_fail),
            "configurations": per_cfg, "primes_read_from_source": primes,
            "big_sources": {"candidates_fed_one_process_each": len(big), "limits": "%d < bytes <= %d or %d < nesting <= %d"
                            % (MAX_BYTES, BIG_BYTES, MAX_DEPTH, BIG_DEPTH), **{k: v for k, v in big_stats.items()},
                            "deepest_fed": max([b[2] for b in big] + [0]), "largest_fed": max([len(b[1]) for b in big] + [0])},
            "wf_template": {"definitions_evaluated": wf_eval, "sources_without_parsed_definitions": wf_unparsed,
                            "failures": len(wf_broken)},
            "disagreements": disagreements, "hyp_broken": hyp_broken, "thm_broken": thm_broken,
            "impl_panics": impl_panics, "order_dependent": order_dependent, "degenerate": degenerate,
            "fixed_classes": fixed_seen}


def replay_source(common, src):
    """Re-runs one source through the real per-definition pipeline and the extracted chain under every
    configuration; prints the comparison; returns the number of definitions that differ, panic, or miss a hypothesis."""
    hb = common.build_harness("liftfull")
    mb = common.build_model("chain")
    primes = primes_of_source(common)
    bad = 0
    for cfg in CONFIGS:
        line, why = run_one(common, hb, hargs(cfg), c18gen.escape(src))
        if line is None:
            print("harness (%s):" % (cfg,), why)
            bad += 1
            continue
        f = liftfull_engine.split_fields(line)
        if isinstance(f, str):
            print("harness:", f)
            return bad
        for d, r in f:
            m, why = run_one(common, mb, margs(primes, cfg), d, unlimited_stack=True)
            if m is None:
                print("model (%s):" % (cfg,), why)
                continue
            fl = dict(x.split(" ", 1) for x in m.split("\t") if " " in x)
            ic, mc = impl_class(r), model_class(fl.get("CH", "?"))
            unmet = [n for n, b in zip(HYP_NAMES, fl.get("H", "")) if b != "1"]
            verdict = "equal" if ic == mc else "DIFFERENT"
            print("%s %s  real: %s  mirror: %s (reversed orders: %s)  hypotheses unmet: %s  -> %s"
                  % (cfg, d[:60], r, fl.get("CH"), fl.get("CR"), unmet or "none", verdict))
            if ic != mc or ic.startswith("panic") or unmet or fl.get("CH") != fl.get("CR"):
                bad += 1
    return bad
