"""C01, stage `chain`: the per-definition part of Model.PipelineMirrors EXTRACTED and run
on real inputs (coq/extract/chain.{v,ml}), next to the real per-definition pipeline
(harness/src/bin/liftfull.rs, mode `chain`: the real parser, the real desugarer, the real
`into_cfg` followed by the real `into_ssa`, which includes propagation).

For every definition the real parser + desugarer hand to lifting:
  * the decidable hypotheses of C01_definition_chain_never_panics /
    C01_pipeline_mirrors_never_panic are EVALUATED (is_block, stmt_sugar_free,
    ast_init_flat - proved of what Model.Desugar hands on, here evaluated on what the REAL
    desugarer hands on - and the two clauses of PipelineMirrors.body_ok: names_distinct,
    stmt_lits_ok; also definition_wf and ast_init_ok).  A definition that does not meet one
    of them is a broken hypothesis.  ssa_output_ok (one defining assignment per local in the
    SSA output) is no hypothesis any more but a theorem for every body
    (C01_chain_ssa_output_unique_local_defs); it is still evaluated, under both enumeration
    orders: a 0 means the extracted code contradicts the theorem;
  * the conclusion of the theorem is evaluated on the extracted chain (hypotheses met =>
    the outcome is ok / err-lift / err-ssa, under the identity and the reversed
    enumeration of every hash-ordered set) - a cross-check of the statement itself;
  * the outcome CLASS of the extracted chain is compared with the outcome class of the
    real code (ok, error report of lifting, `used before defined` error of SSA
    conversion, panic while lifting, panic in SSA conversion / propagation): a difference
    is a correspondence disagreement; a panic of the real code is a failing input of C01.
Nothing is dropped silently: sources that are not fed (too large / too deep for an
in-process harness without a stack guard, not UTF-8) and sources that do not parse are
counted per reason."""
import collections
import os
import sys

sys.path.insert(0, os.path.dirname(os.path.abspath(__file__)))
import c18gen  # noqa: E402
import liftfull_engine  # noqa: E402

MAX_BYTES = 8 * 1024
MAX_DEPTH = 24
HYP_NAMES = ["is_block", "stmt_sugar_free", "ast_init_flat", "names_distinct", "stmt_lits_ok", "ssa_output_ok",
             "definition_wf", "ast_init_ok"]

# fixed sources: every outcome class of the chain must be seen on every run
FIXED = [
    ("ok_loop", "function f(x) { var y = x; while (y) { y = y - 1; } return y; }"),
    ("ok_template", "template T(n) { signal input a; signal output b; var s = 0; for (var i = 0; i < n; i++) { s += i; } b <-- a * s; b === a * s; }"),
    ("err_param_collision", "function h(x, x) { return x; }"),
    ("err_ssa_undefined", "function k(n) { var s = 0; if (n) { var t; s = t + 1; } return s; }"),
    ("err_ssa_undefined2", "function k(n) { var t; var s = t; return s; }"),
    ("big_literal", "function f() { return 21888242871839275222246405745257275088548364400416034343698204186575808495617 + 0xFFFFFFFFFFFFFFFFFFFF; }"),
    ("shadow", "function f(x) { var y = 1; if (x < y) { var x = 3; y = x; { var x = 4; y += x; } y = x; } return x + y; }"),
    ("anon_tuple", "template A() { signal input x; signal output y; signal output z; y <== x; z <== x; } template T() { signal input a; "
                   "signal output b; signal output c; (b, c) <== A()(a); }"),
]


def impl_class(res):
    """(chain X ...) -> class"""
    if not res.startswith("(chain ") or not res.endswith(")"):
        return "malformed " + res[:60]
    w = res[len("(chain "):-1].split(" ")
    return w[0]


def model_class(text):
    w = text.split(" ")
    return w[0] if w[0] != "other" else text


def run(common, rng, quick, sources, nesting_depth):
    """sources: [(label, text)] candidates of C01's own engine.  -> dict"""
    hb = common.build_harness("liftfull")
    mb = common.build_model("chain")
    skipped = collections.Counter()
    progs = [("fixed/" + k, s) for k, s in FIXED]
    for label, s in sources:
        if isinstance(s, bytes):
            try:
                s = s.decode("utf-8")
            except UnicodeDecodeError:
                skipped["not UTF-8"] += 1
                continue
        if not s.strip() or not c18gen.escape(s).strip():
            skipped["blank (the line protocol of the harness skips blank lines)"] += 1
            continue
        if len(s) > MAX_BYTES:
            skipped["larger than %d bytes" % MAX_BYTES] += 1
            continue
        if "\x00" in s:
            skipped["NUL byte (line protocol)"] += 1
            continue
        if nesting_depth(s.encode("utf-8")) > MAX_DEPTH:
            skipped["syntactic nesting estimate > %d" % MAX_DEPTH] += 1
            continue
        progs.append((label, s))
    progs += liftfull_engine.gen_programs(rng, quick)
    lines = [c18gen.escape(s) for _, s in progs]
    impl = common.run_lines(hb, ["chain"], lines, shards=common.NPROC)
    if len(impl) != len(lines):
        raise common.BuildError("chain stage: harness output length mismatch", "%d %d" % (len(impl), len(lines)))
    statuses = collections.Counter()
    defs = []
    for (label, src), line in zip(progs, impl):
        f = liftfull_engine.split_fields(line)
        if isinstance(f, str):
            statuses[" ".join(f.split(" ")[:2])] += 1
            continue
        for d, r in f:
            defs.append((label, src, d, r))
    uniq = {}
    for _, _, d, _ in defs:
        uniq.setdefault(d, len(uniq))
    ulist = sorted(uniq, key=uniq.get)
    umodel = common.run_lines(mb, [], ulist, shards=common.NPROC)
    if len(umodel) != len(ulist):
        raise common.BuildError("chain stage: model output length mismatch", "%d %d" % (len(umodel), len(ulist)))
    classes = collections.Counter()
    by_source = collections.Counter()
    hyp_eval = collections.Counter()
    hyp_fail = collections.Counter()
    disagreements, hyp_broken, thm_broken, impl_panics, order_dependent = [], [], [], [], []
    fixed_seen = {}
    counted = set()
    for label, src, d, r in defs:
        m = umodel[uniq[d]]
        first = d not in counted
        counted.add(d)
        if m.startswith("(driver-error"):
            disagreements.append({"src": src, "label": label, "def": d[:2000], "impl": r, "model": m})
            continue
        fl = dict(x.split(" ", 1) for x in m.split("\t") if " " in x)
        ch, cr, bits = fl.get("CH", "?"), fl.get("CR", "?"), fl.get("H", "")
        ic, mc = impl_class(r), model_class(ch)
        if label.startswith("fixed/"):
            fixed_seen[label[6:]] = ic
        if first:
            classes[ic] += 1
            by_source[label.split("/")[0].split(":")[0]] += 1
            for name, b in zip(HYP_NAMES, bits):
                hyp_eval[name] += 1
                if b != "1":
                    hyp_fail[name] += 1
        if ic.startswith("panic"):
            impl_panics.append({"src": src, "label": label, "impl": r, "model": ch})
        if ic != mc:
            disagreements.append({"src": src, "label": label, "def": d[:2000], "impl": r, "model": ch})
        if ch != cr:
            order_dependent.append({"src": src, "label": label, "identity_order": ch, "reversed_order": cr})
        if len(bits) != len(HYP_NAMES):
            disagreements.append({"src": src, "label": label, "def": d[:2000], "impl": r, "model": m[:200]})
            continue
        unmet = [n for n, b in zip(HYP_NAMES, bits) if b != "1"]
        if "ssa_output_ok" in unmet:
            thm_broken.append({"src": src, "label": label, "def": d[:2000], "model": ch, "reversed": cr,
                               "contradicts": "C01_chain_ssa_output_unique_local_defs"})
            unmet.remove("ssa_output_ok")
        if unmet:
            hyp_broken.append({"src": src, "label": label, "def": d[:2000], "unmet": unmet, "impl": r, "model": ch})
        elif mc not in ("ok", "err-lift", "err-ssa"):
            thm_broken.append({"src": src, "label": label, "def": d[:2000], "model": ch, "reversed": cr})
    expected_fixed = {"ok_loop": "ok", "ok_template": "ok", "err_param_collision": "err-lift", "err_ssa_undefined": "err-ssa"}
    degenerate = ["fixed source %s: expected class %s, saw %s" % (k, v, fixed_seen.get(k))
                  for k, v in expected_fixed.items() if fixed_seen.get(k) != v]
    return {"programs": len(progs), "sources_not_fed": dict(skipped), "statuses": dict(statuses),
            "definitions": len(defs), "distinct_definitions": len(ulist), "impl_outcome_classes": dict(classes),
            "distinct_definitions_by_source": dict(by_source),
            "hypothesis_evaluations": dict(hyp_eval), "hypothesis_failures": dict(hyp_fail),
            "disagreements": disagreements, "hyp_broken": hyp_broken, "thm_broken": thm_broken,
            "impl_panics": impl_panics, "order_dependent": order_dependent, "degenerate": degenerate,
            "fixed_classes": fixed_seen}


def replay_source(common, src):
    """Re-runs one source through the real per-definition pipeline and the extracted chain; prints the
    comparison; returns the number of definitions that differ, panic, or miss a hypothesis."""
    hb = common.build_harness("liftfull")
    mb = common.build_model("chain")
    line, = common.run_lines(hb, ["chain"], [c18gen.escape(src)])
    f = liftfull_engine.split_fields(line)
    if isinstance(f, str):
        print("harness:", f)
        return 0
    bad = 0
    for d, r in f:
        m, = common.run_lines(mb, [], [d])
        fl = dict(x.split(" ", 1) for x in m.split("\t") if " " in x)
        ic, mc = impl_class(r), model_class(fl.get("CH", "?"))
        unmet = [n for n, b in zip(HYP_NAMES, fl.get("H", "")) if b != "1"]
        verdict = "equal" if ic == mc else "DIFFERENT"
        print("%s  real: %s  mirror: %s (reversed orders: %s)  hypotheses unmet: %s  -> %s"
              % (d[:60], r, fl.get("CH"), fl.get("CR"), unmet or "none", verdict))
        if ic != mc or ic.startswith("panic") or unmet or fl.get("CH") != fl.get("CR"):
            bad += 1
    return bad
