"""C17 — findings are a function of the sources (deterministic, order independent).

Proof side: coq/props/C17.v (22 obligations).  Over Model.Runner: the displayed
multiset, exit status and SARIF content are the same for every order in which
the name maps are iterated and every set of lookups; FileIDs are names.  Over
Model.RunnerLib (the code after the repair of D22): the order in which
parse_files' HashMap<FileID, ..> is iterated is irrelevant, duplicated names
included.  Over Model.RunnerSrc (the pass results of a definition are a
FUNCTION of the answers to the lookups its passes make - an assumption):
whole-project findings are unchanged when definitions nobody looks up are
added, removed or reordered; refuted without that hypothesis.  Over
Model.Desugar: the two HashMap loops of remove_syntactic_sugar.

What this engine does (third audit: see design.d/C17.md):

 (0) evaluates the hypotheses of the theorems per case (runner maps against the
     sources, analysis order of every run, structures, unreferenced extras);
 (1) harness `c17 allorders`: the REAL analyze_functions / analyze_templates
     under EVERY order of the two name maps of small projects (fresh threads
     until every permutation was iterated); (1b) `c17 deps` with all orders of
     take / passes / replace: the answers to the lookups;
 (2) the real binary in fresh processes (>= 8 per project: unchanged,
     definitions / files permuted, definitions / files added and removed,
     referenced definitions changed; --curve and -L as generated) and harness
     `c17 orders` (the pipeline of main.rs in fresh threads): normalised finding
     multisets compared per definition; a definition may change only through
     what it looks up (recorded by `c17 deps`) or instantiates anonymously, and
     through a lookup only in the findings of passes observed to ask questions;
 (3) findings grouped by (own source, lookups with answers) coincide — the
     interface assumed by Model.RunnerSrc (a difference is a failing input when
     all sources agree, a no-input violation naming the interface otherwise);
 (4) the witness of C17_referenced_definition_matters on the real code;
 (5) duplicated names: deterministic, and analysed like the project in which
     only the first definition of a name in the TOOL's FileID order is left
     (Model.RunnerLib's oracle); the same files named in the other order on the
     command line: known finding C17-duplicate-name-file-order for exactly the
     definitions of that name and those that look it up, a violation elsewhere;
 (6) the extracted Model.Runner (engine e2e) against the binary."""
import copy
import itertools
import json
import math
import os
import re
import shutil

import common
import e2e


def gen(ctx):
    e2e.gen_category()


def fast_rmtree(base):
    """the scratch tree holds thousands of small project directories: delete them in parallel"""
    try:
        subs = [os.path.join(base, d) for d in os.listdir(base)]
    except OSError:
        subs = []
    e2e.pmap(lambda d: shutil.rmtree(d, ignore_errors=True), subs)
    shutil.rmtree(base, ignore_errors=True)


GEN_NAME = re.compile(r"([A-Za-z_][A-Za-z_0-9]*?)_\d+_\d+")
STUB_NAMES = ("LessThan", "Num2Bits")
# the log line that announces the analysis of a definition: any one-word verb, any quote character (a rewording of
# "analyzing template 'T'" must not turn every finding into a parse-stage finding)
OWNER_LINE = re.compile(r"^\w+ (template|function) [`'\"]?([A-Za-z_$][A-Za-z_$0-9]*)[`'\"]?\.?$")
CURVES = ["BN254", "BN254", "BLS12_381", "GOLDILOCKS"]


LINE_IN_MSG = re.compile(r"\b(lines?|columns?|cols?) \d+", re.I)
POS_IN_MSG = re.compile(r":\d+:\d+\b")


def norm_msg(msg, pdir):
    """the property allows findings to differ in line numbers: positions spelled out in a MESSAGE are normalised too"""
    msg = (msg or "").replace(pdir, "<dir>").replace("<dir>/" + UDIR + "/", "<dir>/")
    msg = POS_IN_MSG.sub(":#:#", LINE_IN_MSG.sub(r"\1 #", msg))
    return GEN_NAME.sub(r"\1_#_#", msg)


def region_text(cache, uri, sl, sc, el, ec):
    path = (uri or "")[len("file://"):]
    if path not in cache:
        try:
            cache[path] = open(path, encoding="utf-8").read().split("\n")
        except (OSError, UnicodeDecodeError):
            cache[path] = None
    lines = cache[path]
    if lines is None or sl is None:
        return None
    try:
        if sl == el:
            return lines[sl - 1][sc - 1:ec - 1]
        parts = [lines[sl - 1][sc - 1:]] + lines[sl:el - 1] + [lines[el - 1][:ec - 1]]
        return "\n".join(parts)
    except IndexError:
        return None


DERIVED_NOTES = ("For more details, see ", "To ignore this type of result, use `--allow ")
NOTE_LINE = re.compile(r"^\s*= (.*)$")


def parse_blocks(text, pdir):
    """The diagnostics of one run of the binary AS DISPLAYED: per diagnostic (in the order of e2e.parse_stdout's "diag"
    events) its complete text - header, every `file:line:col`, every underlined source line with its label text, every
    note - with the project directory replaced, and the list of its notes.  -> [(text, [note, ..])]"""
    blocks, cur = [], None
    for line in text.split("\n"):
        if e2e.LOG.match(line):
            cur = None
            continue
        if e2e.HEADER.match(line):
            cur = [[line], []]
            blocks.append(cur)
            continue
        if cur is None:
            continue
        cur[0].append(line)
        m = NOTE_LINE.match(line)
        if m:
            cur[1].append(m.group(1))
        elif cur[1] and line.strip():
            cur[1][-1] += "\n" + line.strip()       # continuation of a note
    return [("\n".join(ls).rstrip().replace(pdir, "<dir>"), notes) for ls, notes in blocks]


def owners_of(ev):
    diags, owner = [], ("parse",)
    for e in ev:
        if e[0] == "log":
            m = OWNER_LINE.match(e[1])
            if m:
                owner = (m.group(1), m.group(2))
        else:
            diags.append((owner, e))
    return diags


def findings_of_run(p, r):
    """-> (ok, {owner: sorted list of normalised findings}); owner = ("parse",) | (kind, name).  A finding = (id, level,
    message, primary labels, secondary labels, notes); a label = (file name, labelled source TEXT, label message), the labels
    of a finding in source order (file, line, column) - their relative structure - without the positions themselves: this
    is the form compared in the REORDERING clauses of the property (definitions / files permuted, added, removed), where
    line numbers may change.  The run-twice clause compares displayed_of_run."""
    doc = r.get("sarif_doc")
    diags = owners_of(r["events"])
    blocks = r.get("blocks")
    if r["exit"] not in (0, 1) or doc is None or doc.get("bad") or len(doc["results"]) != len(diags) \
            or (blocks is not None and len(blocks) != len(diags)):
        return False, {}
    cache = {}
    out = {}
    for i, ((own, d), res) in enumerate(zip(diags, doc["results"])):
        level, rid, msg, locs, rel = res["tuple"]

        def lab(l):
            uri, sl, sc, el, ec, lmsg = l
            return (os.path.basename(uri or ""), GEN_NAME.sub(r"\1_#_#", region_text(cache, uri, sl, sc, el, ec) or "?"),
                    norm_msg(lmsg, p.dir))

        def in_source_order(ls):
            return tuple(lab(l) for l in sorted(ls, key=lambda l: (os.path.basename(l[0] or ""), l[1] or 0, l[2] or 0, l[3] or 0, l[4] or 0)))
        notes = tuple(norm_msg(n, p.dir) for n in (blocks[i][1] if blocks is not None else []) if not n.startswith(DERIVED_NOTES))
        out.setdefault(own, []).append((rid, level, norm_msg(msg, p.dir), in_source_order(locs), in_source_order(rel), notes))
    for k in out:
        out[k].sort()
    return True, out


def displayed_of_run(r):
    """{owner: sorted list of the complete displayed diagnostics} - what two runs on the SAME files and options must agree on
    (the run-twice clause: nothing is normalised but the project directory; the order of the diagnostics inside one
    definition's segment and the order of the segments are free: a multiset)"""
    diags = owners_of(r["events"])
    blocks = r.get("blocks") or []
    if len(blocks) != len(diags):
        return None
    out = {}
    for (own, _), (text, _) in zip(diags, blocks):
        out.setdefault(own, []).append(text)
    for k in out:
        out[k].sort()
    return out


def displayed_difference(a, b):
    """-> None | (owner, a diagnostic only in a, a diagnostic only in b)"""
    if a is None or b is None:
        return (("?",), "diagnostics could not be cut out of stdout", "")
    for o in sorted(set(a) | set(b)):
        if a.get(o, []) != b.get(o, []):
            xa = next((x for x in a.get(o, []) if x not in b.get(o, [])), "")
            xb = next((x for x in b.get(o, []) if x not in a.get(o, [])), "")
            return (o, xa, xb)
    return None


def findings_of_outcome(p, outcome):
    """The same shape from one outcome of harness `c17 orders` (in-process pipeline)."""
    if not outcome or outcome.get("panic") or "owners" not in outcome:
        return False, {}
    out = {}
    for owner, reps in outcome["owners"].items():
        m = OWNER_LINE.match(owner)
        own = (m.group(1), m.group(2)) if m else ("parse",)
        lst = []
        for s in reps:
            if s.startswith("<<"):
                lst.append(("<second segment>",))
                continue
            lst.append(norm_report(p, json.loads(s)))
        if lst:
            out[own] = sorted(lst)
    return True, out


# ---------------------------------------------------------------------------
# generator: structures of lib/e2e.py + shapes aimed at the hash-ordered loops
# ---------------------------------------------------------------------------

DROP_REASONS = ["arity", "unknown", "assert", "arith"]


def drop_shape(rng, k, j):
    """Three templates: Sq (fine), Sc (DROPPED by the desugarer: its anonymous
    component is invalid) and Us, which instantiates Sc ANONYMOUSLY and has
    findings of its own.  Whether Us survives desugaring must not depend on
    whether the loop of remove_syntactic_sugar visits Sc before Us."""
    sq, sc, us = "Sq%d_%d" % (k, j), "Sc%d_%d" % (k, j), "Us%d_%d" % (k, j)
    reason = rng.choice(DROP_REASONS)
    bad = {"arity": "out <== %s(1)(in, in);" % sq,
           "unknown": "out <== Absent%d_%d(1)(in);" % (k, j),
           "assert": "assert(%s(1)(in) == 1);\n    out <== in;" % sq,
           "arith": "out <== %s(1)(in) + 1;" % sq}[reason]
    defs = [("template", sq, "template %s(n) {\n    signal input in;\n    signal output out;\n    out <== in * in;\n}" % sq),
            ("template", sc, "template %s(n) {\n    signal input in;\n    signal output out;\n    %s\n}" % (sc, bad)),
            ("template", us, "template %s(n) {\n    signal input in;\n    signal output out;\n    signal output c;\n    var unused = 3;\n"
                             "    out <== %s(1)(in);\n    c <-- 2 * in;\n}" % (us, sc))]
    if rng.random() < 0.5:
        # a second user of the dropped template, through a named component (must keep its findings too)
        nm = "Un%d_%d" % (k, j)
        defs.append(("template", nm, "template %s(n) {\n    signal input in;\n    signal output out;\n    component k = %s(1);\n"
                                     "    k.in <== in;\n    out <-- in;\n}" % (nm, sc)))
    return defs, reason


SIMPLE_T = re.compile(r"^template (\w+)\(n\) \{")
SIMPLE_F = re.compile(r"^function (\w+)\(a, b\) \{")


def insert_before_last(text, marker, line):
    i = text.rfind(marker)
    return text if i < 0 else text[:i] + line + "\n    " + text[i:]


def enrich(rng, st, feats_seen):
    """Features the structures of lib/e2e.py do not have (third review): INTERMEDIATE signals with one constraint each
    (CS0017 - the reports of that pass come out of a loop over a HashMap), calls of functions from templates and from
    functions, ARRAYS of components."""
    tnames = [d[1] for f in st["files"] for d in f["defs"] if d[0] == "template" and SIMPLE_T.match(d[2])]
    fnames = [d[1] for f in st["files"] for d in f["defs"] if d[0] == "function" and SIMPLE_F.match(d[2])]
    for f in st["files"]:
        nd = []
        for j, d in enumerate(f["defs"]):
            kind, name, text = d
            if kind == "template" and name not in STUB_NAMES and "out <== in;" in text:
                if rng.random() < 0.45:
                    n = rng.choice([2, 2, 3, 4])
                    line = " ".join("signal m%d; m%d <== in * %d;" % (i, i, i + 2) for i in range(n))
                    text = insert_before_last(text, "out <== in;", line)
                    feats_seen["intermediate"] = feats_seen.get("intermediate", 0) + 1
                if fnames and rng.random() < 0.3:
                    text = insert_before_last(text, "out <== in;", "var fc%d = %s(n, %d);" % (j, rng.choice(fnames), rng.randint(1, 9)))
                    feats_seen["call_from_template"] = feats_seen.get("call_from_template", 0) + 1
                if rng.random() < 0.3:
                    # `<--` targets (non-quadratic right-hand side: CS0005) that occur, with the same access, in 4..10 constraints:
                    # the report labels every one of them, out of a HashSet
                    parts = []
                    for t in range(rng.choice([1, 2, 2, 3])):
                        sig = rng.choice(["h%d_%d" % (j, t), "h%d_%d[0]" % (j, t)])
                        decl = "signal h%d_%d%s;" % (j, t, "[2]" if "[" in sig else "")
                        parts.append("%s %s <-- in != 0 ? 1 / in : %d;" % (decl, sig, t))
                        for c in range(rng.randint(4, 10)):
                            parts.append(rng.choice(["in * %s === %d;", "%s * (in - %d) === in;", "%s * %s === in + %d;"]).replace("%s", sig)
                                         % (c + 1))
                    text = insert_before_last(text, "out <== in;", "\n    ".join(parts))
                    feats_seen["many_constraints"] = feats_seen.get("many_constraints", 0) + 1
                if rng.random() < 0.15:
                    # an input of LessThan that several Num2Bits of too many bits constrain: CS0014 with one secondary label each
                    nn = rng.randint(2, 4)
                    line = "component lq%d = LessThan(8); lq%d.in[0] <== in; lq%d.in[1] <== 7;" % (j, j, j)
                    line += " " + " ".join("component nq%d_%d = Num2Bits(%d); nq%d_%d.in <== in;" % (j, t, 254 + t, j, t) for t in range(nn))
                    text = insert_before_last(text, "out <== in;", line)
                    feats_seen["less_than_many_num2bits"] = feats_seen.get("less_than_many_num2bits", 0) + 1
                if rng.random() < 0.2:
                    # `c <-- a / b` with a non-constant divisor and two or three IsZero components, at most one of them on the
                    # divisor (CS0015 asks whether ANY of the components - a HashMap - ensures that it is non-zero)
                    nz = rng.choice([2, 2, 3])
                    on = rng.randrange(nz + 1)            # nz: no component is on the divisor -> CS0015 is reported
                    parts = ["signal input dv%d; signal output qd%d;" % (j, j)]
                    for t in range(nz):
                        parts.append("component iz%d_%d = IsZero(); iz%d_%d.in <== %s; iz%d_%d.out === 0;"
                                     % (j, t, j, t, "dv%d" % j if t == on else "in + %d" % t, j, t))
                    parts.append("qd%d <-- in / dv%d; qd%d * dv%d === in;" % (j, j, j, j))
                    text = insert_before_last(text, "out <== in;", " ".join(parts))
                    feats_seen["division_with_iszero"] = feats_seen.get("division_with_iszero", 0) + 1
                if rng.random() < 0.2:
                    # intermediate signals constrained inside a loop (ConstraintLocation::Loop), two by one statement
                    text = insert_before_last(text, "out <== in;",
                                              "signal lb%d[2]; signal ld%d[2]; for (var li%d = 0; li%d < 2; li%d++) { ld%d[li%d] <== in + li%d; "
                                              "lb%d[li%d] <== in * ld%d[li%d]; }" % ((j,) * 12))
                    feats_seen["signals_constrained_in_loop"] = feats_seen.get("signals_constrained_in_loop", 0) + 1
                if rng.random() < 0.2:
                    # an else branch under a non-constant condition (a parameter / a signal)
                    cond = rng.choice(["n > 2", "in == 1"])
                    text = insert_before_last(text, "out <== in;", "var ne%d = 0; if (%s) { ne%d = 1; } else { ne%d = n + 2; }" % (j, cond, j, j))
                    feats_seen["non_constant_else"] = feats_seen.get("non_constant_else", 0) + 1
                if rng.random() < 0.15:
                    # inputs that no constraint mentions (candidates of the constraint analysis: CA01), two per template
                    text = insert_before_last(text, "out <== in;", "signal input ca%d; signal input cb%d; signal output co%d; co%d <-- ca%d * cb%d;" % ((j,) * 6))
                    feats_seen["unconstrained_inputs"] = feats_seen.get("unconstrained_inputs", 0) + 1
                if rng.random() < 0.12:
                    # circuits of Circomlib that are only sound over BN254 (CS0016 on the other curves), two per template
                    text = insert_before_last(text, "out <== in;", "component sg%d = Sign(); component ps%d = Poseidon(2);" % (j, j))
                    feats_seen["bn254_specific"] = feats_seen.get("bn254_specific", 0) + 1
                others = [t for t in tnames if t != name]
                if others and rng.random() < 0.3:
                    o = rng.choice(others)
                    used = rng.random() < 0.5
                    line = ("component ca%d[2]; for (var ci = 0; ci < 2; ci++) { ca%d[ci] = %s(1); ca%d[ci].in <== in; }"
                            % (j, j, o, j))
                    if used:
                        line += " signal output cy%d; cy%d <== ca%d[0].out + ca%d[1].out;" % (j, j, j, j)
                    text = insert_before_last(text, "out <== in;", line)
                    feats_seen["component_array"] = feats_seen.get("component_array", 0) + 1
            elif kind == "function" and "return a + b;" in text:
                others = [g for g in fnames if g != name]
                if others and rng.random() < 0.35:
                    text = insert_before_last(text, "return a + b;", "b = b + %s(a, %d);" % (rng.choice(others), rng.randint(1, 9)))
                    feats_seen["call_from_function"] = feats_seen.get("call_from_function", 0) + 1
            nd.append((kind, name, text))
        f["defs"] = nd


def big_structure(rng, k):
    """More templates than any cache bound a runner might have (the review's edit: eviction at 64), many of them looked
    up by others before or after they are analysed themselves."""
    n = rng.randint(70, 96)
    names = ["B%d_%d" % (k, i) for i in range(n)]
    files = [{"name": "user%d.circom" % i, "user": True, "pragma": True, "includes": [], "defs": [], "main": None} for i in range(2)]
    for i, name in enumerate(names):
        feats = [rng.choice(["sig", "unused", "constcond", "shadow", "cmp"]) for _ in range(rng.randint(0, 2))]
        if rng.random() < 0.6:
            feats.append(rng.choice(["inst", "inst", "instused"]))
        others = [x for x in names if x != name]
        files[rng.randint(0, 1)]["defs"].append(("template", name, e2e.template_text(rng, name, feats, others)))
    return {"files": files}


def gen_structure(rng, k, rich, feats_seen, big=False):
    if big:
        st = big_structure(rng, k)
        feats_seen["more_than_64_templates"] = feats_seen.get("more_than_64_templates", 0) + 1
    else:
        st = e2e.gen_structure(rng, rich=rich)
    shapes = []
    if rng.random() < 0.3 and not big:
        user = [f for f in st["files"] if f["user"]]
        for j in range(rng.choice([1, 1, 2])):
            defs, reason = drop_shape(rng, k, j)
            f = rng.choice(user)
            for d in defs:
                f["defs"].insert(rng.randint(0, len(f["defs"])), d)
            shapes.append(reason)
    st["shapes"] = shapes
    enrich(rng, st, feats_seen)
    st["curve"] = rng.choice(CURVES)
    # the included-only files in a directory of their own, found through -L
    st["libdir"] = any(not f["user"] for f in st["files"]) and rng.random() < 0.3
    if st["curve"] != "BN254":
        feats_seen["non_default_curve"] = feats_seen.get("non_default_curve", 0) + 1
    if st["libdir"]:
        feats_seen["library_directory"] = feats_seen.get("library_directory", 0) + 1
    return st


LIBDIR = "ldir"
UDIR = "udir"


def render(st, tag, argv=None):
    """e2e.render_structure + the options of the structure: --curve, and -L with the included-only files moved there"""
    p = e2e.render_structure(st, tag=tag, argv=argv)
    if st.get("libdir"):
        moved = {f["name"] for f in st["files"] if not f["user"]}
        p.files = {(LIBDIR + "/" + n if n in moved else n): t for n, t in p.files.items()}
        p.libs = [LIBDIR]
    if st.get("userdir"):
        users = {f["name"] for f in st["files"] if f["user"]}
        p.files = {(UDIR + "/" + n if n in users else n): t for n, t in p.files.items()}
        p.argv = [UDIR]
    p.meta["curve"] = st.get("curve", "BN254")
    return p


# ---- duplicated names (defect D22, repaired in /repo f1ec9dc): no carve-out, and an oracle ----------------------------

def dup_projects(rng):
    """Projects in which a name is defined more than once.  -> list of specs {"files": {name: (head, [(defined name, text)],
    tail)}, "argv", "shape", "curve", "pair"}; two specs with the same "pair" are the same files named in the two orders on
    the command line (the class of the known finding C17-duplicate-name-file-order)."""
    def t(name, op, extra=""):
        return "template %s(n) {\n    signal input in;\n    signal output out;\n    %s\n    out %s in;\n}" % (name, extra, op)

    def fn(name, body):
        return "function %s(a, b) {\n    %s\n    return a + b;\n}" % (name, body)
    out = []
    pragma = "pragma circom 2.0.0;\n"
    user = ("User", "template User(n) {\n    signal input in;\n    signal output out;\n    component k = T(1);\n    k.in <== in;\n    out <== in;\n}")
    for rep in range(2):
        a = ("T", t("T", "<==", "var ua%d = n + 1;" % rep))
        b = ("T", t("T", "<--", "signal output extra; extra <-- in * in;"))
        other = ("Other%d" % rep, t("Other%d" % rep, "<==", "var c = 0; if (1 == 1) { c = 1; }"))
        f1 = ("T", fn("T", "var uf = a + 1;"))
        groups = [
            # two user files, library mode / with a main component (program mode)
            ("two-files-library", {"a.circom": (pragma, [a, user], ""), "b.circom": (pragma, [b, other], "")},
             [["a.circom", "b.circom"], ["b.circom", "a.circom"]]),
            ("two-files-program", {"a.circom": (pragma, [a, user], "component main = User(1);\n"), "b.circom": (pragma, [b, other], "")},
             [["a.circom", "b.circom"], ["b.circom", "a.circom"]]),
            # twice in one file
            ("one-file", {"a.circom": (pragma, [a, user, b], "")}, [["a.circom"]]),
            # a function and a template of the same name, and a name defined three times
            ("function-and-template", {"a.circom": (pragma, [f1, other], ""), "b.circom": (pragma, [b, a], "")},
             [["b.circom", "a.circom"], ["a.circom", "b.circom"]]),
            # the duplicate lives in an included file
            ("included-file", {"a.circom": (pragma + 'include "inc.circom";\n', [a, user], ""), "inc.circom": (pragma, [b, other], "")},
             [["a.circom"]]),
        ]
        for gi, (shape, files, argvs) in enumerate(groups):
            curve = rng.choice(CURVES)
            for argv in argvs:
                out.append({"files": files, "argv": argv, "shape": shape, "curve": curve,
                            "pair": (rep, gi) if len(argvs) > 1 else None})
    return out


def dup_render(spec, i, keep_order=None):
    """the project of a spec; with keep_order (a list of file names): the project in which every definition of a name but
    the FIRST one in that order of the files (then source order) is deleted.  -> (project, number of deleted definitions)"""
    files, ndel, seen = {}, 0, set()
    kept = {}
    for name in (keep_order or []):
        kept[name] = []
        for dn, text in spec["files"][name][1]:
            if dn in seen:
                ndel += 1
            else:
                seen.add(dn)
                kept[name].append((dn, text))
    for name, (head, defs, tail) in spec["files"].items():
        ds = kept.get(name, defs) if keep_order else defs
        files[name] = head + "".join(text + "\n" for _, text in ds) + tail
    tag = "dup%d-%s%s" % (i, spec["shape"], "-kept-" + "-".join(keep_order) if keep_order else "")
    return e2e.Project(files, spec["argv"], tag=tag, meta={"curve": spec["curve"], "shape": spec["shape"]}), ndel


INCLUDE = re.compile(r'^\s*include\s+"([^"]*)"\s*;', re.M)
DEFINITION = re.compile(r"^\s*(template|function)\s+(?:parallel\s+|custom\s+)*([A-Za-z_$][A-Za-z_$0-9]*)\s*\(", re.M)


def source_definitions(p):
    """The definitions of the files the tool reads, read from the SOURCES: the files of the command line and what they
    include (the including file's directory first, then the -L directories), each file once, in the order in which
    FileStack hands them out (a stack).
    -> list of (file, kind, name)"""
    argv = []
    for a in p.argv:                                     # a directory stands for the .circom files below it
        inside = sorted(n for n in p.files if n.startswith(os.path.normpath(a) + "/") and n.endswith(".circom"))
        argv += inside if a not in p.files and inside else [a]
    seen, order, stack = set(), [], list(argv)           # FileStack: the last file of the command line is read first
    while stack:
        name = stack.pop()
        name = os.path.normpath(name)
        if name in seen or name not in p.files:
            continue
        seen.add(name)
        order.append(name)
        incs = []
        for inc in INCLUDE.findall(p.files[name]):
            cands = [os.path.normpath(os.path.join(os.path.dirname(name), inc))] + [os.path.normpath(os.path.join(l, inc)) for l in p.libs]
            hit = next((c for c in cands if c in p.files), None)
            if hit:
                incs.append(hit)
        stack.extend(incs)
    return [(name, m.group(1), m.group(2)) for name in order for m in DEFINITION.finditer(p.files[name])]


def duplicated_names(p):
    """KF_duplicate_definition of the project, evaluated on its sources: the names defined more than once (a function and
    a template of the same name count: TemplateLibrary::new and the Merger keep one definition per NAME)"""
    names = [n for _, _, n in source_definitions(p)]
    return sorted({n for n in names if names.count(n) > 1})


ANON_CALL = re.compile(r"\b([A-Za-z_][A-Za-z_0-9]*)\s*\([^()]*\)\s*\(")


_ANON_CACHE = {}


def anon_callees(text):
    if text not in _ANON_CACHE:
        _ANON_CACHE[text] = sorted(set(ANON_CALL.findall(text)) - {"assert", "log"})
    return _ANON_CACHE[text]


def instantiated_names(st):
    """names of templates that the text of ANOTHER definition instantiates"""
    defs = [(d[1], d[2]) for f in st["files"] for d in f["defs"]]
    out = []
    for name, _ in defs:
        if name in STUB_NAMES:
            continue
        pat = re.compile(r"(=\s*|<==\s*)%s\s*\(" % re.escape(name))
        if any(n != name and pat.search(text) for n, text in defs):
            out.append(name)
    return out


def edit_body(text, line):
    """insert a line before the closing brace of a definition"""
    i = text.rstrip().rfind("}")
    return text[:i] + "    " + line + "\n" + text[i:]


def referenced_names(st):
    """name -> set of definitions (names) whose text mentions it"""
    defs = [(d[1], d[2]) for f in st["files"] for d in f["defs"]]
    refs = {}
    for name, _ in defs:
        refs[name] = {n for n, text in defs if n != name and re.search(r"\b%s\b" % re.escape(name), text)}
    return refs


def variants(ctx, st, k, extra_same=0):
    """(kind, structure, argv order) variants of a project structure."""
    rng = ctx.rng
    out = [("same", st, None)] * (4 + extra_same)
    for _ in range(2):
        s2 = copy.deepcopy(st)
        for f in s2["files"]:
            rng.shuffle(f["defs"])
        out.append(("definitions-permuted", s2, None))
    user = [f["name"] for f in st["files"] if f["user"]]
    if len(user) > 1:
        a = list(user)
        while a == user:
            rng.shuffle(a)
        out.append(("files-permuted", st, a))
        out.append(("files-permuted", st, list(reversed(user))))
    else:
        out.append(("same", st, None))
    # unrelated definitions added (fresh names, nobody references them; they may reference existing ones)
    s3 = copy.deepcopy(st)
    existing = [d[1] for f in st["files"] for d in f["defs"] if d[0] == "template" and d[1] not in STUB_NAMES]
    for j, f in enumerate(s3["files"]):
        if rng.random() < 0.8:
            name = "Extra%d_%d" % (k, j)
            feats = [rng.choice(e2e.TEMPLATE_FEATURES) for _ in range(rng.randint(1, 4))]
            f["defs"].insert(rng.randint(0, len(f["defs"])), ("template", name, e2e.template_text(rng, name, feats, existing)))
            fname = "extraf%d_%d" % (k, j)
            f["defs"].insert(rng.randint(0, len(f["defs"])), ("function", fname, e2e.function_text(rng, fname, rng.sample(e2e.FUNCTION_FEATURES, 2))))
    out.append(("definitions-added", s3, None))
    # unreferenced definitions removed
    refs = referenced_names(st)
    mains_all = " ".join(f["main"] or "" for f in st["files"])
    s4 = copy.deepcopy(st)
    removed = set()
    for f in s4["files"]:
        keep = []
        for d in f["defs"]:
            main_uses = f["main"] and re.search(r"\b%s\b" % re.escape(d[1]), f["main"])
            if not refs.get(d[1]) and not main_uses and rng.random() < 0.5 and d[1] not in STUB_NAMES:
                removed.add(d[1])
            else:
                keep.append(d)
        f["defs"] = keep
    if removed:
        out.append(("definitions-removed", s4, None))
    # a FILE added to the command line (fresh names, nobody references them) ...
    s6 = copy.deepcopy(st)
    defs6 = []
    for j in range(rng.randint(1, 3)):
        name = "FileX%d_%d" % (k, j)
        feats = [rng.choice(e2e.TEMPLATE_FEATURES) for _ in range(rng.randint(1, 4))]
        defs6.append(("template", name, e2e.template_text(rng, name, feats, existing)))
    if rng.random() < 0.5:
        defs6.append(("function", "filexf%d" % k, e2e.function_text(rng, "filexf%d" % k, rng.sample(e2e.FUNCTION_FEATURES, 2))))
    s6["files"].insert(rng.randint(0, len(s6["files"])),
                       {"name": "userx.circom", "user": True, "pragma": rng.random() < 0.8, "includes": [], "defs": defs6, "main": None})
    out.append(("file-added", s6, None))
    # ... and a file taken off it: one that nobody includes, none of whose definitions is referenced from another file, and
    # whose includes the remaining files of the command line make too
    ufiles = [f for f in st["files"] if f["user"]]
    for f in ufiles if len(ufiles) > 1 else []:
        rest = [g for g in st["files"] if g is not f]
        if f["main"] or any(f["name"] in g["includes"] for g in rest):
            continue
        if not set(f["includes"]) <= {i for g in rest if g["user"] for i in g["includes"]}:
            continue
        own = {d[1] for d in f["defs"]}
        if any(refs.get(d[1], set()) - own for d in f["defs"]) or any(re.search(r"\b%s\b" % re.escape(n), mains_all) for n in own):
            continue
        s7 = copy.deepcopy(st)
        s7["files"] = [g for g in s7["files"] if g["name"] != f["name"]]
        out.append(("file-removed", s7, None))
        break
    # the user files in a DIRECTORY that is named on the command line instead of them (fs::read_dir order decides the FileIDs):
    # possible when their includes do not depend on where they lie
    if st.get("libdir") or not any(f["includes"] for f in st["files"] if f["user"]):
        s8 = copy.deepcopy(st)
        s8["userdir"] = True
        out.append(("directory-argument", s8, None))
    # a REFERENCED definition changed: only the definitions that look it up (or instantiate it anonymously) may change
    cands = instantiated_names(st)
    mains = " ".join(f["main"] or "" for f in st["files"])
    kinds = ["referenced-interface", "referenced-body", "referenced-removed", "referenced-broken"]
    rng.shuffle(kinds)
    # ... and always the variant in which ONLY the inputs and parameters of a referenced template change: what a lookup of it
    # shows to unused_output_signal (its output signals and their dimensions) stays the same, so a definition that looks it up
    # through a declared component stays in the same (own text, answers) group of check (3) and must keep ALL its findings
    for kind in (kinds[:2] + ["referenced-inputs"]) if cands else []:
        target = rng.choice(cands)
        s5 = copy.deepcopy(st)
        for f in s5["files"]:
            nd = []
            for d in f["defs"]:
                if d[1] != target:
                    nd.append(d)
                elif kind == "referenced-interface":
                    nd.append((d[0], d[1], edit_body(d[2], "signal output zz9; zz9 <== in;")))
                elif kind == "referenced-body":
                    nd.append((d[0], d[1], edit_body(d[2], "var zq9 = 0; if (1 == 1) { zq9 = 1; } else { zq9 = 2; }")))
                elif kind == "referenced-broken":
                    nd.append((d[0], d[1], edit_body(d[2], "var yy9; var zy9 = yy9 + 1;")))
                elif kind == "referenced-inputs":
                    t2 = re.sub(r"(template\s+%s\s*\()([^)]*)\)" % re.escape(target),
                                lambda mm: mm.group(1) + (mm.group(2) + ", " if mm.group(2).strip() else "") + "zp9)", d[2], count=1)
                    nd.append((d[0], d[1], edit_body(t2, "signal input zi9; signal input zj9[2]; zi9 === zp9;")))
                elif re.search(r"\b%s\b" % re.escape(target), mains):
                    nd.append(d)         # the main component's template is not removed
            f["defs"] = nd
        out.append((kind, s5, None))
    return out


def deftexts(st):
    """{(kind, name): (file, text)} - the source level of Model.RunnerSrc (sp_defs with distinct keys: wf_sproject)"""
    return {(d[0], d[1]): (f["name"], d[2]) for f in st["files"] for d in f["defs"]}


def wf_sproject_holds(st):
    """wf_sproject of the structure, evaluated: no (kind, name) - in fact no NAME - is defined twice"""
    names = [d[1] for f in st["files"] for d in f["defs"]]
    return len(names) == len(set(names))


def execute_runs(cli, projects, runs):
    """e2e.execute_runs with the options a project carries: -L directories and --curve (meta["curve"])"""
    def one(i):
        r = runs[i]
        p = projects[r["p"]]
        sarif_path = os.path.join(p.dir, "out_%d.sarif" % i) if r["sarif"] else None
        args = e2e.cli_args(r["level"], r["allow"], r["verbose"], sarif_path, p.abs_libs(), p.meta.get("curve"))
        rc, out, err = e2e.run_cli(cli, p.abs_argv(), args, cwd=p.dir)
        r["exit"], r["events"], r["stderr"], r["sarif_path"] = rc, e2e.parse_stdout(out), err[-400:], sarif_path
        r["blocks"] = parse_blocks(out, p.dir)
        if sarif_path:
            r["sarif_doc"] = e2e.parse_sarif(sarif_path)
            try:
                os.remove(sarif_path)
            except OSError:
                pass
    e2e.pmap(one, range(len(runs)))
    return runs


# ---------------------------------------------------------------------------
# harness c17
# ---------------------------------------------------------------------------

def harness_lines(mode, projects, extra):
    hb = common.build_harness("c17")
    lines = []
    for p, x in zip(projects, extra):
        d = {"files": p.abs_argv(), "libs": p.abs_libs(), "curve": p.meta.get("curve") or "BN254"}
        d.update(x)
        lines.append(json.dumps(d))
    # run_lines cuts the lines into contiguous chunks: deal them out with a stride so that neighbours (the variants of one big
    # structure) land in different processes
    n, S = len(lines), common.NPROC
    perm = [i for r in range(S) for i in range(r, n, S)]
    out = common.run_lines(hb, [mode], [lines[i] for i in perm], shards=S, timeout=1500) if lines else []
    if len(out) != len(lines):
        raise common.BuildError("harness c17 %s: %d answers for %d projects" % (mode, len(out), len(lines)), "")
    res = [None] * n
    for i, l in zip(perm, out):
        res[i] = json.loads(l)
    return res


def norm_report(p, r):
    """the same shape as a finding of findings_of_run, from a report of the harness"""
    def lab(l):
        return (os.path.basename(l.get("path") or ""), GEN_NAME.sub(r"\1_#_#", l.get("text") or "?"), norm_msg(l.get("msg"), p.dir))

    def in_source_order(ls):
        return tuple(lab(l) for l in sorted(ls, key=lambda l: (os.path.basename(l.get("path") or ""), l.get("start") or 0, l.get("end") or 0)))
    return (r["id"], r["level"], norm_msg(r["message"], p.dir), in_source_order(r["primary"]), in_source_order(r["secondary"]),
            tuple(norm_msg(n, p.dir) for n in r.get("notes") or []))


def lookups_of(run, p):
    """{(kind, name): {"lookups": ((kind, name, answer-json), ..), "passes": normalised pass reports, "lifted": bool}} of one
    run of `c17 deps` on project p."""
    out = {}
    for d in (run or {}).get("defs", []):
        out[(d["kind"], d["name"])] = {
            "lifted": d["lifted"],
            "lookups": tuple((l["kind"], l["name"], json.dumps(l["answer"])) for l in d["lookups"]),
            "passes": sorted(norm_report(p, r) for r in d["pass_reports"]),
        }
    return out


def miss_probability(n, q):
    """probability that n independent hash states all show the same one of two outcomes of relative frequency q / 1-q"""
    return q ** n + (1 - q) ** n


# ---------------------------------------------------------------------------
# the check
# ---------------------------------------------------------------------------

REF_KINDS = ("referenced-interface", "referenced-body", "referenced-removed", "referenced-broken", "referenced-inputs")


def context_dependent_ids(repo):
    """The report ids whose findings can depend on OTHER definitions, read from the current source: the entries of
    program_analysis/src/lib.rs get_analysis_passes that do not ignore their AnalysisContext argument (every entry that is not
    a closure `|_, cfg| ...`), the ReportCode variants their modules construct, and the ids report_code.rs gives those variants.
    -> (sorted ids, {module: [ids]}).  Raises BuildError when the source no longer has the expected shape."""
    src = open(os.path.join(repo, "program_analysis", "src", "lib.rs"), encoding="utf-8").read()
    m = re.search(r"pub fn get_analysis_passes\(\)[^{]*\{\s*vec!\[(.*?)\n    \]", src, re.S)
    if not m:
        raise common.BuildError("C17: get_analysis_passes of program_analysis/src/lib.rs has an unexpected shape", "")
    body = re.sub(r"//[^\n]*", "", m.group(1))
    entries = [e.strip() for e in re.findall(r"Box::new\((.*?)\),\s*(?=Box::new|$)", body, re.S)]
    if len(entries) < 5 or len(entries) != body.count("Box::new("):
        raise common.BuildError("C17: cannot cut the entries of get_analysis_passes (%d cut, %d Box::new)"
                                % (len(entries), body.count("Box::new(")), "")
    codes = open(os.path.join(repo, "program_structure", "src", "program_library", "report_code.rs"), encoding="utf-8").read()
    idm = re.search(r"pub fn id\(&self\) -> String \{(.*?)\n    \}", codes, re.S)
    id_of = dict(re.findall(r"(\w+) => \"(\w+)\"", idm.group(1))) if idm else {}
    mods = {}
    for e in entries:
        if re.match(r"\|\s*_\s*,\s*\w+\s*\|", e):
            continue                                  # the closure drops the context
        mm = re.findall(r"\b([a-z_0-9]+)::[a-z_0-9]+", e)
        if not mm:
            raise common.BuildError("C17: analysis pass entry `%s` names no module" % e[:80], "")
        for mod in mm:
            path = os.path.join(repo, "program_analysis", "src", mod + ".rs")
            text = open(path, encoding="utf-8").read()
            text = text.split("#[cfg(test)]")[0]
            variants = sorted(set(re.findall(r"ReportCode::(\w+)", text)))
            ids = [id_of.get(v) for v in variants]
            if not variants or None in ids:
                raise common.BuildError("C17: report codes of pass module %s not found (%s)" % (mod, variants), "")
            mods[mod] = ids
    return sorted({i for v in mods.values() for i in v}), mods


def compare(ref, got, kind, A, B, infl_a, infl_b, ctx_ids=("CS0018",), stats=None, ignore_files=()):
    """Compares the findings of a base project (ref) and a variant (got).
    A, B: {(kind, name): (file, text)}; infl_x: {(kind, name): set of names that may influence it}.
    -> (list of owners whose findings differ although nothing they reference changed,
        number of common definitions that changed through a changed reference,
        number of common definitions that were allowed to change)"""
    changed = {o[1] for o in set(A) | set(B) if A.get(o) != B.get(o)}
    bad, moved, allowed = [], 0, 0
    common_defs = [o for o in A if o in B and A[o] == B[o]]
    # whether a definition EXISTS for the runner (survives the desugarer) and what a lookup of it answers is a function of its
    # own text and of the texts of the templates it instantiates anonymously (the desugarer reads their signals from the
    # immutable input map) ...
    status_touched = set()
    for o in set(A) | set(B):
        anon = set(anon_callees((A.get(o) or B.get(o))[1])) | set(anon_callees((B.get(o) or A.get(o))[1]))
        if A.get(o) != B.get(o) or (anon & changed):
            status_touched.add(o)
    st_names = {o[1] for o in status_touched}
    # ... and its findings are a function of that and of the answers to its lookups: the references of a definition are
    # followed transitively, lookup edge first, then anonymous-instantiation edge
    touched = set(status_touched)
    for o in set(A) | set(B):
        infl = infl_a.get(o, set()) | infl_b.get(o, set())
        if infl & (changed | st_names):
            touched.add(o)
    for o in sorted(common_defs):
        a, b = ref.get(o, []), got.get(o, [])
        if o in status_touched:
            # its own text, or the text of a template it instantiates ANONYMOUSLY (the desugarer copies that template's
            # signals into its body) changed: every finding may change
            allowed += 1
            if a != b:
                moved += 1
        elif o in touched:
            # only the answer to a lookup can have changed: only the findings of the passes that receive the context
            # (ctx_ids: unused_output_signal) may change; every other finding must stay
            allowed += 1
            if a != b:
                moved += 1
            if stats is not None:
                stats["lookup_only"] = stats.get("lookup_only", 0) + 1
                if [x for x in a if x[0] not in ctx_ids]:
                    stats["lookup_only_with_other_findings"] = stats.get("lookup_only_with_other_findings", 0) + 1
            if [x for x in a if x[0] not in ctx_ids] != [x for x in b if x[0] not in ctx_ids]:
                bad.append(o)
        elif a != b:
            bad.append(o)
    # parse-stage findings (they include the desugarer's per-definition errors)
    pa, pb = list(ref.get(("parse",), [])), list(got.get(("parse",), []))
    if kind in ("same", "definitions-permuted", "files-permuted", "directory-argument"):
        if pa != pb:
            bad.append(("parse",))
    else:
        texts = [t[1] for o in touched for t in (A.get(o), B.get(o)) if t]

        def located_in_touched(x):
            # ... or in a file that was added to / taken off the command line (its pragma warning, its include errors)
            labs = (x[3] if len(x) > 3 else ()) + (x[4] if len(x) > 4 else ())
            if any(("/" + f + "`") in x[2] or ("/" + f + '"') in x[2] for f in ignore_files):
                return True          # label-less reports that name the file in their message (no version pragma)
            return any(l[0] in ignore_files or (l[1] != "?" and any(l[1] in t for t in texts)) for l in labs)
        ra = sorted(x for x in pa if not located_in_touched(x))
        rb = sorted(x for x in pb if not located_in_touched(x))
        if ra != rb:
            bad.append(("parse",))
    return bad, moved, allowed


def compare_self_test():
    """compare() on hand-made data: a definition whose looked-up (not anonymously instantiated) template changed may change in
    CS0018 only.  -> list of what went wrong."""
    T0, T1 = ("f.circom", "template T(n) { signal output a; }"), ("f.circom", "template T(n) { signal output a; signal output b; }")
    U = ("f.circom", "template U(n) { component k = T(1); }")
    W = ("f.circom", "template W(n) { signal x <== T(1)(); }")
    A = {("template", "T"): T0, ("template", "U"): U, ("template", "W"): W}
    B = {("template", "T"): T1, ("template", "U"): U, ("template", "W"): W}
    infl = {("template", "U"): {"T"}, ("template", "W"): {"T"}, ("template", "T"): set()}
    f18 = ("CS0018", "warning", "m", (), ())
    f05 = ("CS0005", "warning", "m", (), ())
    out = []
    bad, moved, allowed = compare({("template", "U"): [f05]}, {("template", "U"): [f05, f18]}, "referenced-interface", A, B, infl, infl)
    if bad or moved != 1:
        out.append("a CS0018 change of a definition whose looked-up template changed is not allowed: %s" % bad)
    bad, _, _ = compare({("template", "U"): [f05]}, {("template", "U"): [f18]}, "referenced-interface", A, B, infl, infl)
    if ("template", "U") not in bad:
        out.append("a CS0005 change of a definition whose looked-up template changed is not reported")
    bad, _, _ = compare({("template", "W"): [f05]}, {("template", "W"): []}, "referenced-interface", A, B, infl, infl)
    if bad:
        out.append("a definition that instantiates the changed template anonymously is not exempt: %s" % bad)
    B2 = dict(A)
    B2[("template", "X")] = ("f.circom", "template X(n) { signal output a; }")
    bad, _, _ = compare({("template", "U"): [f05]}, {("template", "U"): []}, "definitions-added", A, B2, infl, infl)
    if ("template", "U") not in bad:
        out.append("a change of a definition none of whose references changed is not reported")
    return out


CLOCK = re.compile(r"Instant::now|SystemTime::now|\.elapsed\(\)|UNIX_EPOCH")
CLOCK_ALLOWED = ("program_structure/src/control_flow_graph/cfg.rs",)       # the 10 s box of value / degree propagation (C20)


def clock_reads(repo):
    """Where the code of the pipeline reads a clock (comments and test modules cut off): a finding that depends on elapsed time
    is not a function of the sources.  -> {relative file: number of reads}"""
    out = {}
    for top in ("program_analysis/src", "program_structure/src", "parser/src", "cli/src", "circom_algebra/src"):
        for d, _, fs in os.walk(os.path.join(repo, top)):
            for f in fs:
                if not f.endswith(".rs"):
                    continue
                path = os.path.join(d, f)
                try:
                    text = open(path, encoding="utf-8").read()
                except (OSError, UnicodeDecodeError):
                    continue
                text = re.sub(r"//[^\n]*", "", text.split("#[cfg(test)]")[0])
                n = len(CLOCK.findall(text))
                if n:
                    out[os.path.relpath(path, repo)] = n
    return out


def only_in(a, b, n=2):
    """the findings of list a that list b lacks (multiset), spelled out with their labelled texts and notes"""
    rest = list(b)
    out = []
    for x in a:
        if x in rest:
            rest.remove(x)
        else:
            out.append({"id": x[0], "message": x[2][:80], "primary": [l[1][:60] for l in x[3]] if len(x) > 3 else [],
                        "secondary": [l[1][:60] for l in x[4]] if len(x) > 4 else [], "notes": list(x[5]) if len(x) > 5 else []})
    return out[:n]


def analysis_order_of(events):
    out = []
    for e in events:
        if e[0] == "log":
            m = OWNER_LINE.match(e[1])
            if m:
                out.append((m.group(1), m.group(2)))
    return out


def context_ids_by_execution(deps_answers):
    """Which report ids can depend on OTHER definitions, observed by running the passes: the ids of the reports returned by
    a pass (position in get_analysis_passes()) that put at least one question to its AnalysisContext, over every definition
    of every project of this run (harness `c17 deps`, field per_pass).  -> (sorted ids, sorted pass positions)"""
    ids, passes = set(), set()
    for d in deps_answers:
        for r in d.get("runs", []):
            for x in r.get("defs", []):
                for i, pp in enumerate(x.get("per_pass", [])):
                    if pp.get("questions"):
                        passes.add(i)
                        ids |= set(pp.get("ids", []))
    return sorted(ids), sorted(passes)


def texts_list(t):
    return [[o[0], o[1], v[0], v[1]] for o, v in sorted(t.items())]


def texts_dict(l):
    return {(x[0], x[1]): (x[2], x[3]) for x in l or []}


def influence_of(texts, lk):
    out = {}
    for o, (_, text) in texts.items():
        s = set(anon_callees(text))
        if o in lk:
            s |= {l[1] for l in lk[o]["lookups"]}
        out[o] = s
    return out


def changed_files(pa, pb):
    return {os.path.basename(n) for n in set(pa.files) ^ set(pb.files)}


def model_tie(projects, runs, idxs):
    """Model.Runner (extracted, engine e2e: ground truth collected in process, the runner's report path in Gallina) against
    the binary, on C17's own projects and options.  -> (number judged, disagreements, failures)"""
    by_curve = {}
    for i in idxs:
        by_curve.setdefault(projects[i].meta.get("curve") or "BN254", []).append(i)
    dis, fail, n = [], [], 0
    for curve, ii in sorted(by_curve.items()):
        truths = [e2e.Truth(t) for t in e2e.ground_truth([projects[i] for i in ii], curve)]
        # the ORDER of the labels inside a report (and inside a SARIF result) is a hash order for some reports (CS0005: a
        # HashSet of constraints) and is not displayed (codespan renders by position): labels are compared as sets here
        lkey = lambda l: (str(l.get("path")), l.get("sl") or 0, l.get("sc") or 0, l.get("el") or 0, l.get("ec") or 0, str(l.get("msg")))
        for t in truths:
            for rep, _ in t.payload:
                for side in ("primary", "secondary"):
                    if isinstance(rep.get(side), list):
                        rep[side].sort(key=lkey)
        tkey = lambda l: tuple((x is None, x if x is not None else 0) if not isinstance(x, str) else (False, x) for x in l)
        rr = []
        for j, i in enumerate(ii):
            r = dict(runs[i])
            doc = r.get("sarif_doc")
            if doc and not doc.get("bad"):
                doc = dict(doc)
                doc["results"] = [dict(x, tuple=x["tuple"][:3] + (tuple(sorted(x["tuple"][3], key=tkey)), tuple(sorted(x["tuple"][4], key=tkey))))
                                  for x in doc["results"]]
                r["sarif_doc"] = doc
            r["p"] = j
            # e2e reads the announcement of a definition with its own strict pattern: hand it the canonical wording
            r["events"] = [("log", "analyzing %s '%s'" % OWNER_LINE.match(e[1]).groups()) if e[0] == "log" and OWNER_LINE.match(e[1]) else e
                           for e in r["events"]]
            rr.append(r)
        e2e.run_model(truths, rr)
        for r, i in zip(rr, ii):
            d, f = e2e.judge(truths, r)
            n += 1
            if d:
                dis.append({"project": projects[i].describe(), "kind": "model-runner", "what": "; ".join(d)[:500]})
            if f:
                fail.append({"project": projects[i].describe(), "kind": "model-runner-spec", "what": "; ".join(f)[:500]})
    return n, dis, fail


def run(ctx, proofs):
    quick = ctx.tier == "quick"
    try:
        src_ids, src_mods = context_dependent_ids(common.REPO)
        reader_note = None
    except (common.BuildError, OSError, AttributeError, KeyError) as e:
        # the source reader is a cross-check only: the ids are OBSERVED below (context_ids_by_execution)
        src_ids, src_mods, reader_note = [], {}, "source reader gave up: %s" % str(e)[:200]
    cli = common.build_cli()
    common.build_harness("c17")
    base = e2e.scratch_dir("C17")
    try:
        nproj = 150 if quick else 750            # thorough: 1000 structures took 18.6 min at load 60 (third audit: more variants)
        nbig = 3 if quick else 8
        extra_same = 0 if quick else 8          # more fresh processes per case in thorough
        reps = 8 if quick else 32               # in-process repetitions (fresh thread = fresh hasher keys) of every base project
        reps_variant = 6 if quick else 8        # ... and of every other distinct project text
        feats_seen = {}
        structures = [gen_structure(ctx.rng, i, rich=(i % 3 != 0), feats_seen=feats_seen, big=(i < nbig)) for i in range(nproj)]
        projects, info, texts = [], [], []          # info: (structure index, variant kind); texts: {(kind, name): (file, text)}
        wf_s_cases = wf_s_unmet = 0
        for k, st in enumerate(structures):
            for kind, s2, argv in variants(ctx, st, k, extra_same):
                projects.append(render(s2, tag="s%d-%s" % (k, kind), argv=argv))
                projects[-1].meta["defs"] = sorted([d[0], d[1]] for f in s2["files"] for d in f["defs"])
                texts.append(deftexts(s2))
                info.append((k, kind))
                wf_s_cases += 1
                if not wf_sproject_holds(s2):
                    wf_s_unmet += 1
        # regression corpus: fixed witnesses, run 8 times each in fresh processes (the witness of the repaired defect D22 is one
        # of them: it has no special treatment any more)
        corpus = e2e.load_corpus("C17")
        cstart = len(projects)
        for rec in corpus:
            for _ in range(8):
                p = e2e.project_from_description(rec)
                p.meta = dict(rec.get("meta", {}), corpus=rec["_file"])
                projects.append(p)
                texts.append({})
                info.append(("corpus:" + rec["_file"], "same"))
        # duplicated names: 8 fresh processes each + for every order of the project's files the project in which only the first
        # definition of a name in THAT order is left (which order is the tool's is read from its FileIDs, harness `c17 deps`)
        dups = dup_projects(ctx.rng)
        dup_idx = []                         # (spec, indices of the 8 copies, {file order: (index of the reduced project, deleted)})
        for j, spec in enumerate(dups):
            ii = []
            for _ in range(8):
                projects.append(dup_render(spec, j)[0])
                texts.append({})
                info.append((("dup", j), "same"))
                ii.append(len(projects) - 1)
            cands = {}
            for order in itertools.permutations(sorted(spec["files"])):
                pr, ndel = dup_render(spec, j, list(order))
                projects.append(pr)
                texts.append({})
                info.append((("dup", j), "reduced"))
                cands[order] = (len(projects) - 1, ndel)
            dup_idx.append((spec, ii, cands))
        for i, p in enumerate(projects):
            p.write(base, i)
        runs = [{"p": i, "level": "info", "allow": [], "verbose": True, "sarif": True} for i in range(len(projects))]
        execute_runs(cli, projects, runs)
        common.log("C17: %d runs of the binary done" % len(runs))
        groups = {}
        for i, (k, kind) in enumerate(info):
            groups.setdefault(k, []).append(i)

        # ---- the real runner in process: lookups (deps), many hash states (orders), every analysis order (allorders)
        distinct = []                    # one representative index per distinct project content, per group
        rep_of = {}
        for k, idxs in groups.items():
            seen = {}
            for i in idxs:
                key = (json.dumps(projects[i].files, sort_keys=True), tuple(projects[i].argv))
                if key not in seen:
                    seen[key] = i
                    distinct.append(i)
                rep_of[i] = seen[key]
        small_budget = 40 if quick else 300
        dep_extra = []
        perm_cases = {}
        for i in distinct:
            x = {}
            ud = [tuple(d) for d in projects[i].meta.get("defs", [])] if info[i][1] == "same" and isinstance(info[i][0], int) else []
            user_files = set(projects[i].argv)
            ud = [d for d in ud if texts[i].get(d, ("",))[0] in user_files]
            if 2 <= len(ud) <= 4 and small_budget > 0:
                small_budget -= 1
                perms = [list(map(list, p)) for p in itertools.permutations(sorted(ud))]
                x["orders"] = perms
                perm_cases[i] = perms
            dep_extra.append(x)
        deps = dict(zip(distinct, harness_lines("deps", [projects[i] for i in distinct], dep_extra)))
        common.log("C17: harness c17 deps done (%d projects)" % len(distinct))
        orders = dict(zip(distinct, harness_lines("orders", [projects[i] for i in distinct],
                                                  [{"reps": (16 if isinstance(info[i][0], tuple) else reps) if info[i][1] == "same"
                                                    else reps_variant} for i in distinct])))
        common.log("C17: harness c17 orders done (%d projects x %d / %d repetitions)" % (len(distinct), reps, reps_variant))
        exec_ids, exec_passes = context_ids_by_execution(deps.values())
        ctx_ids = sorted(set(exec_ids) | set(src_ids))

        def maps_of(j):
            m = deps[j].get("maps")
            return m if isinstance(m, dict) else None
        # every order of the name maps through the REAL analyze_functions / analyze_templates (small maps)
        ao_budget = 60 if quick else 400
        ao_cases = []
        for i in distinct:
            m = maps_of(i)
            if not m or info[i][1] != "same" or isinstance(info[i][0], str):
                continue
            want = math.factorial(len(m["user_functions"])) * math.factorial(len(m["user_templates"]))
            if 2 <= want <= 24 and (ao_budget > 0 or isinstance(info[i][0], tuple)):
                ao_budget -= 1
                ao_cases.append((i, want))
        ao = dict(zip([i for i, _ in ao_cases],
                      harness_lines("allorders", [projects[i] for i, _ in ao_cases], [{"want": w, "cap": 80 * w} for _, w in ao_cases])))
        common.log("C17: harness c17 allorders done (%d projects)" % len(ao_cases))

        failing, broken = [], []
        hyp_failing = []                 # unmet hypotheses: reported after the failures of the property itself
        compared, nontrivial, seen_orders = 0, 0, set()

        # ---- (0) the hypotheses of the theorems, evaluated per case on the sources and on the runner's maps
        hyp = {"KF_duplicate_definition_on_sources": {"cases": 0, "with_duplicated_names": 0},
               "wf_project_runner_maps": {"cases": 0, "unmet": 0}, "analysis_order": {"cases": 0, "unmet": 0},
               "wf_sproject_structures": {"cases": wf_s_cases, "unmet": wf_s_unmet},
               "unreferenced_extra_definitions": {"cases": 0, "unmet": 0}}
        dup_of = {}
        for i in distinct:
            dn = duplicated_names(projects[i])
            dup_of[i] = dn
            hyp["KF_duplicate_definition_on_sources"]["cases"] += 1
            if dn:
                hyp["KF_duplicate_definition_on_sources"]["with_duplicated_names"] += 1
            m = maps_of(i)
            if m:
                hyp["wf_project_runner_maps"]["cases"] += 1
                names = list(m["all_templates"]) + list(m["all_functions"])
                src_names = {n for _, _, n in source_definitions(projects[i])}
                if len(set(names)) != len(names) or not set(names) <= src_names:
                    hyp["wf_project_runner_maps"]["unmet"] += 1
                    hyp_failing.append({"project": projects[i].describe(), "kind": "hypothesis-wf_project",
                                    "what": "the name maps of the runner are not a one-definition-per-name selection of the "
                                            "definitions of the sources: templates %s functions %s, names in the sources %s "
                                            "(C17_library_is_well_formed, Model.RunnerLib)"
                                            % (m["all_templates"][:8], m["all_functions"][:8], sorted(src_names)[:12])})
        for i in range(len(runs)):
            m = maps_of(rep_of[i])
            if not m or runs[i]["exit"] not in (0, 1):
                continue
            hyp["analysis_order"]["cases"] += 1
            want_o = sorted([("function", n) for n in m["user_functions"]] + [("template", n) for n in m["user_templates"]])
            got_o = analysis_order_of(runs[i]["events"])
            if sorted(got_o) != want_o:
                hyp["analysis_order"]["unmet"] += 1
                hyp_failing.append({"project": projects[i].describe(), "kind": "hypothesis-analysis_order",
                                "what": "the definitions the binary announces (%s) are not a permutation of the user definitions of the "
                                        "runner's maps (%s): [analysis_order] of the runner theorems does not hold for this run"
                                        % (got_o[:8], want_o[:8])})
        # the hypothesis of C17_files_in_another_order (no name defined twice), on every project whose files are given in
        # another order / through a directory
        hyp["names_distinct_where_files_are_reordered"] = {
            "cases": len([i for i in distinct if info[i][1] in ("files-permuted", "directory-argument")]),
            "unmet": len([i for i in distinct if info[i][1] in ("files-permuted", "directory-argument") and dup_of[i]])}
        gen_dups = [i for i in distinct if isinstance(info[i][0], int) and dup_of[i]]
        if wf_s_unmet or gen_dups:
            broken.append({"project": projects[gen_dups[0]].describe() if gen_dups else None, "variant": None, "kind": "generator",
                           "what": "the structure generator defined a name twice (%d structures, %d projects): wf_sproject is unmet "
                                   "there and checks (2)/(3) would compare the wrong texts" % (wf_s_unmet, len(gen_dups))})

        # ---- (1) every analysis order through the real analyze_functions / analyze_templates (small maps)
        ao_projects = ao_orders = ao_incomplete = ao_reps = 0
        for i, want in ao_cases:
            a = ao[i]
            ao_reps += a.get("reps", 0)
            if a.get("panics") or "orders" not in a:
                failing.append({"project": projects[i].describe(), "kind": "analysis-orders",
                                "what": "the pipeline panicked in process (%s of %s repetitions)" % (a.get("panics"), a.get("reps"))})
                continue
            ao_projects += 1
            ao_orders += len(a["orders"])
            if len(a["orders"]) < want:
                ao_incomplete += 1
                broken.append({"project": projects[i].describe(), "variant": None, "kind": "analysis-orders-incomplete",
                               "what": "only %d of the %d orders of the two name maps were iterated in %d hash states (cap %d): `every order "
                                       "through the real analyze_templates` is not met for this project" % (len(a["orders"]), want, a.get("reps", 0), 80 * want)})
            for o in a["orders"]:
                seen_orders.add((i, o["order"]))
            if len(a["outcomes"]) > 1:
                fa = findings_of_outcome(projects[i], a["outcomes"][0])[1]
                fb = findings_of_outcome(projects[i], a["outcomes"][1])[1]
                o2 = next((x for x in sorted(set(fa) | set(fb)) if fa.get(x) != fb.get(x)), ("?",))
                both = next((o["order"] for o in a["orders"] if len(o["outcomes"]) > 1), None)
                oa = next((o["order"] for o in a["orders"] if 0 in o["outcomes"]), "?")
                ob = next((o["order"] for o in a["orders"] if 1 in o["outcomes"]), "?")
                where = ("the SAME analysis order [%s] gives both (the dependence is on the hash state inside a stage, not on the order "
                         "of the name maps)" % both[:200]) if both else "the first under the order [%s], the second under [%s]" % (oa[:200], ob[:200])
                failing.append({"project": projects[i].describe(), "kind": "analysis-orders",
                                "what": "AnalysisRunner::analyze_functions / analyze_templates give %d different finding multisets over "
                                        "%d analysis orders (%d hash states): findings of %s - only in one outcome %s, only in another %s; %s"
                                        % (len(a["outcomes"]), len(a["orders"]), a["reps"], " ".join(o2), only_in(fa.get(o2, []), fb.get(o2, [])),
                                           only_in(fb.get(o2, []), fa.get(o2, [])), where)})
        # ---- (1b) the ANSWERS to the lookups under every order of take / passes / replace (harness deps)
        perm_orders, perm_projects = 0, 0
        for i, perms in perm_cases.items():
            rs = deps[i].get("runs", [])
            if len(rs) != len(perms) or any(r.get("panic") for r in rs):
                failing.append({"project": projects[i].describe(), "kind": "lookup-orders",
                                "what": "the real runner panicked or gave %d answers for %d analysis orders" % (len(rs), len(perms))})
                continue
            perm_projects += 1
            perm_orders += len(perms)
            first = lookups_of(rs[0], projects[i])
            for perm, r in zip(perms[1:], rs[1:]):
                got = lookups_of(r, projects[i])
                if got != first:
                    o = next(o for o in sorted(set(first) | set(got)) if first.get(o) != got.get(o))
                    failing.append({"project": projects[i].describe(), "kind": "lookup-orders",
                                    "what": "lookup answers / pass reports of %s depend on the order in which the real runner analyses "
                                            "the definitions: order %s gives %s, order %s gives %s"
                                            % (" ".join(o), perms[0], str(first.get(o))[:300], perm, str(got.get(o))[:300])})
                    break

        # a panic (or an unusable answer) of the real runner under `c17 deps` leaves no lookups: checks (2) and (3) cannot be
        # made for that project, so it is a failure, never a silent skip
        deps_unusable = 0
        for i in distinct:
            rs = deps[i].get("runs", [])
            if i in perm_cases and (len(rs) != len(perm_cases[i]) or any(r.get("panic") for r in rs)):
                deps_unusable += 1
                continue                  # reported by (1b)
            if not rs or rs[0].get("panic") or "defs" not in rs[0]:
                deps_unusable += 1
                failing.append({"project": projects[i].describe(), "kind": "deps",
                                "what": "the real runner, driven as analyze_template / analyze_function drive it (harness `c17 deps`), %s: "
                                        "the lookups of this project are not known and its definitions cannot be checked"
                                        % ("panicked" if rs and rs[0].get("panic") else "gave no answer (%s)" % str(deps[i])[:200])})

        infl_cache = {}

        def influencers(i):
            """{(kind, name): names that may influence its findings} of project i: the templates the real runner was asked
            for while it was analysed + the templates it instantiates anonymously (desugaring reads their signals)."""
            j = rep_of[i]
            if j in infl_cache:
                return infl_cache[j]
            rs = deps[j].get("runs", [])
            lk = lookups_of(rs[0], projects[j]) if rs and not rs[0].get("panic") else {}
            infl_cache[j] = (influence_of(texts[i], lk), lk)
            return infl_cache[j]

        def inproc_of(j, group_failures=True):
            """the one outcome of the in-process repetitions of project j, or None (more than one outcome / panic: reported)"""
            o = orders[j]
            outs = o.get("outcomes", [])
            for x in o.get("analysis_orders", []):
                seen_orders.add((j, x))
            if len(outs) != 1:
                a = findings_of_outcome(projects[j], outs[0]["outcome"])[1] if outs else {}
                b = findings_of_outcome(projects[j], outs[1]["outcome"])[1] if len(outs) > 1 else {}
                o2 = next((x for x in sorted(set(a) | set(b)) if a.get(x) != b.get(x)), ("?",))
                failing.append({"project": projects[j].describe(), "kind": "in-process-hash-states",
                                "what": "%d repetitions of the pipeline in one process (fresh hasher keys each) gave %d different "
                                        "finding multisets (%s); findings of %s: %s vs %s"
                                        % (o.get("reps", 0), len(outs), [x["count"] for x in outs], " ".join(o2),
                                           only_in(a.get(o2, []), b.get(o2, [])), only_in(b.get(o2, []), a.get(o2, [])))})
                return None
            okp, f = findings_of_outcome(projects[j], outs[0]["outcome"])
            if not okp:
                failing.append({"project": projects[j].describe(), "kind": "in-process-hash-states", "what": "the pipeline panicked in process"})
                return None
            return f

        # ---- (2) the binary in fresh processes + the in-process pipeline: variants against the base project
        moved_total, allowed_total = 0, 0
        inproc_runs, inproc_multi = 0, 0
        order_hist = {}
        memo = {}
        memo_keys = 0
        members = {}                 # key of check (3) -> {distinct project content: texts of the looked-up definitions}
        cmp_stats = {}
        refs_memo = {}
        shapes_seen = 0
        ids_seen = set()
        displayed_compared = 0
        max_secondary = {}           # report id -> largest number of secondary labels seen on one finding
        not_analysed = 0             # definitions of a project that the runner did not analyse (included only / dropped): no check (3)
        for k, idxs in groups.items():
            if isinstance(k, tuple):
                continue                 # duplicated names: check (5)
            ref_i = idxs[0]
            ok0, ref = findings_of_run(projects[ref_i], runs[ref_i])
            if not ok0:
                failing.append({"project": projects[ref_i].describe(), "what": "run failed or SARIF does not match stdout (exit %s)" % runs[ref_i]["exit"],
                                "kind": "same"})
                continue
            if any(ref.values()) and isinstance(k, int):
                nontrivial += 1
            ids_seen.update(x[0] for v in ref.values() for x in v)
            for v in ref.values():
                for x in v:
                    if len(x[4]) > max_secondary.get(x[0], 0):
                        max_secondary[x[0]] = len(x[4])
            A = texts[ref_i]
            is_corpus = isinstance(k, str)
            infl_a, lk_a = influencers(ref_i) if not is_corpus else ({}, {})
            if not is_corpus and structures[k].get("shapes"):
                shapes_seen += 1
            # in-process outcomes of every distinct content of the group
            inproc = {}
            for j in sorted({rep_of[i] for i in idxs}):
                o = orders[j]
                inproc_runs += o.get("reps", 0)
                if not is_corpus and info[j][1] == "same":
                    # relative iteration order of the two alphabetically first templates of the template map, per hash state
                    tos = [to.split() for to in o.get("template_orders", []) if to != "<panic>"]
                    ut = sorted(tos[0])[:2] if tos and len(tos[0]) >= 2 else None
                    for to in tos if ut else []:
                        key = "first<second" if to.index(ut[0]) < to.index(ut[1]) else "second<first"
                        order_hist[key] = order_hist.get(key, 0) + 1
                f = inproc_of(j)
                if f is None:
                    inproc_multi += 1
                else:
                    inproc[j] = f
            for i in idxs:
                okv, got = (ok0, ref) if i == ref_i else findings_of_run(projects[i], runs[i])
                kind = info[i][1]
                ids_seen.update(x[0] for v in got.values() for x in v)
                if kind == "directory-argument":
                    feats_seen["directory_argument"] = feats_seen.get("directory_argument", 0) + 1
                if i != ref_i:
                    compared += 1
                seen_orders.add((rep_of[i], " ".join("%s '%s'" % o for o in analysis_order_of(runs[i]["events"]))))
                if not okv:
                    failing.append({"project": projects[i].describe(), "what": "run failed or SARIF does not match stdout (exit %s)" % runs[i]["exit"], "kind": kind})
                    continue
                if i != ref_i and rep_of[i] == rep_of[ref_i]:
                    # the run-twice clause: the same files and options -> the same DISPLAYED diagnostics, labels with their
                    # positions and underlined lines and notes included (nothing normalised but the directory)
                    displayed_compared += 1
                    dd = displayed_difference(displayed_of_run(runs[ref_i]), displayed_of_run(runs[i]))
                    if dd:
                        failing.append({"project": projects[ref_i].describe(), "kind": "same-displayed",
                                        "what": "two runs of the binary on the same files and options display different diagnostics for %s "
                                                "(the findings agree up to labels / notes / positions or not at all):\n--- first run\n%s\n"
                                                "--- second run\n%s" % (" ".join(dd[0]), dd[1][:1500], dd[2][:1500])})
                        continue
                B = texts[i]
                infl_b, lk_b = influencers(i) if not is_corpus else ({}, {})
                ign = changed_files(projects[ref_i], projects[i])
                if kind in ("definitions-added", "file-added", "definitions-removed", "file-removed") and not is_corpus:
                    # the hypothesis of C17_unreferenced_definitions_irrelevant / C17_included_definitions_irrelevant, evaluated with
                    # the lookups the real runner recorded: no definition common to both projects looks up (or instantiates
                    # anonymously) a definition that only one of them has
                    only_one = {o[1] for o in set(A) ^ set(B)}
                    hyp["unreferenced_extra_definitions"]["cases"] += 1
                    refs_to = [o for o in set(A) & set(B) if (infl_a.get(o, set()) | infl_b.get(o, set())) & only_one]
                    if refs_to:
                        hyp["unreferenced_extra_definitions"]["unmet"] += 1
                        broken.append({"project": projects[ref_i].describe(), "variant": projects[i].describe(), "kind": "generator",
                                       "what": "variant `%s` was built to add / remove definitions nobody references, but %s references "
                                               "one of %s" % (kind, " ".join(refs_to[0]), sorted(only_one)[:6])})
                fams = [("binary", ref, got)]
                if rep_of[i] in inproc and rep_of[ref_i] in inproc and rep_of[i] != rep_of[ref_i]:
                    fams.append(("in-process", inproc[rep_of[ref_i]], inproc[rep_of[i]]))
                for fam, fa, fb in fams:
                    if is_corpus:
                        diff = [o for o in sorted(set(fa) | set(fb)) if fa.get(o, []) != fb.get(o, [])]
                        moved = allowed = 0
                    else:
                        diff, moved, allowed = compare(fa, fb, kind, A, B, infl_a, infl_b, ctx_ids,
                                                       cmp_stats if fam == "binary" else None, ignore_files=ign)
                    if fam == "binary":
                        moved_total += moved
                        allowed_total += allowed
                    if diff:
                        o = diff[0]
                        a, b = fa.get(o, []), fb.get(o, [])
                        failing.append({"project": projects[ref_i].describe(), "variant": projects[i].describe(), "kind": kind,
                                        "texts_a": texts_list(A), "texts_b": texts_list(B),
                                        "what": "findings of %s differ between two runs (%s, %s) although no definition it instantiates anonymously "
                                                "changed and either no definition it looks up changed or the findings are not those of a pass that "
                                                "receives the context: only in the first %s, only in the second %s"
                                                % (" ".join(o), kind, fam, [x for x in a if x not in b][:2], [x for x in b if x not in a][:2])})
                        break
                # ---- (3) findings are a function of (own source, answers to the lookups, anonymously instantiated sources)
                if not is_corpus:
                    for o, (fname, text) in B.items():
                        if o not in lk_b:
                            not_analysed += 1
                            continue         # not analysed (included only, or dropped by the desugarer)
                        anon = tuple((n, B.get(("template", n), (None, None))[1]) for n in anon_callees(text))
                        key = (k, fname, o, text, lk_b[o]["lookups"], anon)
                        val = (got.get(o, []), lk_b[o]["passes"])
                        # (3b) [s_refs] of the model: WHICH templates are looked up, in which order, is a function of the
                        # definition's own source (and of the sources it instantiates anonymously)
                        rkey = (k, fname, o, text, anon)
                        names = tuple((l[0], l[1]) for l in lk_b[o]["lookups"])
                        if rkey not in refs_memo:
                            refs_memo[rkey] = (names, i)
                        elif refs_memo[rkey][0] != names:
                            broken.append({"project": projects[refs_memo[rkey][1]].describe(), "variant": projects[i].describe(), "kind": kind,
                                           "what": "the lookups made while %s is analysed differ between two projects in which its source "
                                                   "text is the same: %s vs %s; Model.RunnerSrc takes s_refs as a function of the "
                                                   "definition's own source" % (" ".join(o), refs_memo[rkey][0], names)})
                        looked = tuple(sorted((n, (B.get(("template", n)) or (None, None))[1]) for n in {l[1] for l in lk_b[o]["lookups"]}))
                        members.setdefault(key, {})[rep_of[i]] = looked
                        if key not in memo:
                            memo[key] = (val, i, looked)
                            memo_keys += 1
                        elif memo[key][0] != val:
                            j = memo[key][1]
                            what = "findings" if memo[key][0][0] != val[0] else "pass reports (real runner, in process)"
                            rec = {"project": projects[j].describe(), "variant": projects[i].describe(), "kind": kind,
                                   "texts_a": texts_list(texts[j]), "texts_b": texts_list(B)}
                            if memo[key][2] == looked:
                                # the sources of everything it looks up are the same too: no model is needed to call this a failure
                                rec["what"] = ("%s of %s differ between two projects in which its source text and the source texts of all "
                                               "definitions it looks up or instantiates (%s) are the same"
                                               % (what, " ".join(o), [l[1] for l in lk_b[o]["lookups"]]))
                                rec["kind"] = "same-sources:" + kind
                                failing.append(rec)
                            else:
                                # the SOURCE of a looked-up definition differs while the recorded answer is the same: a pass that
                                # reads more of its callee than the answer records breaks the interface ASSUMED by the model,
                                # not (by itself) the property
                                rec["what"] = ("%s of %s differ between two projects in which its source text and the recorded answers "
                                               "to all its lookups (%s) are the same while the source of a looked-up definition differs: "
                                               "Model.RunnerSrc assumes the findings are a function of the answers as harness `c17 deps` "
                                               "records them (output signals with their numbers of dimensions)"
                                               % (what, " ".join(o), [l[1] for l in lk_b[o]["lookups"]]))
                                broken.append(rec)
        # ---- (4) the witness of C17_referenced_definition_matters, replayed on the real code
        wit_ok = None
        wpath = os.path.join(common.VERIF, "corpus", "C17", "witness", "referenced-definition-matters.json")
        if os.path.exists(wpath):
            w = json.load(open(wpath))
            wp = [e2e.project_from_description(w["with"]).write(base, len(projects) + 1),
                  e2e.project_from_description(w["without"]).write(base, len(projects) + 2)]
            wr = [{"p": i, "level": "info", "allow": [], "verbose": True, "sarif": True} for i in range(2)]
            execute_runs(cli, wp, wr)
            wf = [findings_of_run(p, r) for p, r in zip(wp, wr)]
            wd = harness_lines("deps", wp, [{}, {}])
            own = tuple(w["definition"])
            ids = [sorted(x[0] for x in f.get(own, [])) for _, f in wf]
            looked = [[(l["name"], l["answer"]) for d in (x.get("runs") or [{}])[0].get("defs", []) if (d["kind"], d["name"]) == own
                       for l in d["lookups"] if l["kind"] == "template"] for x in wd]
            wit_ok = (wf[0][0] and wf[1][0] and w["expect_only_with"] in ids[0] and w["expect_only_with"] not in ids[1]
                      and [a is not None for _, a in looked[0]] == [True] and [a is not None for _, a in looked[1]] == [False])
            if not wit_ok and not failing and not broken:
                ctx.violation("the witness of C17_referenced_definition_matters no longer shows on the real code: findings of %s with the "
                              "looked-up template present %s / absent %s, lookups %s / %s" % (" ".join(own), ids[0], ids[1], looked[0], looked[1]),
                              {"broken": "C17_referenced_definition_matters (coq/props/C17.v) vs unused_output_signal.rs",
                               "project": wp[0].describe(), "variant": wp[1].describe(), "kind": "witness"}, no_input=True)
        # ---- (5) duplicated names (D22 repaired): deterministic; analysed like the project in which only the first definition
        # of a name in FileID order is left (Model.RunnerLib; the FileID order is the TOOL's, read from its file library, not a
        # reading of FileStack); and the known finding C17-duplicate-name-file-order: the same files named in another order
        dup_stats = {"projects": len(dup_idx), "shapes": sorted({sp["shape"] for sp, _, _ in dup_idx}), "deterministic": 0,
                     "first_definition_kept": 0, "duplicate_reports_seen": 0, "file_id_orders_seen": {},
                     "pairs_in_two_command_line_orders": 0, "pairs_that_differ": 0, "duplicate_report_count_differs_from_deleted": 0}
        dup_findings = {}                    # index in dup_idx -> findings of the (deterministic) project
        for dj, (spec, ii, cands) in enumerate(dup_idx):
            res = [findings_of_run(projects[i], runs[i]) for i in ii]
            if not all(ok for ok, _ in res):
                failing.append({"project": projects[ii[0]].describe(), "kind": "duplicated-names",
                                "what": "run failed or SARIF does not match stdout (exits %s)" % [runs[i]["exit"] for i in ii]})
                continue
            dn = duplicated_names(projects[ii[0]])
            if not dn or any(duplicated_names(projects[ri]) for ri, _ in cands.values()):
                broken.append({"project": projects[ii[0]].describe(), "variant": None, "kind": "generator",
                               "what": "KF_duplicate_definition evaluated on the sources: %s for a project built to have a duplicated name, "
                                       "%s for its reduced projects" % (dn, [duplicated_names(projects[ri]) for ri, _ in cands.values()])})
                continue
            first = res[0][1]
            dd = next((d for d in (displayed_difference(displayed_of_run(runs[ii[0]]), displayed_of_run(runs[i])) for i in ii[1:]) if d), None)
            displayed_compared += len(ii) - 1
            if dd:
                failing.append({"project": projects[ii[0]].describe(), "kind": "same-displayed",
                                "what": "two runs of the binary on the same files (in which %s is defined more than once) display different "
                                        "diagnostics for %s:\n--- first run\n%s\n--- second run\n%s" % (dn, " ".join(dd[0]), dd[1][:1500], dd[2][:1500])})
                continue
            other = next((i for i, (_, f) in zip(ii, res) if f != first), None)
            fin = inproc_of(rep_of[ii[0]])
            inproc_runs += orders[rep_of[ii[0]]].get("reps", 0)
            if other is not None:
                f2 = res[ii.index(other)][1]
                o2 = next(x for x in sorted(set(first) | set(f2)) if first.get(x) != f2.get(x))
                failing.append({"project": projects[ii[0]].describe(), "kind": "duplicated-names",
                                "what": "two runs of the binary on the same files, in which %s is defined more than once, display different "
                                        "findings for %s: only in one %s, only in the other %s"
                                        % (dn, " ".join(o2), only_in(first.get(o2, []), f2.get(o2, [])), only_in(f2.get(o2, []), first.get(o2, [])))})
                continue
            if fin is None:
                continue                  # reported by inproc_of
            if fin != first:
                o2 = next(x for x in sorted(set(first) | set(fin)) if first.get(x) != fin.get(x))
                failing.append({"project": projects[ii[0]].describe(), "kind": "duplicated-names",
                                "what": "the binary and the pipeline in process display different findings for %s" % " ".join(o2)})
                continue
            dup_stats["deterministic"] += 1
            dup_findings[dj] = first
            # the order in which the TOOL numbered the files
            m = maps_of(rep_of[ii[0]])
            forder = tuple(os.path.relpath(f["path"], projects[rep_of[ii[0]]].dir) for f in (m or {}).get("files", []))
            if forder not in cands:
                broken.append({"project": projects[ii[0]].describe(), "variant": None, "kind": "duplicated-names-first-kept",
                               "what": "the files the tool numbered (%s) are not the files of the project (%s): the first-definition oracle "
                                       "cannot be evaluated" % (list(forder), sorted(spec["files"]))})
                continue
            key = "argv %s -> FileIDs %s" % (" ".join(spec["argv"]), " ".join(forder))
            dup_stats["file_id_orders_seen"][key] = dup_stats["file_id_orders_seen"].get(key, 0) + 1
            ri, ndel = cands[forder]
            okr, red = findings_of_run(projects[ri], runs[ri])
            if not okr:
                failing.append({"project": projects[ri].describe(), "kind": "duplicated-names", "what": "run of the reduced project failed"})
                continue
            # oracle: per definition the findings of the project without the later definitions
            bad_o = [o for o in sorted(set(first) | set(red)) if o != ("parse",) and first.get(o, []) != red.get(o, [])]
            extra = list(first.get(("parse",), []))
            for x in red.get(("parse",), []):
                if x in extra:
                    extra.remove(x)
            missing = [x for x in red.get(("parse",), []) if x not in first.get(("parse",), [])]
            dup_stats["duplicate_reports_seen"] += len(extra)
            if len(extra) != ndel:
                dup_stats["duplicate_report_count_differs_from_deleted"] += 1     # (merging them is not C17's business)
            if bad_o or missing or not 1 <= len(extra) <= ndel or len({x[0] for x in extra}) > 1:
                # which other choice of kept definitions, if any, the tool follows: deterministic-but-different is a change of
                # SHAPE (Model.RunnerLib no longer mirrors the code), not a failing input of C17
                alt = None
                for order2, (ri2, _) in cands.items():
                    ok2, red2 = findings_of_run(projects[ri2], runs[ri2])
                    if ok2 and order2 != forder and not [o for o in set(first) | set(red2) if o != ("parse",) and first.get(o, []) != red2.get(o, [])]:
                        alt = order2
                rec = {"project": projects[ii[0]].describe(), "variant": projects[ri].describe(), "kind": "duplicated-names-first-kept",
                       "what": "a project in which %s is defined more than once is not analysed like the project without the LATER "
                               "definitions (files in FileID order %s, then source order): findings of %s differ (only with duplicates %s, only "
                               "without %s); parse-stage findings only with duplicates %s (expected 1..%d reports of one kind), only without %s%s"
                               % (dn, list(forder), [" ".join(o) for o in bad_o][:3],
                                  only_in(first.get(bad_o[0], []), red.get(bad_o[0], [])) if bad_o else "",
                                  only_in(red.get(bad_o[0], []), first.get(bad_o[0], [])) if bad_o else "", [x[:3] for x in extra][:3], ndel,
                                  [x[:3] for x in missing][:2],
                                  "; it IS analysed like the project that keeps the first definitions in the order %s: the tool is "
                                  "deterministic but Model.RunnerLib (first in FileID order) no longer mirrors it" % list(alt) if alt else "")}
                (broken if alt else failing).append(rec)
                continue
            dup_stats["first_definition_kept"] += 1
        # the known finding: the same files, both named on the command line, in the two orders
        kf_rec = [x for x in ctx.known if x["id"] == "C17-duplicate-name-file-order"]
        pairs = {}
        for dj, (spec, ii, cands) in enumerate(dup_idx):
            if spec["pair"] is not None and dj in dup_findings:
                pairs.setdefault(spec["pair"], []).append(dj)
        for pk, djs in sorted(pairs.items()):
            if len(djs) != 2:
                continue
            dup_stats["pairs_in_two_command_line_orders"] += 1
            (spa, iia, _), (spb, iib, _) = dup_idx[djs[0]], dup_idx[djs[1]]
            fa, fb = dup_findings[djs[0]], dup_findings[djs[1]]
            pa = projects[iia[0]]
            # the class: names defined in two files that are both named on the command line ...
            per_file = {}
            for fname, _, n in source_definitions(pa):
                per_file.setdefault(n, set()).add(fname)
            kf_names = {n for n, fs in per_file.items() if len(fs & set(pa.argv)) >= 2}
            # ... and the definitions that look such a name up or instantiate it (recorded lookups of both orders + the texts)
            allowed = {o for o in set(fa) | set(fb) if o != ("parse",) and o[1] in kf_names}
            for j2 in (rep_of[iia[0]], rep_of[iib[0]]):
                rs = deps[j2].get("runs", [])
                lk = lookups_of(rs[0], projects[j2]) if rs and not rs[0].get("panic") else {}
                allowed |= {o for o, v in lk.items() if {l[1] for l in v["lookups"]} & kf_names}
            for fname, (head, defs, tail) in spa["files"].items():
                for dname, text in defs:
                    if any(re.search(r"\b%s\s*\(" % re.escape(n), text.split("{", 1)[1]) for n in kf_names):
                        allowed |= {("template", dname), ("function", dname)}
            diff = [o for o in sorted(set(fa) | set(fb)) if fa.get(o, []) != fb.get(o, [])]
            # the duplicate-definition report itself: same id and message, labels swap roles
            par = lambda f: sorted((x[0], x[1], x[2]) for x in f.get(("parse",), []))
            outside = [o for o in diff if o not in allowed and not (o == ("parse",) and par(fa) == par(fb))]
            if outside:
                o2 = outside[0]
                failing.append({"project": pa.describe(), "variant": projects[iib[0]].describe(), "kind": "duplicated-names-file-order",
                                "what": "the same files named in another order on the command line (%s / %s; %s defined in two of them) change "
                                        "the findings of %s, which is neither a definition of that name nor looks it up (outside the known "
                                        "finding C17-duplicate-name-file-order): only in the first %s, only in the second %s"
                                        % (spa["argv"], spb["argv"], sorted(kf_names), " ".join(o2),
                                           only_in(fa.get(o2, []), fb.get(o2, [])), only_in(fb.get(o2, []), fa.get(o2, [])))})
            elif diff:
                dup_stats["pairs_that_differ"] += 1
                na, nb = sum(len(v) for v in fa.values()), sum(len(v) for v in fb.values())
                what = ("`%s` displays %d findings, `%s` %d (%s defined in both files; the findings that differ are those of %s): the "
                        "definition read first is the one kept" % (" ".join(spa["argv"]), na, " ".join(spb["argv"]), nb, sorted(kf_names),
                                                                   [" ".join(o) for o in diff]))
                if kf_rec:
                    ctx.known_finding("C17-duplicate-name-file-order", what)
                else:
                    failing.append({"project": pa.describe(), "variant": projects[iib[0]].describe(), "kind": "duplicated-names-file-order",
                                    "what": "no record C17-duplicate-name-file-order in known_findings.jsonl, and " + what})
        # ---- (6) Model.Runner (extracted) against the binary on these projects: one run per distinct content of the structures
        tie = {"judged": 0, "disagreements": 0, "spec_failures": 0, "error": None}
        tie_idx = [i for i in distinct if isinstance(info[i][0], int) and not dup_of.get(i)]
        try:
            tie["judged"], tdis, tfail = model_tie(projects, runs, tie_idx)
            tie["disagreements"], tie["spec_failures"] = len(tdis), len(tfail)
            failing += tfail[:3]
            for d in tdis[:3]:
                d["what"] = "Model.Runner (extracted, engine e2e) and the binary disagree: " + d["what"]
                failing.append(d)
        except Exception as e:                       # noqa: the engine of C03 is another property's machinery
            tie["error"] = "%s: %s" % (type(e).__name__, str(e)[:300])
            broken.append({"project": None, "variant": None, "kind": "model-runner",
                           "what": "the extracted Model.Runner could not be run against the binary (engine e2e): " + tie["error"]})
        # ---- how much check (3) can see: a group = one (structure, file, definition, own text, lookup answers, anonymously
        # instantiated texts); its size = number of DIFFERENT project contents it was met in
        sizes = {}
        g_multi = g_disc = g_strong = 0
        for key, mem in members.items():
            n = len(mem)
            sizes[n] = sizes.get(n, 0) + 1
            if n >= 2:
                g_multi += 1
                if key[4]:                              # the definition looks something up
                    g_disc += 1
                    if len(set(mem.values())) >= 2:     # ... and the source of a looked-up definition differs inside the group
                        g_strong += 1
        self_test = compare_self_test()
        clocks = clock_reads(common.REPO)
        new_clocks = {f: n for f, n in clocks.items() if f not in CLOCK_ALLOWED}
        if new_clocks:
            broken.append({"project": None, "variant": None, "kind": "clock",
                           "what": "the pipeline reads a clock outside the known time box: %s - findings produced there can depend on "
                                   "machine load, and no generated definition runs long enough to show it" % new_clocks})
        failing += hyp_failing
        for f in failing[:5]:
            head = ("a hypothesis of the C17 theorems is not met by the tool on this input: " if f["kind"].startswith("hypothesis-")
                    else "findings are not a function of the sources: ")
            ctx.violation(head + f["what"][:600],
                          {"input": f["project"], "project": f["project"], "variant": f.get("variant"), "kind": f["kind"], "impl": f["what"],
                           "texts_a": f.get("texts_a"), "texts_b": f.get("texts_b"), "ctx_ids": ctx_ids,
                           "spec": "same normalised finding multiset (id, severity, message, labelled source text) per definition, "
                                   "unless a definition it looks up / instantiates anonymously changed"})
        if not failing:
            for f in broken[:3]:
                ctx.violation("correspondence Model.RunnerSrc vs the real passes broken: " + f["what"][:600],
                              {"project": f["project"], "variant": f.get("variant"), "kind": f["kind"],
                               "texts_a": f.get("texts_a"), "texts_b": f.get("texts_b"), "ctx_ids": ctx_ids,
                               "impl": f["what"], "broken": "s_pass : list answer -> list report / s_refs (coq/model/RunnerSrc.v), or the "
                                                            "engine named in the text",
                               "spec": "pass results depend on other definitions only through the answers to the lookups"}, no_input=True)
        if not failing and not broken and proofs["failures"]:
            ctx.violation("proof obligations of C17 no longer check: " + "; ".join(proofs["failures"])[:500],
                          {"broken": "props/C17.v", "failures": proofs["failures"]}, no_input=True)
        if not failing and not broken and not proofs["failures"]:
            degenerate = []
            if nontrivial < len(structures) // 2:
                degenerate.append("only %d of %d projects display any finding" % (nontrivial, len(structures)))
            if shapes_seen < len(structures) // 8:
                degenerate.append("only %d of %d projects contain a template dropped by the desugarer that another one instantiates "
                                  "anonymously" % (shapes_seen, len(structures)))
            if moved_total < 5:
                degenerate.append("only %d definitions changed their findings through a changed referenced definition" % moved_total)
            if perm_projects < 5:
                degenerate.append("only %d small projects were driven through all orders of take / passes / replace" % perm_projects)
            if ao_projects - ao_incomplete < 10:
                degenerate.append("only %d small projects saw EVERY analysis order through the real analyze_templates (%d tried, %d "
                                  "incomplete)" % (ao_projects - ao_incomplete, ao_projects, ao_incomplete))
            for feat in ("intermediate", "many_constraints", "less_than_many_num2bits", "division_with_iszero", "signals_constrained_in_loop",
                         "non_constant_else", "unconstrained_inputs", "directory_argument", "bn254_specific", "call_from_template", "call_from_function", "component_array", "more_than_64_templates",
                         "non_default_curve", "library_directory"):
                if feats_seen.get(feat, 0) < (1 if feat == "more_than_64_templates" else 3):
                    degenerate.append("feature `%s` generated %d times only" % (feat, feats_seen.get(feat, 0)))
            kinds_now = {kind for _, kind in info}
            for kind in ("file-added", "file-removed", "files-permuted", "definitions-permuted", "definitions-added", "definitions-removed"):
                if kind not in kinds_now:
                    degenerate.append("no variant of kind `%s` was generated" % kind)
            # (what the tool answers - e.g. the largest number of secondary labels per id - is recorded, not required: a harmless
            # merge of labels must not read "generator degenerate"; the guards are on what was GENERATED)
            if displayed_compared < len(structures):
                degenerate.append("only %d pairs of runs on the same files were compared as displayed" % displayed_compared)
            expected_ids = {"CS%04d" % n for n in range(1, 19)} | {"CA01"}
            if expected_ids - ids_seen:
                degenerate.append("report ids never displayed in this run: %s (every id a pass can produce must be exercised)"
                                  % sorted(expected_ids - ids_seen))
            if dup_stats["pairs_in_two_command_line_orders"] < 2:
                degenerate.append("only %d pairs of projects with a duplicated name were run in both orders of the command line" % dup_stats["pairs_in_two_command_line_orders"])
            if dup_stats["first_definition_kept"] < 8:
                degenerate.append("only %d projects with a duplicated name were compared with their reduced project" % dup_stats["first_definition_kept"])
            if not exec_ids:
                degenerate.append("no pass put a question to its context in any explored definition")
            if tie["judged"] < 100:
                degenerate.append("only %d runs were compared with the extracted Model.Runner" % tie["judged"])
            if g_disc < 5:
                degenerate.append("only %d groups of check (3) (same source text and same lookup answers) hold a definition that looks "
                                  "something up and was met in two different projects: the interface assumption of Model.RunnerSrc "
                                  "(s_pass : list answer -> list report) was not evaluated" % g_disc)
            if g_strong < 5:
                degenerate.append("only %d groups of check (3) contain two projects in which the SOURCE of a looked-up definition "
                                  "differs while the answer to the lookup is the same" % g_strong)
            if cmp_stats.get("lookup_only_with_other_findings", 0) < 5:
                degenerate.append("only %d definitions with findings of lookup-independent passes had a looked-up definition changed"
                                  % cmp_stats.get("lookup_only_with_other_findings", 0))
            if self_test:
                degenerate.append("compare() self-test: " + "; ".join(self_test))
            if degenerate:
                ctx.violation("generator degenerate: " + "; ".join(degenerate), {"broken": "project generator of lib/props/C17.py"}, no_input=True)
        kinds = {}
        for _, kind in info:
            kinds[kind] = kinds.get(kind, 0) + 1
        nproc_min = min(len(v) for k, v in groups.items() if isinstance(k, int))
        n_samples = nproc_min + reps
        ctx.coverage.update({
            "evaluations": len(runs) + inproc_runs + perm_orders + ao_reps,
            "distinct_nontrivial": len(seen_orders),
            "rule": "one evaluation = one run of the pipeline on one project with fresh hasher state: the real binary in a fresh process "
                    "(--level info --verbose --sarif-file, --curve and -L as the project says), or the pipeline of main.rs in a fresh "
                    "thread of harness `c17 orders` / `c17 allorders`, or one order of take / passes / replace driven by harness "
                    "`c17 deps`; every project is run >= %d times in fresh processes (unchanged, definitions permuted, files permuted, "
                    "unreferenced definitions added / removed, a file added / removed, a referenced definition changed), its unchanged "
                    "text %d times in process and every variant text %d times in process; distinct-nontrivial = distinct (project text, "
                    "observed analysis order) pairs" % (nproc_min, reps, reps_variant),
            "exhaustive": False,
            "tie": "implementation against itself (repeated / permuted / extended runs of the binary and of the real AnalysisRunner in "
                   "process) + the extracted Model.Runner against the binary on the same projects (field model_runner_tie) + the "
                   "per-case evaluation of the interface assumed by Model.RunnerSrc; Model.RunnerLib and Model.Desugar are NOT run "
                   "here: RunnerLib's tie is the oracle of field duplicated_names (first definition kept), Desugar's is C18's",
            "projects": len(structures), "projects_displaying_findings": nontrivial, "comparisons": compared,
            "generated_features": feats_seen, "report_ids_displayed": sorted(ids_seen),
            "clock_reads": {"found": clocks, "allowed": list(CLOCK_ALLOWED)},
            "largest_number_of_secondary_labels_per_report_id": max_secondary,
            "pairs_of_runs_on_the_same_files_compared_as_displayed": displayed_compared,
            "compared_observables": {
                "run-twice clause (same files, same options)": "the complete displayed diagnostic per definition segment, as a multiset: "
                    "header, every file:line:col, every underlined source line with its label text, every note; only the project "
                    "directory is replaced (binary); in process the reports with label byte ranges, label texts and notes",
                "reordering clauses (definitions / files permuted, added, removed, references changed)": "id, severity, message, "
                    "primary and secondary labels as (file name, labelled source text, label message) in source order, notes; "
                    "positions, the project directory and generated names normalised"},
            "runs_per_variant_kind": kinds, "corpus_witnesses": [c["_file"] for c in corpus],
            "fresh_process_runs": len(runs), "in_process_pipeline_runs": inproc_runs,
            "in_process_projects_with_more_than_one_outcome": inproc_multi,
            "hypotheses_evaluated": dict(hyp, note="KF_duplicate_definition is evaluated on the sources to route projects to check (5) "
                                                   "(determinism, first definition kept, known finding for the two orders of the command "
                                                   "line) and to show that the structure generator makes none; "
                                                   "NoDup (map fst es) of the RunnerLib theorems says that FileIDs are the keys of a "
                                                   "HashMap and is not evaluated"),
            "duplicated_names": dup_stats,
            "model_runner_tie": tie,
            "all_analysis_orders_through_real_analyze_templates": {
                "projects": ao_projects, "projects_that_saw_every_order": ao_projects - ao_incomplete, "distinct_orders": ao_orders,
                "hash_states": ao_reps, "how": "fresh threads until every permutation of the function map and of the template map "
                                               "(<= 24 combinations) was iterated, cap 80 x the number of orders; no hook"},
            "projects_with_dropped_template_instantiated_anonymously": shapes_seen,
            "drop_reasons": sorted({r for st in structures for r in st.get("shapes", [])}),
            "definitions_allowed_to_change": allowed_total,
            "definitions_changed_through_a_changed_reference": moved_total,
            "definitions_not_analysed_hence_outside_check_3": not_analysed,
            "function_of_source_and_answers_keys": memo_keys,
            "function_of_source_and_answers_groups": {
                "rule": "group = (structure, file, definition, own source text, lookups with their answers, texts of the anonymously "
                        "instantiated templates); size = number of different project contents the group was met in; discriminating = "
                        "size >= 2 and the definition looks something up; strongly discriminating = moreover the source text of a "
                        "looked-up definition differs between two members (same answer from different callee sources)",
                "groups_by_size": {str(k): v for k, v in sorted(sizes.items())},
                "groups_met_in_two_or_more_projects": g_multi,
                "discriminating_groups": g_disc,
                "strongly_discriminating_groups": g_strong,
                "minimum_required": 5,
            },
            "lookup_sequences_checked_to_be_a_function_of_the_source": len(refs_memo),
            "deps_runs_unusable": deps_unusable,
            "context_dependent_report_ids": {"ids": ctx_ids, "observed_by_execution": exec_ids, "passes_that_asked": exec_passes,
                                             "read_from_source": src_ids, "modules": src_mods, "source_reader": reader_note or "ok",
                                             "source": "ids of the reports of every pass that put a question to its context in harness "
                                                       "`c17 deps` (all projects of this run), united with the reading of "
                                                       "get_analysis_passes + report_code.rs when that reading succeeds"},
            "definitions_touched_through_a_lookup_only": cmp_stats.get("lookup_only", 0),
            "of_which_have_findings_of_lookup_independent_passes": cmp_stats.get("lookup_only_with_other_findings", 0),
            "compare_self_test_failures": self_test,
            "all_lookup_orders_small_projects": perm_projects, "orders_of_take_passes_replace_driven": perm_orders,
            "relative_iteration_order_of_two_templates_per_hash_state": order_hist,
            "hash_state_samples_per_case": {"fresh_processes": nproc_min, "in_process_fresh_threads": reps},
            "probability_of_missing_a_two_outcome_order_dependence": {
                "assumption": "the hasher keys of different processes / threads are independent (std RandomState: OS randomness per "
                              "thread); q = probability of the rarer outcome under one hash state; per affected project",
                "q=1/2 (relative order of two map entries)": miss_probability(n_samples, 0.5),
                "q=1/6 (one of the orders of three entries)": miss_probability(n_samples, 1 / 6.0),
                "q=1/24": miss_probability(n_samples, 1 / 24.0),
                "n": n_samples,
                "fresh processes only, q=1/2": miss_probability(nproc_min, 0.5),
                "note": "a dependence that shows in m generated projects is missed with the m-th power of this; "
                        "log2 of the q=1/2 bound: %.1f" % math.log2(miss_probability(n_samples, 0.5)),
            },
            "spec_failures": len(failing), "model_assumption_failures": len(broken),
            "failures_reported_as_violations": min(len(failing), 5), "failures_by_kind": {
                k2: len([f for f in failing if f["kind"] == k2]) for k2 in sorted({f["kind"] for f in failing})},
            "refuted_witness_replayed_on_real_code": wit_ok,
            "samples": [{"tag": projects[i].tag, "argv": projects[i].argv, "libs": projects[i].libs, "curve": projects[i].meta.get("curve"),
                         "exit": runs[i]["exit"], "displayed": len([e for e in runs[i]["events"] if e[0] == "diag"])}
                        for i in (0, len(runs) // 2, cstart - 1)],
            "open_statements": [
                "orders inside SSA construction, dominator trees, taint maps, declaration maps and the HashMap loops of the passes "
                "(e.g. under_constrained_signals): no model, no theorem; sampled by the repeated runs",
                "FileID renumbering is covered over Model.Runner only (C17_file_ids_are_names: report payloads are opaque there); the "
                "element ids that TemplateLibrary::new / the Merger thread through their loops have no model",
                "`beyond line numbers`: the normalisation of positions and generated names is Python, not a theorem",
                "the wall clock: value / degree propagation stop after MAX_ANALYSIS_DURATION (10 s, program_structure/src/"
                "control_flow_graph/cfg.rs), so the findings of a definition that comes near it depend on machine load; no generated "
                "definition does, no model covers it here (C20 owns the time box); a scan of program_analysis/src and "
                "program_structure/src for other clock reads runs on every check (field clock_reads)",
                "the SARIF FILE is compared as a multiset of results with labels as sets: the order of `rules` and of the "
                "`relatedLocations` of one result comes out of HashSets and differs from run to run on the unchanged tree (same "
                "multiset of findings: an observation, not a violation of the property text)",
                "configurations: every run uses --level info --verbose --sarif-file (the most permissive filters); other levels / "
                "--allow lists are C03's filter law over Model.Runner (C17_runner_order_independent is for all options)",
                "files named in another order when a name is defined in two of them: known finding C17-duplicate-name-file-order "
                "(C17_files_in_another_order needs the names distinct; refuted otherwise)",
                "anonymous instantiation as a reference (desugaring copies the callee's signals): s_refs of Model.RunnerSrc holds "
                "looked-up names only; the check treats anonymously instantiated templates as references (compare, check (3))",
            ],
        })
        ctx.assumptions += [
            "hash seeds are sampled (fresh process / fresh thread per run), not enumerated, except for the order of the two name maps of "
            "small projects (every order through the real analyze_templates); all iteration orders of the name maps, of the map of parsed "
            "files and of the desugaring loops are covered by the theorems over Model.Runner / Model.RunnerLib / Model.RunnerSrc / "
            "Model.Desugar only",
            "orders inside the other stages (dominator-tree children, taint maps, declaration maps, SSA version numbers) are outside the "
            "models: their irrelevance for the findings is observed by the repeated runs only (bound above)",
            "Model.RunnerSrc: that the pass results of a definition are a function of its own source and of the answers to its lookups "
            "(the type of s_pass; the whole-project theorems are consequences of it) is checked on "
            "the explored cases (findings grouped by source text and answers coincide; %d discriminating groups, %d of them with a "
            "looked-up definition whose source differs), not proved about the Rust passes; an answer is summarised as the harness "
            "summarises it (output signal names with their numbers of dimensions, SORTED: the order of the declaration map is not part "
            "of the answer)" % (g_disc, g_strong),
            "Model.RunnerLib (file-id order, first definition kept) is not run against the code: the check compares every project with a "
            "duplicated name with the project without the later definitions (per-definition findings equal, one parse-stage report per "
            "deleted definition); which file gets which FileID is taken from a reading of FileStack (a stack: the command line from its "
            "last file to its first, the includes of a file right after it), confirmed by that comparison",
            "normalisation: the project directory in messages, generated names <name>_<line>_<offset>, and positions (labelled source text "
            "is compared instead of line numbers)",
        ]
    finally:
        fast_rmtree(base)


def replay(ctx, rep):
    if "project" not in rep or not rep.get("project"):
        print("replay names a broken obligation, not an input:", rep.get("broken"))
        return 1
    cli = common.build_cli()
    base = e2e.scratch_dir("replay17")
    try:
        ps = [e2e.project_from_description(rep["project"]).write(base, i) for i in range(8)]
        if rep.get("variant"):
            ps += [e2e.project_from_description(rep["variant"]).write(base, 8 + i) for i in range(4)]
        runs = [{"p": i, "level": "info", "allow": [], "verbose": True, "sarif": True} for i in range(len(ps))]
        execute_runs(cli, ps, runs)
        res = [findings_of_run(p, r) for p, r in zip(ps, runs)]
        bad = 0
        distinct = []
        for ok, f in res[:8]:
            if f not in distinct:
                distinct.append(f)
        print("8 runs of the same input gave %d distinct finding multisets" % len(distinct))
        for f in distinct[:3]:
            print("  ", {" ".join(k): [x[:3] for x in v] for k, v in f.items()})
        if len(distinct) > 1 or not all(ok for ok, _ in res):
            bad = 1
        for i in range(1, 8):
            dd = displayed_difference(displayed_of_run(runs[0]), displayed_of_run(runs[i]))
            if dd:
                print("runs 0 and %d of the same input DISPLAY different diagnostics for %s:\n--- run 0\n%s\n--- run %d\n%s"
                      % (i, " ".join(dd[0]), dd[1], i, dd[2]))
                bad = 1
                break
        else:
            print("8 runs of the same input display the same diagnostics (labels, positions, notes included)")
        o = harness_lines("orders", [ps[0]], [{"reps": 32}])[0]
        print("32 repetitions in process (fresh hasher keys each): %d distinct outcomes %s; analysis orders seen: %d"
              % (len(o.get("outcomes", [])), [x["count"] for x in o.get("outcomes", [])], len(set(o.get("analysis_orders", [])))))
        if len(o.get("outcomes", [])) > 1:
            bad = 1
        d = harness_lines("deps", [ps[0]], [{}])[0]
        m = d.get("maps") if isinstance(d.get("maps"), dict) else None
        if m:
            want = math.factorial(len(m["user_functions"])) * math.factorial(len(m["user_templates"]))
            if 2 <= want <= 24:
                a = harness_lines("allorders", [ps[0]], [{"want": want, "cap": 80 * want}])[0]
                print("every analysis order through the real analyze_templates: %d of %d orders seen in %d hash states, %d distinct outcomes"
                      % (len(a.get("orders", [])), want, a.get("reps", 0), len(a.get("outcomes", []))))
                if len(a.get("outcomes", [])) > 1 or a.get("panics"):
                    bad = 1
        for x in (d.get("runs") or [{}])[0].get("defs", []):
            print("   %s %s looked up: %s" % (x["kind"], x["name"], [(l["name"], l["answer"]) for l in x["lookups"]]))
        if rep.get("variant"):
            kind = rep.get("kind") or "same"
            print("variant (%s):" % kind)
            print("  ", {" ".join(k): [x[:3] for x in v] for k, v in res[8][1].items()})
            d2 = harness_lines("deps", [ps[8]], [{}])[0]
            for x in (d2.get("runs") or [{}])[0].get("defs", []):
                print("   %s %s looked up: %s" % (x["kind"], x["name"], [(l["name"], l["answer"]) for l in x["lookups"]]))
            if kind.startswith("duplicated-names"):
                fa, fb = res[0][1], res[8][1]
                diff = [o2 for o2 in sorted(set(fa) | set(fb)) if o2 != ("parse",) and fa.get(o2, []) != fb.get(o2, [])]
                print("definitions whose findings differ from the project without the later definitions:", [" ".join(x) for x in diff])
                if diff:
                    bad = 1
            elif rep.get("texts_a") is not None and rep.get("texts_b") is not None:
                A, B = texts_dict(rep["texts_a"]), texts_dict(rep["texts_b"])
                lka = lookups_of((d.get("runs") or [{}])[0], ps[0])
                lkb = lookups_of((d2.get("runs") or [{}])[0], ps[8])
                ign = changed_files(ps[0], ps[8])
                base_kind = kind.split(":")[-1]
                for i in range(8, len(ps)):
                    diff, _, _ = compare(res[0][1], res[i][1], base_kind, A, B, influence_of(A, lka), influence_of(B, lkb),
                                         rep.get("ctx_ids") or ("CS0018",), ignore_files=ign)
                    if diff:
                        print("compare(project, variant run %d): findings of %s differ although nothing they reference changed"
                              % (i - 8, [" ".join(x) for x in diff]))
                        for o2 in diff[:2]:
                            print("     project:", [x[:3] for x in res[0][1].get(o2, [])][:4])
                            print("     variant:", [x[:3] for x in res[i][1].get(o2, [])][:4])
                        bad = 1
                        break
                else:
                    print("compare(project, variant): no definition changed that should not have")
                if kind.startswith("same-sources:"):
                    # check (3): same own source and same callee sources, different findings
                    for o2 in sorted(set(A) & set(B)):
                        if A[o2] == B[o2] and res[0][1].get(o2, []) != res[8][1].get(o2, []):
                            callee = influence_of(A, lka).get(o2, set()) | influence_of(B, lkb).get(o2, set())
                            if all(A.get(("template", n)) == B.get(("template", n)) for n in callee):
                                print("findings of %s differ although its source and the sources of %s are the same" % (" ".join(o2), sorted(callee)))
                                bad = 1
            else:
                fa, fb = res[0][1], res[8][1]
                diff = [o2 for o2 in sorted(set(fa) | set(fb)) if fa.get(o2, []) != fb.get(o2, [])]
                print("definitions whose findings differ between project and variant:", [" ".join(x) for x in diff])
                if diff:
                    bad = 1
        return bad
    finally:
        fast_rmtree(base)
