"""C17 — findings are a function of the sources (deterministic, order independent).

Proof side: coq/props/C17.v over Model.Runner: the displayed multiset, exit
status and SARIF content are the same for every order in which the name maps
are iterated and every set of lookups; definitions that are not analysed
(included-only) or are added next to the others do not change the others'
findings; the order in which parse_files' HashMap<FileID, ..> is iterated is
irrelevant unless two sources share a name (known finding D22, refuted
otherwise).  THE THEOREMS COVER ALL ORDERS; what this engine adds is an
observation of the real binary: every project is run >= 8 times in fresh
processes (fresh random hasher state each), with the definitions of each file
permuted, the files given in another order, and unrelated definitions added
or removed, and the normalised finding multisets are compared."""
import copy
import os
import re
import shutil

import common
import e2e


def gen(ctx):
    e2e.gen_category()


GEN_NAME = re.compile(r"([A-Za-z_][A-Za-z_0-9]*?)_\d+_\d+")


def norm_msg(msg, pdir):
    msg = (msg or "").replace(pdir, "<dir>")
    return GEN_NAME.sub(r"\1_#_#", msg)


def region_text(cache, uri, sl, sc, el, ec):
    path = (uri or "")[len("file://"):]
    if path not in cache:
        try:
            cache[path] = open(path, encoding="utf-8").read().split("\n")
        except (OSError, UnicodeDecodeError):
            cache[path] = None
    lines = cache[path]
    if lines is None or sl is None:
        return None
    try:
        if sl == el:
            return lines[sl - 1][sc - 1:ec - 1]
        parts = [lines[sl - 1][sc - 1:]] + lines[sl:el - 1] + [lines[el - 1][:ec - 1]]
        return "\n".join(parts)
    except IndexError:
        return None


def findings_of_run(p, r):
    """-> (ok, {owner: sorted list of normalised findings}); owner = ("parse",) | (kind, name)."""
    ev = r["events"]
    doc = r.get("sarif_doc")
    diags, owner = [], ("parse",)
    for e in ev:
        if e[0] == "log":
            m = re.match(r"analyzing (template|function) '(.*)'$", e[1])
            if m:
                owner = (m.group(1), m.group(2))
        else:
            diags.append((owner, e))
    if r["exit"] not in (0, 1) or doc is None or doc.get("bad") or len(doc["results"]) != len(diags):
        return False, {}
    cache = {}
    out = {}
    for (own, d), res in zip(diags, doc["results"]):
        level, rid, msg, locs, rel = res["tuple"]

        def lab(l):
            uri, sl, sc, el, ec, lmsg = l
            return (os.path.basename(uri or ""), GEN_NAME.sub(r"\1_#_#", region_text(cache, uri, sl, sc, el, ec) or "?"),
                    norm_msg(lmsg, p.dir))
        out.setdefault(own, []).append((rid, level, norm_msg(msg, p.dir), tuple(sorted(lab(l) for l in locs)),
                                        tuple(sorted(lab(l) for l in rel))))
    for k in out:
        out[k].sort()
    return True, out


def referenced_names(st):
    """name -> set of definitions (names) whose text mentions it"""
    defs = [(d[1], d[2]) for f in st["files"] for d in f["defs"]]
    refs = {}
    for name, _ in defs:
        refs[name] = {n for n, text in defs if n != name and re.search(r"\b%s\b" % re.escape(name), text)}
    return refs


def variants(ctx, st, k):
    """(kind, structure, argv order) variants of a project structure."""
    rng = ctx.rng
    out = [("same", st, None)] * 3
    for _ in range(2):
        s2 = copy.deepcopy(st)
        for f in s2["files"]:
            rng.shuffle(f["defs"])
        out.append(("definitions-permuted", s2, None))
    user = [f["name"] for f in st["files"] if f["user"]]
    if len(user) > 1:
        a = list(user)
        while a == user:
            rng.shuffle(a)
        out.append(("files-permuted", st, a))
        out.append(("files-permuted", st, list(reversed(user))))
    else:
        out.append(("same", st, None))
    # unrelated definitions added (fresh names, nobody references them; they may reference existing ones)
    s3 = copy.deepcopy(st)
    existing = [d[1] for f in st["files"] for d in f["defs"] if d[0] == "template" and d[1] not in ("LessThan", "Num2Bits")]
    for j, f in enumerate(s3["files"]):
        if rng.random() < 0.8:
            name = "Extra%d_%d" % (k, j)
            feats = [rng.choice(e2e.TEMPLATE_FEATURES) for _ in range(rng.randint(1, 4))]
            f["defs"].insert(rng.randint(0, len(f["defs"])), ("template", name, e2e.template_text(rng, name, feats, existing)))
            fname = "extraf%d_%d" % (k, j)
            f["defs"].insert(rng.randint(0, len(f["defs"])), ("function", fname, e2e.function_text(rng, fname, rng.sample(e2e.FUNCTION_FEATURES, 2))))
    out.append(("definitions-added", s3, None))
    # unreferenced definitions removed
    refs = referenced_names(st)
    s4 = copy.deepcopy(st)
    removed = set()
    for f in s4["files"]:
        keep = []
        for d in f["defs"]:
            main_uses = f["main"] and re.search(r"\b%s\b" % re.escape(d[1]), f["main"])
            if not refs.get(d[1]) and not main_uses and rng.random() < 0.5 and d[1] not in ("LessThan", "Num2Bits"):
                removed.add(d[1])
            else:
                keep.append(d)
        f["defs"] = keep
    if removed:
        out.append(("definitions-removed", s4, None))
    return out


def run(ctx, proofs):
    quick = ctx.tier == "quick"
    cli = common.build_cli()
    base = e2e.scratch_dir("C17")
    try:
        nproj = 150 if quick else 1000
        structures = [e2e.gen_structure(ctx.rng, rich=(i % 3 != 0)) for i in range(nproj)]
        projects, info = [], []          # info: (structure index, variant kind)
        for k, st in enumerate(structures):
            for kind, s2, argv in variants(ctx, st, k):
                projects.append(e2e.render_structure(s2, tag="s%d-%s" % (k, kind), argv=argv))
                projects[-1].meta["defs"] = sorted([d[0], d[1]] for f in s2["files"] for d in f["defs"])
                info.append((k, kind))
        # regression corpus: fixed witnesses, run 8 times each in fresh processes
        corpus = e2e.load_corpus("C17")
        cstart = len(projects)
        for rec in corpus:
            for _ in range(8 if not rec.get("meta", {}).get("known") else 16):
                p = e2e.project_from_description(rec)
                p.meta = dict(rec.get("meta", {}), corpus=rec["_file"])
                projects.append(p)
                info.append(("corpus:" + rec["_file"], "same"))
        for i, p in enumerate(projects):
            p.write(base, i)
        runs = [{"p": i, "level": "info", "allow": [], "verbose": True, "sarif": True} for i in range(len(projects))]
        e2e.execute_runs(cli, projects, runs)
        groups = {}
        for i, (k, kind) in enumerate(info):
            groups.setdefault(k, []).append(i)
        failing, compared, nontrivial, orders = [], 0, 0, set()
        known_hit = None
        kf = [x for x in ctx.known if x["id"] == "C17-duplicate-definition-order"]
        for k, idxs in groups.items():
            ref_i = idxs[0]
            ok0, ref = findings_of_run(projects[ref_i], runs[ref_i])
            if not ok0:
                failing.append({"project": projects[ref_i].describe(), "what": "run failed or SARIF does not match stdout (exit %s)" % runs[ref_i]["exit"],
                                "kind": "same"})
                continue
            if any(ref.values()):
                nontrivial += 1
            for i in idxs[1:]:
                okv, got = findings_of_run(projects[i], runs[i])
                kind = info[i][1]
                compared += 1
                orders.add((k, tuple(e2e.analysis_order(runs[i]["events"]))))
                if not okv:
                    failing.append({"project": projects[i].describe(), "what": "run failed or SARIF does not match stdout (exit %s)" % runs[i]["exit"], "kind": kind})
                    continue
                if kind in ("same", "definitions-permuted", "files-permuted"):
                    keys = set(ref) | set(got)
                    diff = [o for o in sorted(keys) if ref.get(o, []) != got.get(o, [])]
                else:
                    # definitions added / removed: the findings of every definition present in both versions are
                    # unchanged; parse-stage findings (which include the desugarer's per-definition errors) may only
                    # gain / lose findings
                    common_defs = {tuple(d) for d in projects[ref_i].meta["defs"]} & {tuple(d) for d in projects[i].meta["defs"]}
                    keys = {o for o in (set(ref) | set(got)) if o in common_defs}
                    diff = [o for o in sorted(keys) if ref.get(o, []) != got.get(o, [])]
                    small, big = (ref, got) if kind == "definitions-added" else (got, ref)
                    rest = list(big.get(("parse",), []))
                    for x in small.get(("parse",), []):
                        if x in rest:
                            rest.remove(x)
                        else:
                            diff.append(("parse",))
                            break
                if diff:
                    o = diff[0]
                    a, b = ref.get(o, []), got.get(o, [])
                    rec = {"project": projects[ref_i].describe(), "variant": projects[i].describe(), "kind": kind,
                           "what": "findings of %s differ between two runs (%s): only in the first %s, only in the second %s"
                                   % (" ".join(o), kind, [x for x in a if x not in b][:2], [x for x in b if x not in a][:2])}
                    if isinstance(k, str) and projects[i].meta.get("known") and kf:
                        known_hit = kf[0]["what"]
                    else:
                        failing.append(rec)
        if known_hit:
            ctx.known_finding("C17-duplicate-definition-order", known_hit)
        for f in failing[:5]:
            ctx.violation("findings are not a function of the sources: " + f["what"][:400],
                          {"input": f["project"], "project": f["project"], "variant": f.get("variant"), "kind": f["kind"], "impl": f["what"],
                           "spec": "same normalised finding multiset (id, severity, message, labelled source text) per definition"})
        if not failing and proofs["failures"]:
            ctx.violation("proof obligations of C17 no longer check: " + "; ".join(proofs["failures"])[:500],
                          {"broken": "props/C17.v", "failures": proofs["failures"]}, no_input=True)
        if not failing and not proofs["failures"] and nontrivial < len(structures) // 2:
            ctx.violation("generator degenerate: only %d of %d projects display any finding" % (nontrivial, len(structures)),
                          {"broken": "project generator of lib/e2e.py"}, no_input=True)
        kinds = {}
        for _, kind in info:
            kinds[kind] = kinds.get(kind, 0) + 1
        ctx.coverage.update({
            "evaluations": len(runs),
            "distinct_nontrivial": len(orders),
            "rule": "one evaluation = one run of the real binary in a fresh process (--level info --verbose --sarif-file); every project is run "
                    ">= 8 times: 3-4 times unchanged, 2 times with the definitions of every file permuted, 2 times with the files in another "
                    "order (when it has several user files), once with unreferenced definitions added and once with unreferenced definitions "
                    "removed; distinct-nontrivial = distinct (project, observed analysis order) pairs",
            "exhaustive": False,
            "projects": len(structures), "projects_displaying_findings": nontrivial, "comparisons": compared,
            "runs_per_variant_kind": kinds, "corpus_witnesses": [c["_file"] for c in corpus],
            "spec_failures": len(failing),
            "samples": [{"tag": projects[i].tag, "argv": projects[i].argv, "exit": runs[i]["exit"],
                         "displayed": len([e for e in runs[i]["events"] if e[0] == "diag"])} for i in (0, len(runs) // 2, cstart - 1)],
        })
        ctx.assumptions += [
            "hash seeds are sampled (fresh process per run), not enumerated; all iteration orders of the name maps are covered by the "
            "theorems over Model.Runner only (C17_runner_order_independent), and the model is tied to the binary by the e2e correspondence of C03",
            "orders inside the stages (dominator-tree children, taint maps, declaration maps, SSA version numbers) are outside Model.Runner: "
            "their irrelevance for the findings is observed by the repeated runs only",
            "normalisation: the project directory in messages, generated names <name>_<line>_<offset>, and positions (labelled source text "
            "is compared instead of line numbers)",
        ]
    finally:
        shutil.rmtree(base, ignore_errors=True)


def replay(ctx, rep):
    if "project" not in rep:
        print("replay names a broken obligation, not an input:", rep.get("broken"))
        return 1
    cli = common.build_cli()
    base = e2e.scratch_dir("replay17")
    try:
        ps = [e2e.project_from_description(rep["project"]).write(base, i) for i in range(8)]
        if rep.get("variant"):
            ps += [e2e.project_from_description(rep["variant"]).write(base, 8 + i) for i in range(4)]
        runs = [{"p": i, "level": "info", "allow": [], "verbose": True, "sarif": True} for i in range(len(ps))]
        e2e.execute_runs(cli, ps, runs)
        res = [findings_of_run(p, r) for p, r in zip(ps, runs)]
        distinct = []
        for ok, f in res[:8]:
            if f not in distinct:
                distinct.append(f)
        print("8 runs of the same input gave %d distinct finding multisets" % len(distinct))
        for f in distinct[:3]:
            print("  ", {" ".join(k): [x[:3] for x in v] for k, v in f.items()})
        if rep.get("variant"):
            print("variant (%s):" % rep.get("kind"))
            print("  ", {" ".join(k): [x[:3] for x in v] for k, v in res[8][1].items()})
        return 1 if len(distinct) > 1 else 0
    finally:
        shutil.rmtree(base, ignore_errors=True)
