"""C15 — dominators, immediate dominators, dominator-tree children and dominance
frontiers match their path-based definitions on every rooted digraph.

Correspondence: the real generic `DominatorTree::new` (harness binary `dom`,
own node type) vs the extracted Gallina mirror Model.Dom.dominator_tree (run
under three iteration orders of the candidate set) on (a) every rooted digraph
with n <= 4 nodes (quick) / n <= 5 (thorough; quick adds seeded slices of the
n = 5 space), (b) seeded random rooted digraphs with 2..14 nodes, back-edge
probability swept over 0..0.5, node numbers shuffled, (c) the corpus.
Oracle of the violation search: Spec.DomSpec.spec_view (dominance by node
deletion + reachability, idom / children / frontier by their definitions),
extracted, compared with the implementation on the same graphs."""
import concurrent.futures
import glob
import json
import os

import common

MODES = ["mirror", "mirror-rev", "mirror-rot", "spec"]
NSLICES = 64     # quick tier: slices of the n = 5 space


def sweep_jobs(n, ranges, chunks_per=1):
    return [(n, lo, hi) for (lo, hi) in ranges]


def run_sweeps(binary, pre, jobs):
    """Runs `binary pre sweep n lo hi` for every job, 16 at a time; returns the
    concatenated lines in job order."""
    def one(job):
        n, lo, hi = job
        rc, out, err = common.sh([binary] + pre + ["sweep", str(n), str(lo), str(hi)], timeout=1500)
        if rc != 0:
            raise common.BuildError("%s %s sweep %d %d %d failed rc=%d" % (os.path.basename(binary), " ".join(pre), n, lo, hi, rc), err[-2000:])
        return out.splitlines()
    with concurrent.futures.ThreadPoolExecutor(max_workers=common.NPROC) as ex:
        outs = list(ex.map(one, jobs))
    res = []
    for o in outs:
        res.extend(o)
    return res


def split(lo, hi, parts):
    size = max(1, (hi - lo + parts - 1) // parts)
    return [(a, min(hi, a + size)) for a in range(lo, hi, size)]


def random_graph(rng):
    """A rooted digraph: random spanning tree from 0 (deep or bushy), a few
    forward/cross edges, back edges (self loops included) with probability pb
    per node, then the node numbers 1..n-1 are shuffled so that the index order
    is unrelated to any traversal order."""
    n = rng.randrange(2, 15)
    pb = rng.choice([0.0, 0.05, 0.1, 0.2, 0.3, 0.4, 0.5])
    deep = rng.random()
    extra = rng.choice([0.0, 0.1, 0.3, 0.6])
    es = []
    for b in range(1, n):
        a = b - 1 if rng.random() < deep else rng.randrange(b)
        es.append((a, b))
    for a in range(n):
        if rng.random() < extra and a + 1 < n:
            es.append((a, rng.randrange(a + 1, n)))       # forward / cross edge
        if rng.random() < extra / 2 and n > 2:
            es.append((rng.randrange(n), rng.randrange(1, n)))   # arbitrary edge
        if a >= 1 and rng.random() < pb:
            es.append((a, rng.randrange(1, a + 1)))       # back edge or self loop
    perm = list(range(1, n))
    rng.shuffle(perm)
    perm = [0] + perm
    es = sorted(set((perm[a], perm[b]) for a, b in es))
    return "%d %s" % (n, " ".join("%d>%d" % e for e in es)), pb


def edges_line(head):
    """`n code` of the exhaustive enumeration as an explicit edge-list line."""
    n, code = (int(x) for x in head.split())
    es = ["%d>%d" % (a, b) for a in range(n) for b in range(1, n) if (code >> (a * (n - 1) + (b - 1))) & 1]
    return " ".join([str(n)] + es)


def rhs(line):
    return line.split(" = ", 1)[1]


def shape(result):
    """(depth of the dominator tree, number of nodes with a non-empty frontier)."""
    if not result.startswith("dom="):
        return (0, 0)
    f = dict(p.split("=", 1) for p in result.split(" "))
    depth = max(len(s.split(",")) for s in f["dom"].split("|"))
    nf = sum(1 for s in f["df"].split("|") if s)
    return (depth, nf)


def corpus_lines():
    out = []
    for p in sorted(glob.glob(os.path.join(common.VERIF, "corpus", "C15", "*.json"))):
        r = json.load(open(p))
        out.append(r["input"])
    return out


def compare(ctx, heads, impl, by_mode, disagreements, failing, nontrivial, stats):
    for k, head in enumerate(heads):
        ri = impl[k]
        rs = by_mode["spec"][k]
        for m in MODES[:3]:
            if by_mode[m][k] != ri:
                disagreements.append({"case": head, "impl": ri, "model": by_mode[m][k], "order": m})
                break
        if rs == "unrooted":
            stats["unrooted"] = stats.get("unrooted", 0) + 1
            continue
        if ri != rs:
            failing.append({"case": head, "impl": ri, "spec": rs})
        d, nf = shape(ri)
        stats["depth"][d] = stats["depth"].get(d, 0) + 1
        if nf > 0:
            nontrivial.add(ri)


def run(ctx, proofs):
    HARNESS_BIN = common.build_harness("dom")
    MODEL_BIN = common.build_model("dom")
    quick = ctx.tier == "quick"
    disagreements, failing = [], []
    nontrivial = set()
    stats = {"depth": {}}
    evaluations = 0
    # (a) exhaustive sweeps: both sides enumerate the same space in the same order
    jobs = []
    top = 4 if quick else 5
    for n in range(1, top + 1):
        jobs += [(n, lo, hi) for lo, hi in split(0, 1 << (n * (n - 1)), 1 if n < 4 else (16 if n == 4 else 256))]
    slices = []
    if quick:
        for _ in range(NSLICES):
            lo = ctx.rng.randrange(0, (1 << 20) - 2048)
            slices.append((5, lo, lo + 2048))
        jobs += slices
    impl = run_sweeps(HARNESS_BIN, [], jobs)
    by_mode = {m: run_sweeps(MODEL_BIN, [m], jobs) for m in MODES}
    heads_i = [l.split(" = ", 1)[0] for l in impl]
    for m in MODES:
        heads_m = [l.split(" = ", 1)[0] for l in by_mode[m]]
        if heads_m != heads_i:
            # the two sides disagree about which enumerated graphs are rooted, or a side died
            k = next((i for i, (a, b) in enumerate(zip(heads_i, heads_m)) if a != b), min(len(heads_i), len(heads_m)))
            raise common.BuildError("sweep outputs of harness and model (%s) do not list the same graphs" % m,
                                    "first difference at line %d: %r vs %r" % (k, heads_i[k:k + 1], heads_m[k:k + 1]))
    n_sweep = len(impl)
    compare(ctx, [edges_line(h) for h in heads_i], [rhs(l) for l in impl], {m: [rhs(l) for l in by_mode[m]] for m in MODES},
            disagreements, failing, nontrivial, stats)
    evaluations += n_sweep
    # (b) seeded random rooted digraphs, (c) corpus
    nrand = 25000 if quick else 150000
    gen = [random_graph(ctx.rng) for _ in range(nrand)]
    lines = corpus_lines() + [g for g, _ in gen]
    pb_hist = {}
    for _, pb in gen:
        pb_hist[str(pb)] = pb_hist.get(str(pb), 0) + 1
    impl_r = common.run_lines(HARNESS_BIN, [], lines, shards=common.NPROC)
    by_mode_r = {m: common.run_lines(MODEL_BIN, [m], lines, shards=common.NPROC) for m in MODES}
    if any(len(by_mode_r[m]) != len(lines) for m in MODES) or len(impl_r) != len(lines):
        raise common.BuildError("line-mode outputs are incomplete", "%d lines, impl %d" % (len(lines), len(impl_r)))
    compare(ctx, lines, [rhs(l) for l in impl_r], {m: [rhs(l) for l in by_mode_r[m]] for m in MODES},
            disagreements, failing, nontrivial, stats)
    evaluations += len(lines)
    sizes = {}
    for l in lines:
        k = l.split()[0]
        sizes[k] = sizes.get(k, 0) + 1
    # verdict
    for f in failing[:5]:
        ctx.violation("dominator tree of the rooted digraph `%s` differs from the path-based definition: implementation %s, definition %s"
                      % (f["case"], f["impl"], f["spec"]), {"input": f["case"], "impl": f["impl"], "spec": f["spec"]})
    if not failing:
        if disagreements:
            d = disagreements[0]
            ctx.violation("correspondence Model.Dom.dominator_tree vs dominator_tree.rs broken (%d cases, first: %s impl=%s model=%s); "
                          "the definition held on every explored rooted graph" % (len(disagreements), d["case"], d["impl"], d["model"]),
                          {"broken": "correspondence dom (Model.Dom.dominator_tree)", "first": d, "count": len(disagreements)}, no_input=True)
        elif proofs["failures"]:
            ctx.violation("proof obligations of C15 no longer check: " + "; ".join(proofs["failures"])[:500],
                          {"broken": "props/C15.v", "failures": proofs["failures"]}, no_input=True)
    ctx.coverage.update({
        "evaluations": evaluations,
        "distinct_nontrivial": len(nontrivial),
        "rule": "every digraph on n <= %d nodes without edges into node 0 in which all nodes are reachable from 0 "
                "(self loops, irreducible loops, parallel joins included)%s, plus %d seeded random rooted digraphs with 2..14 nodes "
                "(spanning tree from 0 of random depth, forward/cross edges, per-node back-edge probability from "
                "{0,.05,.1,.2,.3,.4,.5}, node numbers shuffled) and the corpus; distinct-nontrivial = distinct result "
                "(dominator sets, idom, children, frontiers) among graphs with at least one non-empty dominance frontier"
                % (top, ", plus %d seeded slices of 2048" % NSLICES + " consecutive edge sets of the n = 5 space" if quick else "", nrand),
        "exhaustive": False,
        "exhaustive_part": "all rooted digraphs with n <= %d: %d graphs%s" % (
            top, n_sweep - (sum(1 for h in heads_i if h.startswith("5 ")) if quick else 0),
            " (+ %d rooted graphs from the n = 5 slices)" % sum(1 for h in heads_i if h.startswith("5 ")) if quick else ""),
        "samples": [disagreements[0]] if disagreements else [
            edges_line(heads_i[len(impl) // 3]) + " = " + rhs(impl[len(impl) // 3]), impl_r[len(corpus_lines())], impl_r[-1]],
        "random_graph_sizes": sizes,
        "back_edge_probability_histogram": pb_hist,
        "dominator_tree_depth_histogram": {str(k): v for k, v in sorted(stats["depth"].items())},
        "unrooted_inputs_skipped_by_oracle": stats.get("unrooted", 0),
        "iteration_orders_of_candidate_set": ["ascending", "descending", "rotated by block index"],
        "disagreements_model_vs_impl": len(disagreements),
        "spec_failures": len(failing),
        "open_statements": [],
    })
    ctx.assumptions += [
        "std::collections::HashSet<usize> behaves as a finite set (insert, remove, contains, len, ==, intersection, union, "
        "difference), modelled by N bit masks: observed by the correspondence, not proved",
        "the harness node type gives predecessor/successor sets that mirror each other; graphs with unreachable nodes or "
        "edges into node 0 are outside the property (there the result depends on the hash order) and are not compared",
        "cargo/rustc compile DominatorTree::new for the harness node type as for the CFG basic blocks (the function is generic; "
        "the production instantiation is exercised by C12-C14, not here)",
    ]


def replay(ctx, rep):
    HARNESS_BIN = common.build_harness("dom")
    MODEL_BIN = common.build_model("dom")
    line = rep.get("input")
    if not line:
        print("replay names a broken obligation, not an input:", rep.get("broken"))
        return 1
    out = common.run_lines(HARNESS_BIN, [], [line])
    spec = common.run_lines(MODEL_BIN, ["spec"], [line])
    print("implementation:", out[0])
    print("specification :", spec[0])
    return 0 if out[0] == spec[0] else 1
