"""C15 — dominators, immediate dominators, dominator-tree children and dominance
frontiers match their path-based definitions on every rooted digraph.

Correspondence: the real generic `DominatorTree::new` (harness binary `dom`,
own node type) vs the extracted Gallina mirror Model.Dom.dominator_tree (run
under three iteration orders of the candidate set) on
(a) every rooted digraph with n <= 4 nodes (quick) / n <= 5 (thorough; quick
    adds seeded slices of the n = 5 space),
(b) seeded random rooted digraphs with 2..14 nodes, back-edge probability swept
    over 0..0.5, node numbers shuffled,
(c) [third audit] twelve graph families (lib/props/c15gen.py: reverse-numbered
    chains, deep chains, joins with many predecessors, nodes with many joins in
    their frontier, nested loops, two-entry rings, ladders, trees with joins,
    dense and sparse random graphs) at 15..40 nodes, at 63/64/65 nodes, at
    127/128/129, 255/256/257 and 300 nodes (ten families above 129 nodes:
    `dense` and `two_level_join` have tens of thousands of edges there), at
    scattered sizes in between [fourth audit] and, for four families, at
    450..600 nodes,
(d) the corpus,
(e) [third audit] the PRODUCTION node type: control-flow graphs lifted by the
    real `into_cfg` from generated Circom functions and templates - small
    random ones and [fourth audit] large ones (hundreds of blocks, dominator
    chains hundreds deep, early returns); the graph is read off the
    basic blocks through the `DirectedGraphNode` trait and the four tables
    through the `Cfg::get_*` wrappers.
Oracle of the violation search: Spec.DomSpec.spec_view (dominance by node
deletion + reachability, idom / children / frontier by their definitions),
extracted, compared with the implementation on the same graphs up to 65 nodes
(its list-based reachability is quartic).  Beyond that the reference is the
mirror itself, which the theorems of props/C15.v prove equal to the definitions
on every rooted graph under every iteration order.  The hypothesis `rooted g`
is evaluated on every explored graph by Spec.DomFast.rooted_fast_b (proved
sound and complete); an explored graph that does not meet it is reported."""
import concurrent.futures
import glob
import json
import os

import common
from props import c15gen

MODES = ["mirror", "mirror-rev", "mirror-rot", "spec"]
MIRRORS = MODES[:3]
NSLICES = 64     # quick tier: slices of the n = 5 space
SPEC_MAX = 65    # largest graph given to the proved (list based) oracle
BOUNDARY = [63, 64, 65]
LARGE = [127, 128, 129, 255, 256, 257, 300]
# classes of graphs the rule text names: a run in which one of them was never
# explored is reported (generator gap), see `required_classes`
REQUIRED = ["self_loop", "irreducible", "in_degree>=9", "in_degree>=65", "depth>=65", "depth>=257",
            "n=63", "n=64", "n=65", "n=127", "n=128", "n=129", "n=255", "n=256", "n=257", "n>=300", "n>=600",
            "frontier>=65", "frontier>=257", "n_between_the_boundaries",
            "production_cfg", "production_n>=257", "production_depth>=17", "production_depth>=65", "production_depth>=257",
            "production_template", "production_early_return"]
HUGE = [("rev_chain", 450), ("fwd_chain", 600), ("wide_join", 600), ("wide_frontier", 520)]


def run_sweeps(binary, pre, jobs, fallback=None):
    """Runs `binary pre sweep n lo hi` for every job, 16 at a time; returns the
    list of output lines per job.  When a process dies (a stack overflow or an
    abort in the implementation takes the harness with it) `fallback(k)` supplies
    the lines of job k instead, graph by graph."""
    def one(kjob):
        k, (n, lo, hi) = kjob
        rc, out, err = common.sh([binary] + pre + ["sweep", str(n), str(lo), str(hi)], timeout=1500)
        if rc != 0:
            if fallback is None:
                raise common.BuildError("%s %s sweep %d %d %d failed rc=%d" % (os.path.basename(binary), " ".join(pre), n, lo, hi, rc), err[-2000:])
            common.log("C15: %s sweep %d %d %d died (rc=%d): running its graphs one by one" % (os.path.basename(binary), n, lo, hi, rc))
            return fallback(k)
        return out.splitlines()
    with concurrent.futures.ThreadPoolExecutor(max_workers=common.NPROC) as ex:
        return list(ex.map(one, enumerate(jobs)))


def flat(per_job):
    return [l for o in per_job for l in o]


def size_of(line):
    t = line.split()
    return int(t[0]) if t and t[0].isdigit() else 8


def robust_lines(binary, args, lines):
    """common.run_lines; when a process dies (abort, stack overflow in the
    implementation) the lines are run again in small groups and the culprits one
    per process, so that the death becomes the result `died` of a graph."""
    try:
        out = common.run_lines(binary, args, lines, shards=common.NPROC)
        if len(out) == len(lines):
            return out
    except common.BuildError as e:
        common.log("C15: %s %s died (%s): running its lines in small groups" % (os.path.basename(binary), " ".join(args), e.what))
    return run_jobs([("x", binary, args, lines)])["x"]


def run_jobs(specs, timeout=1200):
    """specs: [(key, binary, args, lines)].  Few but heavy lines: the lines of
    all specs are cut into chunks of about equal weight (weight = node count
    cubed), the heaviest chunks start first, NPROC processes at a time over ALL
    specs together.  Returns {key: output lines in the order of `lines`}.  A
    process that dies or hangs yields `died` for its lines (a result like any
    other: it is compared)."""
    chunks = []
    for key, binary, args, lines in specs:
        cur, w = [], 0
        for k, l in sorted(enumerate(lines), key=lambda kl: -size_of(kl[1])):
            n = size_of(l)
            cur.append(k)
            w += max(n, 8) ** 3
            if w >= 48 ** 3 or len(cur) >= 40:
                chunks.append((w, key, binary, args, lines, cur))
                cur, w = [], 0
        if cur:
            chunks.append((w, key, binary, args, lines, cur))
    chunks.sort(key=lambda c: -c[0])

    def one(c):
        w, key, binary, args, lines, idx = c
        ch = [lines[k] for k in idx]
        try:
            # the extracted mirror recurses over lists: give the MODEL (never the implementation) an
            # unlimited stack, so that a large production graph is judged instead of "died"
            pre = common._model_prefix(binary)
            rc, out, err = common.sh(pre + [binary] + args, inp="\n".join(ch) + "\n", timeout=timeout)
        except Exception:                            # the process hung
            return key, idx, ["%s = died" % l for l in ch]
        res = [l for l in out.split("\n") if l]
        if rc != 0 or len(res) != len(ch):
            return key, idx, ["%s = died" % l for l in ch]
        return key, idx, res
    out = {key: [None] * len(lines) for key, _, _, lines in specs}
    with concurrent.futures.ThreadPoolExecutor(max_workers=common.NPROC) as ex:
        again = []
        for c, (key, idx, res) in zip(chunks, ex.map(one, chunks)):
            for k, r in zip(idx, res):
                out[key][k] = r
            if len(idx) > 1 and res[0].endswith(" = died"):
                # isolate the graph that killed the process: one line per process
                again += [(c[0], key, c[2], c[3], c[4], [k]) for k in idx]
        for key, idx, res in ex.map(one, again):
            out[key][idx[0]] = res[0]
    return out


def split(lo, hi, parts):
    size = max(1, (hi - lo + parts - 1) // parts)
    return [(a, min(hi, a + size)) for a in range(lo, hi, size)]


def random_graph(rng):
    """A rooted digraph: random spanning tree from 0 (deep or bushy), a few
    forward/cross edges, back edges (self loops included) with probability pb
    per node, then the node numbers 1..n-1 are shuffled so that the index order
    is unrelated to any traversal order."""
    n = rng.randrange(2, 15)
    pb = rng.choice([0.0, 0.05, 0.1, 0.2, 0.3, 0.4, 0.5])
    deep = rng.random()
    extra = rng.choice([0.0, 0.1, 0.3, 0.6])
    es = []
    for b in range(1, n):
        a = b - 1 if rng.random() < deep else rng.randrange(b)
        es.append((a, b))
    for a in range(n):
        if rng.random() < extra and a + 1 < n:
            es.append((a, rng.randrange(a + 1, n)))       # forward / cross edge
        if rng.random() < extra / 2 and n > 2:
            es.append((rng.randrange(n), rng.randrange(1, n)))   # arbitrary edge
        if a >= 1 and rng.random() < pb:
            es.append((a, rng.randrange(1, a + 1)))       # back edge or self loop
    perm = list(range(1, n))
    rng.shuffle(perm)
    perm = [0] + perm
    es = sorted(set((perm[a], perm[b]) for a, b in es))
    return "%d %s" % (n, " ".join("%d>%d" % e for e in es)), pb


def family_graphs(rng, quick):
    """[(line, family, use_spec)] beyond the exhaustive bound."""
    out = []
    names = sorted(c15gen.FAMILIES)
    # 15..40 nodes, every family
    for _ in range(1000 if quick else 12000):
        name = rng.choice(names)
        n = rng.randrange(15, 41)
        out.append((c15gen.make(name, n, rng, rng.random() < 0.7), name, n <= c15gen.FAMILIES[name][1]))
    # around the width of a 64-bit word: every family, in its own numbering and renumbered
    for n in BOUNDARY:
        for name in names:
            for shuffle in (False, True):
                out.append((c15gen.make(name, n, rng, shuffle), name, n <= c15gen.FAMILIES[name][1]))
    # around 128 and 256, and 300: the mirror is the reference (see module docstring)
    for n in LARGE:
        for name in names:
            if name in ("dense", "two_level_join") and n > 129:
                continue                      # tens of thousands of edges: minutes per graph
            out.append((c15gen.make(name, n, rng, name != "rev_chain" and rng.random() < 0.5), name, False))
    # [fourth audit] sizes between the boundaries (41..62, 66..126, 130..254, 258..299 were never explored)
    for _ in range(40 if quick else 300):
        n = rng.choice([rng.randrange(41, 63), rng.randrange(66, 127), rng.randrange(130, 255), rng.randrange(258, 300)])
        name = rng.choice([x for x in names if not (x in ("dense", "two_level_join") and n > 129)])
        out.append((c15gen.make(name, n, rng, rng.random() < 0.5), name, n <= min(SPEC_MAX, c15gen.FAMILIES[name][1])))
    # [fourth audit] 450..600 nodes: 450 passes of the iteration, walks and sets of 600, frontiers of 517
    for name, n in HUGE:
        out.append((c15gen.make(name, n, rng, False), name, False))
    return out


# ---- production node type: generated Circom functions --------------------

def circom_stmt(rng, depth, counter, returns=False):
    """One statement of a small Circom definition over the variables x, y;
    with `returns` (functions only) some branches end in an early return - the
    lifter appends the return like any statement, the graph stays rooted."""
    k = rng.random()
    if returns and depth > 0 and k < 0.06:
        counter[0] += 1
        return "if (%s == %d) { return %s + %d; }" % (rng.choice("xy"), rng.randrange(0, 9), rng.choice("xy"), counter[0])
    if depth <= 0 or k < 0.35:
        counter[0] += 1
        return "%s = %s + %d;" % (rng.choice("xy"), rng.choice("xy"), counter[0])
    body = " ".join(circom_stmt(rng, depth - 1, counter, returns) for _ in range(rng.randrange(1, 4)))
    cond = "%s %s %d" % (rng.choice("xy"), rng.choice(["<", "==", ">"]), rng.randrange(0, 9))
    if k < 0.6:
        return "if (%s) { %s }" % (cond, body)
    if k < 0.8:
        other = " ".join(circom_stmt(rng, depth - 1, counter, returns) for _ in range(rng.randrange(1, 3)))
        return "if (%s) { %s } else { %s }" % (cond, body, other)
    return "while (%s) { %s }" % (cond, body)


def wrap(rng, body, template):
    if template:
        return "template T(x) { signal input a; signal output b; var y = 0; %s b <== a + y; }" % body
    return "function f(x) { var y = 0; %s return x + y; }" % body


def circom_function(rng):
    counter = [0]
    template = rng.random() < 0.25
    body = " ".join(circom_stmt(rng, rng.randrange(1, 4), counter, returns=not template) for _ in range(rng.randrange(1, 4)))
    return wrap(rng, body, template)


def nest(rng, d, kind, counter):
    """d statements nested in each other: a dominator chain of about 2d blocks,
    and (for `if` nests with an else branch) joins stacked behind each other."""
    s = "y = y + 1;"
    for i in range(d):
        counter[0] += 1
        k = kind if kind != "mixed" else rng.choice(["if", "ifelse", "while"])
        cond = "%s %s %d" % (rng.choice("xy"), rng.choice(["<", "==", ">"]), i % 9)
        if k == "if":
            s = "if (%s) { x = x + %d; %s }" % (cond, counter[0], s)
        elif k == "ifelse":
            s = "if (%s) { x = x + %d; %s } else { y = y + %d; }" % (cond, counter[0], s, counter[0])
        else:
            s = "while (%s) { %s x = x + %d; }" % (cond, s, counter[0])
    return s


def big_circom(rng, shape, size, template):
    """[fourth audit] A definition whose control-flow graph has hundreds of
    blocks: the `Cfg::get_*` wrappers used to see at most 52 blocks and chains of
    depth 14.  shape: `seq` (size statements in sequence: a dominator chain as
    long as the graph), `nest-if` / `nest-ifelse` / `nest-while` / `nest-mixed`
    (size statements inside each other), `early` (size early returns in
    sequence), `blend` (a sequence of nests and random statements)."""
    counter = [0]
    if shape == "seq":
        body = " ".join(circom_stmt(rng, 1, counter, returns=not template) if rng.random() < 0.5
                        else "if (x < %d) { y = y + %d; }" % (i % 9, i) for i in range(size))
    elif shape.startswith("nest-"):
        body = nest(rng, size, shape[5:], counter)
    elif shape == "early":
        body = " ".join("if (x == %d) { return y + %d; }" % (i, i) for i in range(size))
    else:
        parts = []
        while size > 0:
            d = min(size, rng.randrange(3, 40))
            parts.append(nest(rng, d, "mixed", counter) if rng.random() < 0.6
                         else " ".join(circom_stmt(rng, 3, counter, returns=not template) for _ in range(d // 3 + 1)))
            size -= d
        body = " ".join(parts)
    return wrap(rng, body, template)


def big_programs(rng, quick):
    out = []
    for shape, size in [("seq", 130), ("seq", 170), ("nest-if", 20), ("nest-ifelse", 70), ("nest-ifelse", 140), ("nest-while", 90),
                        ("nest-while", 135), ("nest-mixed", 60), ("nest-mixed", 150), ("early", 130), ("blend", 130), ("blend", 200),
                        ("seq", 300)] + ([] if quick else [("blend", 400), ("nest-mixed", 300), ("seq", 500)]):
        template = shape != "early" and rng.random() < 0.4
        out.append(big_circom(rng, shape, size + rng.randrange(0, 8), template))
    return out


# ---- evaluation -----------------------------------------------------------

def edges_line(head):
    """`n code` of the exhaustive enumeration as an explicit edge-list line."""
    n, code = (int(x) for x in head.split())
    es = ["%d>%d" % (a, b) for a in range(n) for b in range(1, n) if (code >> (a * (n - 1) + (b - 1))) & 1]
    return " ".join([str(n)] + es)


def rhs(line):
    return line.split(" = ", 1)[1] if " = " in line else "died"


def fields(result):
    if not result.startswith("dom="):
        return None
    return dict(p.split("=", 1) for p in result.split(" "))


def corpus_lines():
    out = []
    for p in sorted(glob.glob(os.path.join(common.VERIF, "corpus", "C15", "*.json"))):
        r = json.load(open(p))
        out.append(r["input"])
    return out


class Tally:
    def __init__(self):
        self.disagreements = []
        self.failing = []
        self.nontrivial = set()
        self.depth = {}
        self.indeg = {}
        self.maxdf = {}
        self.prod_envelope = {}
        self.classes = {k: 0 for k in REQUIRED}
        self.sizes = {}
        self.unrooted = []          # explored graphs outside the hypothesis `rooted`
        self.rooted_evaluated = 0
        self.rooted_tests_disagree = []
        self.spec_judged = 0
        self.mirror_judged = 0

    def note_shape(self, line, ref, prod=False):
        f = fields(ref)
        if f is None:
            return
        n, indeg, selfloop, irreducible, depth, maxdf = c15gen.features(line, f["dom"], f["df"])
        self.depth[depth] = self.depth.get(depth, 0) + 1
        self.indeg[indeg] = self.indeg.get(indeg, 0) + 1
        self.maxdf[maxdf] = self.maxdf.get(maxdf, 0) + 1
        c = self.classes
        c["self_loop"] += selfloop
        c["irreducible"] += irreducible
        c["in_degree>=9"] += indeg >= 9
        c["in_degree>=65"] += indeg >= 65
        c["depth>=65"] += depth >= 65
        c["depth>=257"] += depth >= 257
        c["frontier>=65"] += maxdf >= 65
        c["frontier>=257"] += maxdf >= 257
        if "n=%d" % n in c:
            c["n=%d" % n] += 1
        c["n>=300"] += n >= 300
        c["n>=600"] += n >= 600
        c["n_between_the_boundaries"] += (40 < n < 63) or (65 < n < 127) or (129 < n < 255) or (257 < n < 300)
        if prod:
            c["production_cfg"] += n >= 4
            c["production_n>=257"] += n >= 257
            c["production_depth>=17"] += depth >= 17
            c["production_depth>=65"] += depth >= 65
            c["production_depth>=257"] += depth >= 257
            self.prod_envelope["blocks"] = max(self.prod_envelope.get("blocks", 0), n)
            self.prod_envelope["depth"] = max(self.prod_envelope.get("depth", 0), depth)
            self.prod_envelope["frontier"] = max(self.prod_envelope.get("frontier", 0), maxdf)
            self.prod_envelope["in_degree"] = max(self.prod_envelope.get("in_degree", 0), indeg)
        if sum(1 for s in f["df"].split("|") if s) > 0:
            self.nontrivial.add(ref)

    def case(self, line, impl, mirrors, spec, rooted, shape=True, prod=False):
        """One explored graph.  `spec` is None when the proved oracle was not
        run (too large); `rooted` is None in the sweeps (both sides list only
        the graphs their own filters accept, and the lists are compared)."""
        bad_mirror = next((m for m in MIRRORS if mirrors[m] != impl), None)
        if bad_mirror:
            self.disagreements.append({"case": line, "impl": impl, "model": mirrors[bad_mirror], "order": bad_mirror})
        if rooted is not None:
            self.rooted_evaluated += 1
            if spec is not None and (spec == "unrooted") != (rooted == "unrooted"):
                self.rooted_tests_disagree.append({"case": line, "rooted_b": spec == "unrooted", "rooted_fast_b": rooted})
            if rooted != "rooted":
                self.unrooted.append(line)
                return
        if spec == "unrooted":
            self.unrooted.append(line)
            return
        if spec is not None:
            self.spec_judged += 1
            if impl != spec:
                self.failing.append({"case": line, "impl": impl, "spec": spec, "spec_source": "Spec.DomSpec.spec_view"})
            ref = spec
        else:
            self.mirror_judged += 1
            ref = mirrors["mirror"]
            if len(set(mirrors.values())) != 1:
                # the theorems say this cannot happen on a rooted graph
                self.disagreements.append({"case": line, "impl": impl, "model": "the three iteration orders of the mirror differ",
                                           "order": "mirror"})
            elif impl != ref:
                self.failing.append({"case": line, "impl": impl, "spec": ref,
                                     "spec_source": "Model.Dom.dominator_tree (equal to the definitions on rooted graphs: "
                                                    "C15_dominators_exact, C15_idom_exact, C15_dom_tree_children_invert_idom_all, "
                                                    "C15_frontier_exact; the graph passed rooted_fast_b)"})
        if shape:
            self.note_shape(line, ref, prod)


def run(ctx, proofs):
    HARNESS_BIN = common.build_harness("dom")
    MODEL_BIN = common.build_model("dom")
    quick = ctx.tier == "quick"
    T = Tally()
    evaluations = 0
    import time
    t0 = [time.time()]

    def lap(what):
        common.log("C15 %s: %.1fs" % (what, time.time() - t0[0]))
        t0[0] = time.time()
    # (a) exhaustive sweeps: both sides enumerate the same space in the same order
    jobs = []
    top = 4 if quick else 5
    for n in range(1, top + 1):
        jobs += [(n, lo, hi) for lo, hi in split(0, 1 << (n * (n - 1)), 1 if n < 4 else (16 if n == 4 else 256))]
    slices = []
    if quick:
        for _ in range(NSLICES):
            lo = ctx.rng.randrange(0, (1 << 20) - 2048)
            slices.append((5, lo, lo + 2048))
        jobs += slices
    per_job = {m: run_sweeps(MODEL_BIN, [m], jobs) for m in MODES}
    by_mode = {m: flat(per_job[m]) for m in MODES}

    def one_by_one(k):
        # the graphs of job k as the oracle side lists them, through the line mode of the harness
        heads = [l.split(" = ", 1)[0] for l in per_job["spec"][k]]
        res = run_jobs([("impl", HARNESS_BIN, [], [edges_line(h) for h in heads])])["impl"]
        return ["%s = %s" % (h, rhs(r)) for h, r in zip(heads, res)]
    impl = flat(run_sweeps(HARNESS_BIN, [], jobs, fallback=one_by_one))
    heads_i = [l.split(" = ", 1)[0] for l in impl]
    for m in MODES:
        heads_m = [l.split(" = ", 1)[0] for l in by_mode[m]]
        if heads_m != heads_i:
            # the two sides disagree about which enumerated graphs are rooted, or a side died
            k = next((i for i, (a, b) in enumerate(zip(heads_i, heads_m)) if a != b), min(len(heads_i), len(heads_m)))
            raise common.BuildError("sweep outputs of harness and model (%s) do not list the same graphs" % m,
                                    "first difference at line %d: %r vs %r" % (k, heads_i[k:k + 1], heads_m[k:k + 1]))
    n_sweep = len(impl)
    for k, h in enumerate(heads_i):
        line = edges_line(h)
        # shapes of the exhaustive part are counted up to n = 4 (the slices of n = 5 would double the run time)
        T.case(line, rhs(impl[k]), {m: rhs(by_mode[m][k]) for m in MIRRORS}, rhs(by_mode["spec"][k]), None,
               shape=not h.startswith("5 ") or not quick)
    evaluations += n_sweep
    lap("sweeps")

    # (b) seeded random rooted digraphs, (d) corpus: all four model modes + rootedness
    nrand = 20000 if quick else 150000
    gen = [random_graph(ctx.rng) for _ in range(nrand)]
    corpus = corpus_lines()
    lines = corpus + [g for g, _ in gen]
    pb_hist = {}
    for _, pb in gen:
        pb_hist[str(pb)] = pb_hist.get(str(pb), 0) + 1
    impl_r = robust_lines(HARNESS_BIN, [], lines)
    by_mode_r = {m: common.run_lines(MODEL_BIN, [m], lines, shards=common.NPROC) for m in MODES + ["rooted"]}
    if any(len(by_mode_r[m]) != len(lines) for m in by_mode_r) or len(impl_r) != len(lines):
        raise common.BuildError("line-mode outputs are incomplete", "%d lines, impl %d" % (len(lines), len(impl_r)))
    for k, line in enumerate(lines):
        T.case(line, rhs(impl_r[k]), {m: rhs(by_mode_r[m][k]) for m in MIRRORS}, rhs(by_mode_r["spec"][k]), rhs(by_mode_r["rooted"][k]))
    evaluations += len(lines)
    lap("random small graphs and corpus")

    # (c) families beyond the exhaustive bound
    fam = family_graphs(ctx.rng, quick)
    order = list(range(len(fam)))
    ctx.rng.shuffle(order)
    fam = [fam[i] for i in order]
    flines = [f[0] for f in fam]
    idx_spec = [k for k, f in enumerate(fam) if f[2]]
    res = run_jobs([("impl", HARNESS_BIN, [], flines)] + [(m, MODEL_BIN, [m], flines) for m in MIRRORS + ["rooted"]]
                   + [("spec", MODEL_BIN, ["spec"], [flines[k] for k in idx_spec])])
    impl_f, mir_f, root_f, spec_out = res["impl"], {m: res[m] for m in MIRRORS}, res["rooted"], res["spec"]
    spec_f = {k: rhs(spec_out[j]) for j, k in enumerate(idx_spec)}
    fam_hist = {}
    for k, (line, name, use_spec) in enumerate(fam):
        fam_hist[name] = fam_hist.get(name, 0) + 1
        T.case(line, rhs(impl_f[k]), {m: rhs(mir_f[m][k]) for m in MIRRORS}, spec_f.get(k), rhs(root_f[k]))
    evaluations += len(fam)
    lap("families")

    # (e) the production node type
    nprog = 300 if quick else 2000
    progs = [circom_function(ctx.rng) for _ in range(nprog)] + big_programs(ctx.rng, quick)
    cfg_out = robust_lines(HARNESS_BIN, ["cfg"], progs)
    if len(cfg_out) != len(progs):
        raise common.BuildError("cfg-mode output is incomplete", "%d programs, %d lines" % (len(progs), len(cfg_out)))
    cfg_cases, cfg_skipped, cfg_dead = [], {}, []
    for src, o in zip(progs, cfg_out):
        if " = " in o and o.split(" = ", 1)[0].split()[0].isdigit():
            cfg_cases.append((src, o.split(" = ", 1)[0], rhs(o)))
        elif o.endswith(" = died") or o in ("parse-panic", "lift-panic"):
            # the process or the lifter died on this program: never silent
            cfg_dead.append((src, "died" if o.endswith(" = died") else o))
        else:
            cfg_skipped[o[:40]] = cfg_skipped.get(o[:40], 0) + 1
    glines = [c[1] for c in cfg_cases]
    idx_c = [k for k, g in enumerate(glines) if int(g.split()[0]) <= 40]
    by_mode_c = run_jobs([(m, MODEL_BIN, [m], glines) for m in MIRRORS + ["rooted"]]
                         + [("spec", MODEL_BIN, ["spec"], [glines[k] for k in idx_c])])
    spec_c_out = by_mode_c["spec"]
    spec_c = {k: rhs(spec_c_out[j]) for j, k in enumerate(idx_c)}
    prod_sizes = {}
    for k, (src, gline, res) in enumerate(cfg_cases):
        before = len(T.failing), len(T.disagreements), len(T.unrooted)
        T.case(gline, res, {m: rhs(by_mode_c[m][k]) for m in MIRRORS}, spec_c.get(k), rhs(by_mode_c["rooted"][k]), prod=True)
        T.classes["production_template"] += src.startswith("template")
        T.classes["production_early_return"] += "{ return" in src
        for lst, b in zip((T.failing, T.disagreements), before):
            for item in lst[b:]:
                item["circom"] = src          # replayed through the production path
        n = gline.split()[0]
        prod_sizes[n] = prod_sizes.get(n, 0) + 1
    evaluations += len(cfg_cases)
    lap("production graphs")

    for l in lines + flines + glines:
        k = l.split()[0]
        T.sizes[k] = T.sizes.get(k, 0) + 1

    # ---- verdict ----
    # the smallest failing graphs are the ones reported
    failing = sorted(T.failing, key=lambda f: (int(f["case"].split()[0]), len(f["case"])))
    disagreements = sorted(T.disagreements, key=lambda d: (int(d["case"].split()[0]), len(d["case"])))
    for f in failing[:5]:
        more = "" if len(failing) <= 5 else " (%d failing graphs in all, the first five are reported)" % len(failing)
        rep = {"input": f["case"], "impl": f["impl"], "spec": f["spec"], "spec_source": f["spec_source"]}
        if "circom" in f:
            rep["circom"] = f["circom"]
        ctx.violation("dominator tree of the rooted digraph `%s`%s differs from the path-based definition: implementation %s, definition %s%s"
                      % (f["case"][:400], " (control-flow graph of `%s`)" % f["circom"] if "circom" in f else "",
                         f["impl"][:600], f["spec"][:600], more), rep)
    if not failing:
        if disagreements:
            d = disagreements[0]
            ctx.violation("correspondence Model.Dom.dominator_tree vs dominator_tree.rs broken (%d cases, first: %s impl=%s model=%s); "
                          "the definition held on every explored rooted graph" % (len(disagreements), d["case"][:300], d["impl"][:300], d["model"][:300]),
                          {"broken": "correspondence dom (Model.Dom.dominator_tree)", "first": d, "count": len(disagreements)}, no_input=True)
        elif proofs["failures"]:
            ctx.violation("proof obligations of C15 no longer check: " + "; ".join(proofs["failures"])[:500],
                          {"broken": "props/C15.v", "failures": proofs["failures"]}, no_input=True)
    for src, how in cfg_dead[:3]:
        ctx.violation("lifting `%s` and computing its dominator tree ends in `%s` (%d such programs)" % (src, how, len(cfg_dead)),
                      {"circom": src, "impl": how, "spec": "a control-flow graph with its dominator tables"})
    # hypotheses and machinery: never silent
    if T.unrooted:
        ctx.violation("hypothesis `rooted g` of the C15 theorems is not met by %d explored graph(s) (every generator is meant to "
                      "produce rooted graphs; the production graphs are meant to be rooted by C12), first: %s"
                      % (len(T.unrooted), T.unrooted[0][:300]),
                      {"broken": "hypothesis rooted (Spec.DomFast.rooted_fast_b)", "first": T.unrooted[0], "count": len(T.unrooted)}, no_input=True)
    if T.rooted_tests_disagree:
        ctx.violation("rooted_b and rooted_fast_b, proved equivalent (C15_rooted_b_sound + C15_rooted_b_complete, C15_rooted_fast_b_exact), disagree on %d graph(s): "
                      "extraction or driver fault" % len(T.rooted_tests_disagree),
                      {"broken": "model driver dom (rooted vs spec)", "first": T.rooted_tests_disagree[0]}, no_input=True)
    missing = [k for k in REQUIRED if T.classes[k] == 0]
    if missing:
        ctx.violation("the generators of C15 never produced a graph of the class(es) %s named in the rule text" % ", ".join(missing),
                      {"broken": "generator coverage of C15", "missing": missing, "cfg_mode_skipped": cfg_skipped}, no_input=True)

    ncorp = len(corpus)
    ctx.coverage.update({
        "evaluations": evaluations,
        "distinct_nontrivial": len(T.nontrivial),
        "rule": "every digraph on n <= %d nodes without edges into node 0 in which all nodes are reachable from 0 "
                "(self loops, irreducible loops, parallel joins included)%s, plus %d seeded random rooted digraphs with 2..14 nodes "
                "(spanning tree from 0 of random depth, forward/cross edges, per-node back-edge probability from "
                "{0,.05,.1,.2,.3,.4,.5}, node numbers shuffled), plus %d graphs of twelve families (lib/props/c15gen.py; ten of them above 129 nodes, four at 450..600) with 15..40 "
                "nodes, with 63/64/65 nodes, with 127/128/129/255/256/257/300 nodes, at scattered sizes in between and with 450..600 nodes, "
                "plus the control-flow graphs of %d generated Circom functions and templates (small random ones; large ones with up to "
                "several hundred blocks, nests, sequences, early returns) read through the production node type and the Cfg::get_* "
                "wrappers, plus the corpus; "
                "distinct-nontrivial = distinct result (dominator sets, idom, children, frontiers) among graphs with at least one "
                "non-empty dominance frontier"
                % (top, ", plus %d seeded slices of 2048" % NSLICES + " consecutive edge sets of the n = 5 space" if quick else "",
                   nrand, len(fam), len(cfg_cases)),
        "exhaustive": False,
        "exhaustive_part": "all rooted digraphs with n <= %d: %d graphs%s" % (
            top, n_sweep - (sum(1 for h in heads_i if h.startswith("5 ")) if quick else 0),
            " (+ %d rooted graphs from the n = 5 slices)" % sum(1 for h in heads_i if h.startswith("5 ")) if quick else ""),
        "samples": [disagreements[0]] if disagreements else [
            edges_line(heads_i[len(impl) // 3]) + " = " + rhs(impl[len(impl) // 3]), impl_r[ncorp], impl_r[-1],
            (cfg_cases[0][0] + " -> " + cfg_cases[0][1] + " = " + cfg_cases[0][2]) if cfg_cases else "no production graph"],
        "graph_sizes_beyond_the_sweep": T.sizes,
        "family_histogram": fam_hist,
        "production_cfg_sizes": prod_sizes,
        "production_programs_without_cfg": cfg_skipped,
        "production_programs_that_died": len(cfg_dead),
        "back_edge_probability_histogram": pb_hist,
        "dominator_tree_depth_histogram": {str(k): v for k, v in sorted(T.depth.items())},
        "max_in_degree_histogram": {str(k): v for k, v in sorted(T.indeg.items())},
        "largest_frontier_histogram": {str(k): v for k, v in sorted(T.maxdf.items())},
        "production_envelope": T.prod_envelope,
        "classes_explored": T.classes,
        "hypothesis_rooted": {"evaluated_by_rooted_fast_b": T.rooted_evaluated,
                              "evaluated_by_rooted_b_in_sweeps": n_sweep,
                              "not_met": len(T.unrooted)},
        "hypothesis_order_ok": "proved for the three orders the mirror is run under (C15_orders_ok); that the hash order of the "
                               "real HashSet iteration is a permutation of the members is assumed",
        "judged_by_proved_oracle": T.spec_judged,
        "judged_by_mirror_only": T.mirror_judged,
        "iteration_orders_of_candidate_set": ["ascending", "descending", "rotated by block index"],
        "disagreements_model_vs_impl": len(disagreements),
        "spec_failures": len(failing),
        "open_statements": [],
    })
    ctx.assumptions += [
        "std::collections::HashSet<usize> behaves as a finite set (insert, remove, contains, len, ==, intersection, union, "
        "difference, iteration = some permutation of the members), modelled by N bit masks: observed by the correspondence, not proved",
        "the harness node type gives predecessor/successor sets that mirror each other; graphs with unreachable nodes or "
        "edges into node 0 are outside the property and are not generated (with unreachable nodes the real result depends on the hash "
        "order; with an edge into node 0 it is deterministic, but an entry with exactly one predecessor gets an empty frontier row "
        "where the definition has members: the `len() > 1` short cut); an explored "
        "graph that fails the proved rootedness test is reported",
        "graphs with more than %d nodes are judged against the mirror (proved equal to the definitions on rooted graphs), not "
        "against the separately extracted oracle, whose list-based reachability is quartic" % SPEC_MAX,
        "the production instantiation DominatorTree<BasicBlock> and the Cfg::get_* wrappers are compared on the control-flow graphs of "
        "generated functions and templates (if / if-else / while / early return over two variables; this run: %s); such graphs are "
        "reducible and their frontiers have at most two members (structured code without break) - large frontiers and irreducible "
        "loops reach the generic function through the harness node type only; a cap in the wrappers keyed on a size beyond this envelope would pass" % json.dumps(T.prod_envelope),
        "thresholds: the largest graphs explored have 600 nodes (450 passes of the iteration, walks and dominator sets of 600, "
        "frontiers of 517, joins of 597 predecessors); an edit keyed on a larger number (e.g. a cap of 1024 passes) is not reached; "
        "every non-threshold 1-2 line edit of dominator_tree.rs:59-159 the reviewers and the owner tried shows at n <= 5",
        "the implementation runs under one process-random hash order per graph (the mirror under three fixed orders): a regression "
        "that depends on the iteration order is met at its per-order hit rate",
    ]


def replay(ctx, rep):
    HARNESS_BIN = common.build_harness("dom")
    MODEL_BIN = common.build_model("dom")
    line = rep.get("input")
    if not line and rep.get("circom"):
        out = robust_lines(HARNESS_BIN, ["cfg"], [rep["circom"]])
        print("production path:", out[0][:2000])
        return 1 if (out[0].endswith(" = died") or out[0] in ("parse-panic", "lift-panic")) else 0
    if not line:
        print("replay names a broken obligation, not an input:", rep.get("broken"))
        return 1
    n = int(line.split()[0])
    ok = True
    if rep.get("circom"):
        out = robust_lines(HARNESS_BIN, ["cfg"], [rep["circom"]])
        print("production path:", out[0][:2000])
        if " = " in out[0]:
            line = out[0].split(" = ", 1)[0]
            impl = rhs(out[0])
        else:
            return 1
    else:
        impl = rhs(robust_lines(HARNESS_BIN, [], [line])[0])
    rooted = rhs(common.run_lines(MODEL_BIN, ["rooted"], [line])[0])
    print("graph         :", line[:2000])
    print("hypothesis    :", rooted)
    print("implementation:", impl[:4000])
    if n <= SPEC_MAX:
        spec = rhs(common.run_lines(MODEL_BIN, ["spec"], [line], timeout=1800)[0])
        print("specification :", spec[:4000])
        ok = ok and impl == spec
    else:
        for m in MIRRORS:
            mir = rhs(common.run_lines(MODEL_BIN, [m], [line])[0])
            print("%-14s: %s" % (m, mir[:4000]))
            ok = ok and impl == mir
        print("(more than %d nodes: the reference is the mirror, proved equal to the definitions on rooted graphs)" % SPEC_MAX)
    return 0 if ok and rooted == "rooted" else 1
