"""C12 — the control-flow graph of every definition is well formed.

Correspondence: the real parser + `IntoCfg::into_cfg` (+ `into_ssa`) against the
extracted Gallina mirror `Model.Lift.lift (desugar u)` on every surface
statement skeleton up to a node bound (rendered to a Circom function whose
leaves and conditions carry their ids), on seeded random skeletons up to 60
nodes and on the regression corpus.  Oracle: the clauses of the property
(entry, reachability, edge mirroring, branch placement and targets, successor
counts, path-based dominance, syntactic loop nesting, every statement exactly
once) evaluated by lifteng.wellformed_failures on the implementation's blocks."""
import json
import os

import common
import lifteng


def corpus_cases(prop):
    d = os.path.join(common.VERIF, "corpus", prop)
    out = []
    if os.path.isdir(d):
        for f in sorted(os.listdir(d)):
            if f.endswith(".json"):
                rec = json.load(open(os.path.join(d, f)))
                c = lifteng.make_case(lifteng.from_jsonable(rec["body"]))
                c["corpus"] = f
                out.append(c)
    return out


def gen_cases(ctx, quick_nodes, thorough_nodes, n_random_quick, n_random_thorough, sample9=0):
    quick = ctx.tier == "quick"
    max_nodes = quick_nodes if quick else thorough_nodes
    cases = [lifteng.make_case(b) for b in lifteng.bodies(max_nodes)]
    n_exh = len(cases)
    if not quick and sample9:
        pool = lifteng.gen_block(max_nodes + 1)
        for _ in range(sample9):
            cases.append(lifteng.make_case(pool[ctx.rng.randrange(len(pool))]))
    n_rand = n_random_quick if quick else n_random_thorough
    sizes = {}
    for _ in range(n_rand):
        b = lifteng.rand_body(ctx.rng, 60, 12)
        sizes[lifteng.size(b) // 10 * 10] = sizes.get(lifteng.size(b) // 10 * 10, 0) + 1
        cases.append(lifteng.make_case(b))
    return cases, n_exh, max_nodes, sizes


def run(ctx, proofs):
    corpus = corpus_cases("C12")
    cases, n_exh, max_nodes, sizes = gen_cases(ctx, 7, 8, 3000, 30000, sample9=300000)
    cases = corpus + cases
    results = lifteng.run_cfg(common, cases)
    disagreements, failing = [], []
    shapes = set()
    kinds = {"blocks>=2": 0, "with_loop": 0, "with_branch_pending_at_end": 0}
    # second audit: `# ssa skipped` (the driver does not run into_ssa on deeply nested if/else, lifteng.SSA_MAX_ELSE)
    # is accepted by cfg_compare and by the clauses below without a word; it is counted here, per reason, and a run
    # in which more than half of the cases skip into_ssa is degenerate
    ssa = {"checked": 0, "skipped": 0, "not_reached(into_cfg failed)": 0}
    for case, impl, model in results:
        d = lifteng.cfg_compare(case, impl, model)
        if d is not None:
            disagreements.append(d)
        if impl.startswith("cfg ") and " # ssa " in impl:
            for which, text in zip(("into_cfg", "into_ssa"), impl[4:].split(" # ssa ", 1)):
                if which == "into_ssa":
                    ssa["skipped" if text == "skipped" else "checked"] += 1
                if text == "skipped":
                    continue
                if text in ("error", "panic"):
                    failing.append({"input": case["src"], "body": lifteng.to_jsonable(case["body"]),
                                    "impl": which + " " + text,
                                    "spec": "the definition lifts (Model.Lift.lift: %s)" % model[:200]})
                    continue
                bad = lifteng.wellformed_failures(lifteng.parse_blocks(text), case["depth"])
                if bad:
                    failing.append({"input": case["src"], "body": lifteng.to_jsonable(case["body"]),
                                    "impl": which + ": " + text, "spec": bad[:5]})
            before = impl[4:].split(" # ssa ", 1)[0]
            if before.count("; ") >= 1:
                if before not in shapes:
                    shapes.add(before)
                    kinds["blocks>=2"] += 1
                    if " d1 " in before:
                        kinds["with_loop"] += 1
                    if "/-" in before:
                        kinds["with_branch_pending_at_end"] += 1
        else:
            ssa["not_reached(into_cfg failed)"] += 1
        if impl in ("cfg panic", "cfg error", "noparse"):
            # every generated skeleton follows the grammar and must lift
            failing.append({"input": case["src"], "body": lifteng.to_jsonable(case["body"]), "impl": impl,
                            "spec": "parses and lifts (model: %s)" % model[:200]})
    for f in failing[:5]:
        ctx.violation("the control-flow graph of a definition is not well formed: %s" % (f["spec"],), f)
    if not failing:
        if disagreements:
            d = disagreements[0]
            ctx.violation("correspondence Model.Lift.lift vs lifting.rs broken (%d cases; first: %s); every clause of the "
                          "property still held on every explored input" % (len(disagreements), d["src"]),
                          {"broken": "correspondence lift (Model.Lift.lift vs into_cfg/into_ssa)", "first": d,
                           "count": len(disagreements)}, no_input=True)
        elif proofs["failures"]:
            ctx.violation("proof obligations of C12 no longer check: " + "; ".join(proofs["failures"])[:500],
                          {"broken": "props/C12.v", "failures": proofs["failures"]}, no_input=True)
        elif 2 * ssa["skipped"] > len(results):
            ctx.violation("degenerate run: into_ssa was skipped on %d of %d cases (more than half); the graph after SSA was "
                          "compared and checked on %d only" % (ssa["skipped"], len(results), ssa["checked"]),
                          {"broken": "coverage of the check: `# ssa skipped` accepted on more than half of the cases", "ssa": ssa},
                          no_input=True)
    ctx.coverage.update({
        "evaluations": len(results),
        "distinct_nontrivial": len(shapes),
        "rule": "every surface skeleton body (leaf, return, declaration with/without initialisers, block incl. empty, "
                "while, if, if/else, for; bare and braced bodies as the grammar allows) with at most %d nodes, exhaustively "
                "(%d programs)%s, plus %d seeded random bodies up to 60 nodes and nesting depth 12 and %d corpus programs; "
                "both the block list after into_cfg and after into_ssa (phis dropped) are compared with the model and checked "
                "against the property's clauses; distinct-nontrivial = distinct block lists with at least two blocks"
                % (max_nodes, n_exh, "" if ctx.tier == "quick" else " and 300000 sampled bodies with %d nodes" % (max_nodes + 1),
                   sum(sizes.values()), len(corpus)),
        "exhaustive": True,
        "exhaustive_part": "all %d bodies with <= %d nodes" % (n_exh, max_nodes),
        "random_size_histogram": {str(k): v for k, v in sorted(sizes.items())},
        "shape_kinds": kinds,
        "into_ssa": dict(ssa, rule="per case: `checked` = the block list after into_ssa was compared with the model and checked "
                                   "against the clauses; `skipped` = the driver did not run into_ssa (more than %d `else` branches: "
                                   "memory exponential in the if/else nesting) and only the graph after into_cfg was compared and "
                                   "checked; a run with more than half skipped is reported as degenerate" % lifteng.SSA_MAX_ELSE),
        "samples": [disagreements[0]] if disagreements else [
            {"src": results[len(results) // 3][0]["src"], "impl": results[len(results) // 3][1][:300]},
            {"src": results[-1][0]["src"][:300], "impl": results[-1][1][:300]}],
        "disagreements_model_vs_impl": len(disagreements),
        "spec_failures": len(failing),
    })
    ctx.assumptions += [
        "the skeleton abstraction: lifting looks only at the statement kind and the sub-statements (leaf lifting "
        "`stmt.try_lift` never fails and never touches the block structure) — observed by the correspondence on rendered programs",
        "HashSet iteration order in `for i in pred_set`: the model iterates in increasing order; the result of the loop is "
        "characterised by membership only (complete_spec / back_fold in Proofs.LiftInv), the implementation is observed "
        "with its real random hash order",
        "definition_complexity.rs computes (2 + edges) - nodes on usize: C12_complexity_no_underflow proves nodes <= 1 + edges "
        "for every lifted graph (from C12_descending_path); that the pass adds up exactly successors().len() per block is read "
        "off the source, the pass itself is not mirrored",
    ]


def replay(ctx, rep):
    body = rep.get("body")
    if not body:
        print("replay names a broken obligation, not an input:", rep.get("broken"))
        return 1
    case = lifteng.make_case(lifteng.from_jsonable(body))
    (_, impl, model), = lifteng.run_cfg(common, [case])
    print("source        :", case["src"])
    print("implementation:", impl)
    print("model         :", model)
    bad = []
    if impl.startswith("cfg ") and " # ssa " in impl:
        for which, text in zip(("into_cfg", "into_ssa"), impl[4:].split(" # ssa ", 1)):
            if text == "skipped":
                continue
            if text in ("error", "panic"):
                bad.append(which + " " + text)
            else:
                bad += [which + ": " + b for b in lifteng.wellformed_failures(lifteng.parse_blocks(text), case["depth"])]
    else:
        bad.append(impl)
    for b in bad[:8]:
        print("violated      :", b)
    return 1 if bad else 0
