"""C12 — the control-flow graph of every definition is well formed.

Correspondence: the real parser + `IntoCfg::into_cfg` (+ `into_ssa`) against the
extracted Gallina mirror `Model.Lift.lift (desugar u)` on every surface
statement skeleton up to a node bound (rendered to a Circom function whose
leaves and conditions carry their ids), on seeded random skeletons up to 60
nodes and on the regression corpus.  Oracle: the clauses of the property
(entry, reachability, edge mirroring, branch placement and targets, successor
counts, path-based dominance, syntactic loop nesting, every statement exactly
once; after into_ssa also: phi statements first, branch last) evaluated by
lifteng.wellformed_failures on the implementation's blocks.

Third audit.  (1) The phi statements stay in the block lists the harness prints
(they used to be filtered out, so "phis first, branch last" after into_ssa was
never looked at).  (2) Stage `templates and functions as the production code lifts
them` (liftfull_engine.c12_stage): the same clauses on every definition of the
programs of the liftfull engine - templates with signal / component declarations
(also under control flow), `<==`, `<--`, `===`, assert, log, custom and parallel
templates, functions - lifted by the production `impl TryLift for &TemplateData /
&FunctionData` after the real desugarer, before and after into_ssa; a failure is a
violation of C12 WITH the source as failing input.  (3) The hypothesis of
C12_lift_never_panics is now Proofs.LiftTotalFlat.desugared_shape (the shape real
desugared bodies have; `parser_shaped` is false for tuple / anonymous-component
declarations); it is EVALUATED on every real desugared body of that stage by the
extracted decision LiftFull.is_block && LiftFull.ast_init_flat
(C12_desugared_shape_decided); an unmet hypothesis is a violation.  (4) The
accessors `Cfg::len / is_empty / entry_block / get_basic_block`, `BasicBlock::in_loop
/ len / is_empty` are read on every graph and compared with the block iterator."""
import json
import os
import sys

import common
import lifteng

sys.path.insert(0, os.path.dirname(os.path.abspath(__file__)))
import liftfull_engine  # noqa: E402


def corpus_cases(prop):
    d = os.path.join(common.VERIF, "corpus", prop)
    out = []
    if os.path.isdir(d):
        for f in sorted(os.listdir(d)):
            if f.endswith(".json"):
                rec = json.load(open(os.path.join(d, f)))
                c = lifteng.make_case(lifteng.from_jsonable(rec["body"]))
                c["corpus"] = f
                out.append(c)
    return out


def corpus_sources(prop):
    """corpus/C12/*.circom: sources of past failures of the template stage."""
    d = os.path.join(common.VERIF, "corpus", prop)
    out = []
    if os.path.isdir(d):
        for f in sorted(os.listdir(d)):
            if f.endswith(".circom"):
                out.append(("corpus/" + f, open(os.path.join(d, f)).read()))
    return out


def gen_cases(ctx, quick_nodes, thorough_nodes, n_random_quick, n_random_thorough, sample9=0):
    quick = ctx.tier == "quick"
    max_nodes = quick_nodes if quick else thorough_nodes
    cases = [lifteng.make_case(b) for b in lifteng.bodies(max_nodes)]
    n_exh = len(cases)
    if not quick and sample9:
        pool = lifteng.gen_block(max_nodes + 1)
        for _ in range(sample9):
            cases.append(lifteng.make_case(pool[ctx.rng.randrange(len(pool))]))
    n_rand = n_random_quick if quick else n_random_thorough
    sizes = {}
    for _ in range(n_rand):
        b = lifteng.rand_body(ctx.rng, 60, 12)
        sizes[lifteng.size(b) // 10 * 10] = sizes.get(lifteng.size(b) // 10 * 10, 0) + 1
        cases.append(lifteng.make_case(b))
    return cases, n_exh, max_nodes, sizes


def skeleton_failures(case, impl):
    """(failing records of one skeleton case, how into_ssa went)"""
    out = []
    parts = lifteng.split_cfg_line(impl)
    if parts is None:
        return out, "not_reached(into_cfg failed)"
    before, after, api = parts
    how = "skipped" if after == "skipped" else "checked"
    for which, text in (("into_cfg", before), ("into_ssa", after)):
        if text == "skipped":
            continue
        if text in ("error", "panic"):
            out.append({"input": case["src"], "body": lifteng.to_jsonable(case["body"]), "impl": which + " " + text,
                        "spec": "the definition lifts"})
            continue
        bad = lifteng.wellformed_failures(lifteng.parse_blocks(text), case["depth"])
        if bad:
            out.append({"input": case["src"], "body": lifteng.to_jsonable(case["body"]),
                        "impl": which + ": " + text, "spec": bad[:5]})
    if api != "ok":
        out.append({"input": case["src"], "body": lifteng.to_jsonable(case["body"]), "impl": "accessors: " + api,
                    "spec": ["Cfg::len / entry_block / get_basic_block / BasicBlock::in_loop / len agree with the block iterator"]})
    return out, how


def run(ctx, proofs):
    quick = ctx.tier == "quick"
    corpus = corpus_cases("C12")
    cases, n_exh, max_nodes, sizes = gen_cases(ctx, 7, 8, 3000, 30000, sample9=300000)
    cases = corpus + cases
    results = lifteng.run_cfg(common, cases)
    disagreements, failing = [], []
    shapes = set()
    kinds = {"blocks>=2": 0, "with_loop": 0, "with_branch_pending_at_end": 0, "with_phi_after_ssa": 0}
    # second audit: `# ssa skipped` (the driver does not run into_ssa on deeply nested if/else, lifteng.SSA_MAX_ELSE)
    # is accepted by cfg_compare and by the clauses below without a word; it is counted here, per reason, and a run
    # in which more than half of the cases skip into_ssa is degenerate
    ssa = {"checked": 0, "skipped": 0, "not_reached(into_cfg failed)": 0}
    unknown_ids = 0
    for case, impl, model in results:
        d = lifteng.cfg_compare(case, impl, model)
        if d is not None:
            disagreements.append(d)
        bad, how = skeleton_failures(case, impl)
        for b in bad:
            if b["spec"] == "the definition lifts":
                b["spec"] = "the definition lifts (Model.Lift.lift: %s)" % model[:200]
        failing += bad
        ssa[how] += 1
        parts = lifteng.split_cfg_line(impl)
        if parts is not None:
            before, after, _ = parts
            unknown_ids += before.count("L? ") + before.count("C?>")
            if before.count("; ") >= 1 and before not in shapes:
                shapes.add(before)
                kinds["blocks>=2"] += 1
                if " d1 " in before:
                    kinds["with_loop"] += 1
                if "/-" in before:
                    kinds["with_branch_pending_at_end"] += 1
                if "[P" in after:
                    kinds["with_phi_after_ssa"] += 1
        if impl in ("cfg panic", "cfg error", "noparse"):
            # every generated skeleton follows the grammar and must lift
            failing.append({"input": case["src"], "body": lifteng.to_jsonable(case["body"]), "impl": impl,
                            "spec": "parses and lifts (model: %s)" % model[:200]})
    # ---- templates and functions as the production code lifts them (third audit) ----
    tstage = liftfull_engine.c12_stage(common, ctx.rng, quick, extra_programs=corpus_sources("C12"))
    tfailing = [dict(f, liftfull_src=f["input"]) for f in tstage["failing"]]
    # ---- the hypothesis of C12_lift_never_panics on real desugared bodies (third audit) ----
    hyp = {"evaluated": 0, "desugared_shape": 0, "parser_shaped": 0, "not_evaluated": 0}
    hyp_bad = []
    # fourth audit: the sample used to be the FIRST 1 500 sources (never c18matrix / c18deep, where the tuple declarations
    # live): all of c18matrix / c18deep / the skeleton templates with deep nests, and a seeded sample of the rest
    pool = liftfull_engine.gen_programs(ctx.rng, quick)
    always = [p for p in pool if p[0].startswith(("c18matrix", "c18deep", "tdeepnest"))]
    rest = [p for p in pool if p[0].startswith(("c18rand", "proggen", "targeted", "tshape", "trandshape"))]
    ctx.rng.shuffle(rest)
    rows, statuses = liftfull_engine.flags_for_sources(
        common, [("fixed/" + k, s) for k, s in liftfull_engine.FIXED] + corpus_sources("C12") + always + rest[:1300])
    seen_defs = set()
    for row in rows:
        if row["def"] in seen_defs:
            continue
        seen_defs.add(row["def"])
        ds, ps = row["flags"].get("DS"), row["flags"].get("PS")
        if ds not in ("0", "1") or ps not in ("0", "1"):
            hyp["not_evaluated"] += 1
            hyp_bad.append({"input": row["src"], "definition": row["def"][:300], "impl": row["impl"][:200],
                            "spec": "the model driver evaluates desugared_shape on this body (it printed: %s)" % row["model"][:120]})
            continue
        hyp["evaluated"] += 1
        hyp["desugared_shape"] += ds == "1"
        hyp["parser_shaped"] += ps == "1"
        if ds != "1":
            hyp_bad.append({"input": row["src"], "definition": row["def"][:300], "impl": row["impl"][:200],
                            "spec": "the desugared body has Proofs.LiftTotalFlat.desugared_shape, the hypothesis of C12_lift_never_panics"})
        elif row["impl"] == "(panic)":
            hyp_bad.append({"input": row["src"], "definition": row["def"][:300], "impl": "into_cfg panics",
                            "spec": "C12_lift_never_panics: a body of desugared_shape lifts without a panic"})
    for f in failing[:5]:
        ctx.violation("the control-flow graph of a definition is not well formed: %s" % (f["spec"],), f)
    for f in tfailing[:5]:
        ctx.violation("the control-flow graph of a definition (template / function lifted by the production code) is not well "
                      "formed: %s" % (f["spec"],), f)
    for f in hyp_bad[:3]:
        ctx.violation("hypothesis / conclusion of C12_lift_never_panics fails on a real desugared body: %s" % f["spec"],
                      dict(f, liftfull_src=f["input"]))
    if hyp["evaluated"] == 0:
        ctx.violation("degenerate run: desugared_shape, the hypothesis of C12_lift_never_panics, was evaluated on no real body",
                      {"broken": "evaluation of the hypothesis desugared_shape", "statuses": dict(statuses)}, no_input=True)
    if tstage["stats"].get("graphs_checked", 0) == 0 or tstage["tie"].get("pairs_evaluated", 0) == 0:
        ctx.violation("degenerate run: the template stage of C12 checked no graph / evaluated the round-4 theorems on no pair",
                      {"broken": "coverage of the check: template stage", "stats": tstage["stats"], "tie": tstage["tie"]},
                      no_input=True)
    # fourth audit: floors of the template generator (bare bodies, `else if`, nested / empty blocks, deep loop nests in
    # TEMPLATES) and of into_ssa (an `error` of into_ssa is skipped by the clauses: counted, at most a fifth)
    if tstage["floors_missed"]:
        ctx.violation("degenerate run: the template generator of C12 produced too few templates with: %s" % tstage["floors_missed"],
                      {"broken": "coverage of the check: floors of the template generator", "floors": tstage["floors"]},
                      no_input=True)
    n_ssa_err = tstage["stats"].get("into_ssa: error", 0)
    if 5 * n_ssa_err > tstage["stats"].get("distinct_definitions", 0):
        ctx.violation("degenerate run: into_ssa answers an error on %d of %d definitions (more than a fifth): the graph after "
                      "into_ssa is checked on the rest only" % (n_ssa_err, tstage["stats"].get("distinct_definitions", 0)),
                      {"broken": "coverage of the check: into_ssa errors", "stats": tstage["stats"]}, no_input=True)
    # fourth audit: the check's own identity clause (a statement is named by its span: every source statement exactly once,
    # in source order - C12_every_item_exactly_once about the mirror) is no clause of the property text.  When it is the ONLY
    # thing that fails on a definition (every clause of the text, the depth clause by span containment included, the
    # decisions cfg_wf / ssa_shape_of and the accessors hold), the lifting changed shape without a failing input
    identity = tstage["identity"]
    if identity and not tfailing:
        ctx.violation("the statements of %d real graphs are not, span for span and in source order, the statements of the "
                      "desugared body (e.g. a meta taken from another node, one statement lifted to two), while every clause of "
                      "the property text holds on every explored graph: shape changed, no failing input found (first: %s)"
                      % (len(identity), identity[0]["clause"]),
                      {"broken": "statement identity by span (C12_loop_depth_is_nesting / C12_every_item_exactly_once as list "
                                 "equalities on the real graph)", "first": identity[0], "count": len(identity)}, no_input=True)
    if not failing and not tfailing and not hyp_bad:
        if disagreements:
            d = disagreements[0]
            ctx.violation("correspondence Model.Lift.lift vs lifting.rs broken (%d cases; first: %s); every clause of the "
                          "property still held on every explored input" % (len(disagreements), d["src"]),
                          {"broken": "correspondence lift (Model.Lift.lift vs into_cfg/into_ssa)", "first": d,
                           "count": len(disagreements)}, no_input=True)
        elif proofs["failures"]:
            ctx.violation("proof obligations of C12 no longer check: " + "; ".join(proofs["failures"])[:500],
                          {"broken": "props/C12.v", "failures": proofs["failures"]}, no_input=True)
        elif 2 * ssa["skipped"] > len(results):
            ctx.violation("degenerate run: into_ssa was skipped on %d of %d cases (more than half); the graph after SSA was "
                          "compared and checked on %d only" % (ssa["skipped"], len(results), ssa["checked"]),
                          {"broken": "coverage of the check: `# ssa skipped` accepted on more than half of the cases", "ssa": ssa},
                          no_input=True)
    ctx.coverage.update({
        "evaluations": len(results) + tstage["stats"].get("graphs_checked", 0),
        "distinct_nontrivial": len(shapes),
        "rule": "every surface skeleton body (leaf, return, declaration with/without initialisers, block incl. empty, "
                "while, if, if/else, for; bare and braced bodies as the grammar allows) with at most %d nodes, exhaustively "
                "(%d programs)%s, plus %d seeded random bodies up to 60 nodes and nesting depth 12 and %d corpus programs; "
                "both the block list after into_cfg and after into_ssa (phi statements INCLUDED: they must come first, the "
                "branch last; for the comparison with the model, which has no phis, they are dropped) are compared with the "
                "model and checked against the property's clauses; distinct-nontrivial = distinct block lists with at least "
                "two blocks; plus the template stage (see `templates_and_functions`)"
                % (max_nodes, n_exh, "" if ctx.tier == "quick" else " and 300000 sampled bodies with %d nodes" % (max_nodes + 1),
                   sum(sizes.values()), len(corpus)),
        "exhaustive": True,
        "exhaustive_part": "all %d bodies with <= %d nodes" % (n_exh, max_nodes),
        "random_size_histogram": {str(k): v for k, v in sorted(sizes.items())},
        "shape_kinds": kinds,
        "items_without_id": unknown_ids,
        "into_ssa": dict(ssa, rule="per case: `checked` = the block list after into_ssa was compared with the model and checked "
                                   "against the clauses; `skipped` = the driver did not run into_ssa (more than %d `else` branches: "
                                   "memory exponential in the if/else nesting) and only the graph after into_cfg was compared and "
                                   "checked; a run with more than half skipped is reported as degenerate" % lifteng.SSA_MAX_ELSE),
        "templates_and_functions": {
            "what": "the real parser, the real desugarer, the production `impl TryLift for &TemplateData / &FunctionData` and "
                    "into_ssa on every definition of the liftfull engine's programs; each graph (before and after SSA) against "
                    "every clause of the property, statements named by their metas, the last clause as the list equality of "
                    "C12_loop_depth_is_nesting; a failure is a violation of C12 with the source as input",
            "programs": tstage["programs"], "stats": tstage["stats"], "definition_kinds": tstage["kinds"],
            "definitions_with_feature": tstage["features"], "by_generator": tstage["by_generator"],
            "failures": len(tfailing),
            "identity_clause_only_failures": len(identity),
            "skeleton_templates": dict(tstage["template_skeleton_features"],
                                       rule="skeletons (all with <= 5 / 6 nodes, random ones up to 60 nodes, nests of 1..12 loops) "
                                            "rendered as TEMPLATES with signal / component declarations, `<==`, `<--`, `===`, assert, "
                                            "log at the leaves; counted per distinct template by the features of its skeleton"),
            "floors": tstage["floors"],
            "round4_theorems_on_real_graphs": dict(
                tstage["tie"],
                rule="per distinct definition that lifts: the REAL graphs with their statements before and after into_ssa (harness "
                     "mode c12, irdump) through the extracted decision procedures: SsaPre.phi_free before (hypothesis of "
                     "C12_ssa_blocks_are_phis_then_image / _ssa_keeps_wf), IrCfgCheck.cfg_wf_b before and after (C12_lifted_graph_wf, "
                     "C12_lifted_ssa_graph_wf; sound for IrCfgSpec.cfg_wf by C12_cfg_wf_b_sound), IrCfgCheck.ssa_shape_b before after "
                     "(IrCfgSpec.ssa_shape_of: same frames, phi assignments ++ same-kind image, one for one; "
                     "C12_ssa_shape_b_sound); every 0 is a violation with the source as input"),
            "complexity_pass": "the REAL definition_complexity.rs pass runs on every SSA graph (through get_analysis_passes) and its "
                               "CS0011 decision is compared with `2 + edges - nodes > 20` computed from the block list (part of the "
                               "accessor field: a mismatch is a violation with input)",
        },
        "hypothesis_desugared_shape": dict(hyp, rule="C12_lift_never_panics assumes desugared_shape of the body; evaluated by the "
                                                     "extracted decision (LiftFull.is_block && LiftFull.ast_init_flat, "
                                                     "C12_desugared_shape_decided) on every distinct definition the real parser + "
                                                     "desugarer produce for the fixed shapes and a sample of the generated programs; "
                                                     "`parser_shaped` = how many also have the narrower shape the theorem used to assume",
                                           sources_without_definition=dict(statuses)),
        "samples": [disagreements[0]] if disagreements else [
            {"src": results[len(results) // 3][0]["src"], "impl": results[len(results) // 3][1][:300]},
            {"src": results[-1][0]["src"][:300], "impl": results[-1][1][:300]}],
        "disagreements_model_vs_impl": len(disagreements),
        "spec_failures": len(failing) + len(tfailing) + len(hyp_bad),
        "open_statements": [
            "the theorems speak about Model.Lift (statement skeletons); that the production lifting of templates and functions "
            "has this block structure is C13_liftfull_skeleton (Model.LiftFull, tied by C13's liftfull stage) - C12's template "
            "stage checks the clauses on the real graphs directly, it does not rely on it",
        ],
    })
    ctx.assumptions += [
        "the skeleton abstraction: lifting looks only at the statement kind and the sub-statements (leaf lifting "
        "`stmt.try_lift` never fails and never touches the block structure) — observed by the correspondence on rendered programs "
        "and proved for the content-carrying mirror (C13_liftfull_skeleton)",
        "HashSet iteration order in `for i in pred_set`: the model iterates in increasing order; the result of the loop is "
        "characterised by membership only (complete_spec / back_fold in Proofs.LiftInv), the implementation is observed "
        "with its real random hash order",
        "definition_complexity.rs computes (2 + edges) - nodes on usize: C12_complexity_no_underflow proves nodes <= 1 + edges "
        "for every lifted graph (from C12_descending_path); the pass itself is not mirrored, its CS0011 decision is compared with "
        "the formula on every SSA graph of the template stage (fourth audit)",
        "a leaf of a rendered skeleton is identified by the number literal of its lifted expression; when that expression holds "
        "no or several literals the harness falls back on the only number literal in the SOURCE TEXT of the node "
        "(lift.rs span_number); items without id are counted (`items_without_id`)",
    ]


def replay(ctx, rep):
    if rep.get("liftfull_src"):
        print("source        :", rep["liftfull_src"])
        n = liftfull_engine.c12_replay(common, rep["liftfull_src"])
        rows, _ = liftfull_engine.flags_for_sources(common, [("replay", rep["liftfull_src"])])
        for row in rows:
            if row["flags"].get("DS") != "1":
                print("violated      : desugared_shape is not 1 on", row["def"][:160])
                n += 1
        return 1 if n else 0
    body = rep.get("body")
    if not body:
        print("replay names a broken obligation, not an input:", rep.get("broken"))
        return 1
    case = lifteng.make_case(lifteng.from_jsonable(body))
    (_, impl, model), = lifteng.run_cfg(common, [case])
    print("source        :", case["src"])
    print("implementation:", impl)
    print("model         :", model)
    bad, _ = skeleton_failures(case, impl)
    if lifteng.split_cfg_line(impl) is None:
        bad.append({"spec": impl})
    for b in bad[:8]:
        print("violated      :", b["spec"], "|", b.get("impl", "")[:300])
    return 1 if bad else 0
