"""C15 (third audit) - graph families beyond the exhaustive bound.

Every function returns the edge list of a ROOTED digraph on the nodes 0..n-1
(no edge into node 0, every node reachable from 0), by construction; the check
nevertheless evaluates rootedness of every produced graph with the proved test
Spec.DomFast.rooted_fast_b.  The families aim at what the random generator of
C15.py (2..14 nodes, in-degree <= 4 in practice) never reaches: many passes of
the data-flow iteration (reverse-numbered chains need one pass per node), deep
dominator trees, long frontier walks, joins with many predecessors, nested and
irreducible loops at scale, dense graphs, node counts around 63/64/65,
127/128/129 and 255/256/257 (widths of machine words, should the sets ever be
packed into one)."""


def rev_chain(n, rng):
    """0 -> n-1 -> n-2 -> ... -> 1: ascending passes move the information one
    node per pass; a few skip edges make joins whose frontier walks are long."""
    es = [(0, n - 1)] + [(i, i - 1) for i in range(n - 1, 1, -1)]
    for _ in range(rng.randrange(0, 4)):
        a = rng.randrange(2, n) if n > 2 else 1
        b = rng.randrange(1, a) if a > 1 else 1
        es.append((a, b))
    return es


def fwd_chain(n, rng):
    """0 -> 1 -> ... -> n-1 with back edges and self loops: a dominator tree of
    depth n."""
    es = [(i, i + 1) for i in range(n - 1)]
    for _ in range(rng.randrange(1, 6)):
        a = rng.randrange(1, n)
        es.append((a, rng.randrange(1, a + 1)))
    return es


def wide_join(n, rng):
    """0 -> 1 -> {2..n-2} -> n-1: a join with n-3 predecessors (plus, often,
    the entry itself as the one predecessor outside the switch); cross edges
    between the arms."""
    if n < 4:
        return [(i, i + 1) for i in range(n - 1)]
    es = [(0, 1)] + [(1, i) for i in range(2, n - 1)] + [(i, n - 1) for i in range(2, n - 1)]
    if rng.random() < 0.5:
        es.append((n - 1, 1))                      # the whole switch in a loop
    if rng.random() < 0.6:
        # one predecessor of the join that node 1 does not dominate: the result is
        # wrong as soon as THIS predecessor is left out of the intersection
        es.append((0, n - 1))
    for _ in range(rng.randrange(0, 3)):
        a = rng.randrange(2, n - 1)
        es.append((a, rng.randrange(2, n - 1)))    # cross edges between arms (self loops too)
    return es


def two_level_join(n, rng):
    """0 -> k arms -> every arm feeds every node of a second layer -> sink:
    every node of the second layer is a join of k predecessors."""
    if n < 6:
        return wide_join(n, rng)
    k = (n - 2) // 2
    first = list(range(1, 1 + k))
    second = list(range(1 + k, n - 1))
    es = [(0, a) for a in first] + [(a, b) for a in first for b in second] + [(b, n - 1) for b in second]
    return es


def diamonds(n, rng):
    """A chain of diamonds a -> {b, c} -> d, optionally with a loop around some."""
    es = []
    a = 0
    while a + 3 < n:
        es += [(a, a + 1), (a, a + 2), (a + 1, a + 3), (a + 2, a + 3)]
        if a > 0 and rng.random() < 0.3:
            es.append((a + 3, a))
        a += 3
    for b in range(a + 1, n):
        es.append((b - 1, b))
    return es


def nested_loops(n, rng):
    """0 -> 1 -> ... -> n-1 with the back edges n-1-i -> 1+i (loops nested in
    each other) and a few self loops."""
    es = [(i, i + 1) for i in range(n - 1)]
    for i in range((n - 1) // 2):
        if 1 + i <= n - 1 - i:
            es.append((n - 1 - i, 1 + i))
    for _ in range(rng.randrange(0, 3)):
        a = rng.randrange(1, n)
        es.append((a, a))
    return es


def irreducible_ring(n, rng):
    """0 -> 1 and 0 -> m; the nodes 1..n-1 form a ring in both directions: a
    loop with two entries, every ring node is a join."""
    if n < 3:
        return [(0, 1)] if n == 2 else []
    m = rng.randrange(2, n)
    es = [(0, 1), (0, m)]
    for i in range(1, n):
        j = i + 1 if i + 1 < n else 1
        es += [(i, j), (j, i)]
    return es


def ladder(n, rng):
    """i -> i+1 and i -> i+2: every node from 2 on is a join, idom(i) = i-2's
    successor chain collapses to a deep tree with long walks."""
    es = [(i, i + 1) for i in range(n - 1)] + [(i, i + 2) for i in range(n - 2)]
    return es


def tree_with_joins(n, rng):
    """A binary tree (heap numbering); every leaf feeds a random earlier or
    later node other than 0 (cross, back and forward edges), then a common sink."""
    es = [((i - 1) // 2, i) for i in range(1, n)]
    for i in range(n // 2, n):
        if n > 2:
            es.append((i, rng.randrange(1, n)))
    return es


def wide_frontier(n, rng):
    """0 -> {1, 2} -> every node 3..n-1: the frontiers of 1 and of 2 hold n-3
    nodes each (large FRONTIER sets, which no other family makes: a join has
    many predecessors elsewhere, here one node has many joins in its frontier);
    a tail behind some joins lengthens the walks."""
    if n < 5:
        return [(i, i + 1) for i in range(n - 1)]
    es = [(0, 1), (0, 2)] + [(1, j) for j in range(3, n)] + [(2, j) for j in range(3, n)]
    for _ in range(rng.randrange(0, 3)):
        a = rng.randrange(3, n)
        es.append((a, rng.randrange(3, n)))
    return es


def dense(n, rng):
    """Random dense graph: spanning chain, every forward pair with probability
    p, every backward pair (self loops included) with probability q."""
    p = rng.choice([0.1, 0.3, 0.6, 1.0])
    q = rng.choice([0.0, 0.05, 0.3, 1.0])
    es = [(i, i + 1) for i in range(n - 1)]
    for a in range(n):
        for b in range(1, n):
            if a < b and rng.random() < p:
                es.append((a, b))
            elif a >= b and rng.random() < q:
                es.append((a, b))
    return es


def sparse(n, rng):
    """The random generator of C15.py at a given size."""
    pb = rng.choice([0.0, 0.05, 0.1, 0.2, 0.3, 0.4, 0.5])
    deep = rng.random()
    extra = rng.choice([0.0, 0.1, 0.3, 0.6])
    es = []
    for b in range(1, n):
        a = b - 1 if rng.random() < deep else rng.randrange(b)
        es.append((a, b))
    for a in range(n):
        if rng.random() < extra and a + 1 < n:
            es.append((a, rng.randrange(a + 1, n)))
        if rng.random() < extra / 2 and n > 2:
            es.append((rng.randrange(n), rng.randrange(1, n)))
        if a >= 1 and rng.random() < pb:
            es.append((a, rng.randrange(1, a + 1)))
    return es


# name -> (function, largest n for which the list-based proved oracle is affordable)
FAMILIES = {
    "rev_chain": (rev_chain, 65),
    "fwd_chain": (fwd_chain, 65),
    "wide_join": (wide_join, 65),
    "two_level_join": (two_level_join, 40),
    "diamonds": (diamonds, 65),
    "nested_loops": (nested_loops, 65),
    "irreducible_ring": (irreducible_ring, 65),
    "ladder": (ladder, 65),
    "tree_with_joins": (tree_with_joins, 65),
    "wide_frontier": (wide_frontier, 65),
    "dense": (dense, 24),
    "sparse": (sparse, 65),
}


def line(n, es, rng, shuffle):
    """The input line of a graph; with `shuffle` the nodes 1..n-1 are renumbered
    at random (the index order becomes unrelated to the shape)."""
    if shuffle:
        perm = list(range(1, n))
        rng.shuffle(perm)
        perm = [0] + perm
        es = [(perm[a], perm[b]) for a, b in es]
    es = sorted(set(es))
    return "%d %s" % (n, " ".join("%d>%d" % e for e in es))


def make(name, n, rng, shuffle):
    f, _ = FAMILIES[name]
    return line(n, f(n, rng), rng, shuffle)


def parse(text):
    t = text.split()
    n = int(t[0])
    return n, [tuple(int(x) for x in e.split(">")) for e in t[1:]]


def features(text, dom_field, df_field=""):
    """Shape of an explored graph, from its input line and the `dom=` (and
    `df=`) field of a result: (n, max in-degree, self loops?, irreducible?, depth
    of the dominator tree, size of the largest frontier).  Irreducible: some retreating edge of a depth-first search
    whose target does not dominate its source."""
    n, es = parse(text)
    succ = [[] for _ in range(n)]
    indeg = [0] * n
    selfloop = False
    for a, b in es:
        succ[a].append(b)
        indeg[b] += 1
        selfloop = selfloop or a == b
    doms = [set(int(x) for x in s.split(",") if x) for s in dom_field.split("|")]
    depth = max(len(d) for d in doms) if doms else 0
    irreducible = False
    if len(doms) == n:
        state = [0] * n            # 0 new, 1 on the stack, 2 done
        stack = [(0, 0)]
        state[0] = 1
        while stack:
            a, k = stack[-1]
            if k < len(succ[a]):
                stack[-1] = (a, k + 1)
                b = succ[a][k]
                if state[b] == 0:
                    state[b] = 1
                    stack.append((b, 0))
                elif state[b] == 1 and b not in doms[a]:
                    irreducible = True
            else:
                state[a] = 2
                stack.pop()
    maxdf = max((len([x for x in f.split(",") if x]) for f in df_field.split("|")), default=0) if df_field else 0
    return n, max(indeg) if indeg else 0, selfloop, irreducible, depth, maxdf
