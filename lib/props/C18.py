"""C18 — tuples and anonymous components are desugared completely and
faithfully.

Engine `desugar`: the REAL parser + `remove_syntactic_sugar` (harness) against
the extracted Gallina mirror Model.Desugar on the exhaustive matrix
sugar form x position x arity x named/positional (lib/props/c18gen.py), the
regression corpus, seeded random combinations of matrix statements, and seeded
random programs drawn from the GRAMMAR (lib/props/c18rand.py: any expression in
any position, tuples nested to depth 4 on either side, anonymous components
with 0..3 outputs inside tuples inside tuples, named inputs in any order with
every operator).  For every program the desugared definitions and the report set
are compared exactly; a difference is classified as decision (accepted vs
rejected) / message class / report location / expansion.

Oracles for the property itself
 (i)  on the implementation's own output: no Tuple / AnonymousComponent /
      MultiSubstitution node in anything handed on; a function whose parsed body
      contains such a node is dropped and answered by an error report; never a
      panic, neither in the desugarer nor in CFG lifting / SSA of what is handed
      on;
 (i') the specification Spec.ExpandSpec.expand_spec (extracted) equals the
      implementation's output whenever the implementation accepts a template;
 (ii) end to end: a hand-written expansion of the sugared statement, as Circom
      source, gives the same findings from the CLI binary as the sugared program
      (severity, code, message, line of the primary location), modulo columns and
      generated names.

A failing input is attributed to a known finding only by the SIGNATURE of the
failure (known_signature), never by its text alone.
"""
import hashlib
import json
import os
import re
import sys

import common

sys.path.insert(0, os.path.dirname(os.path.abspath(__file__)))
import c18gen  # noqa: E402
import c18rand  # noqa: E402

SUGAR = ("(tuple ", "(anon ", "(msub ")
CORPUS = os.path.join(common.VERIF, "corpus", "C18")


def fields(line):
    f = line.split("\t")
    return dict(zip(f[0::2], f[1::2]))


DEF_HEAD = re.compile(r"\((T|F) (\S+) ")


def split_defs(sexp):
    """Top-level items of `(prog ...)` / `(out ...)` as (kind, name, text).  Every other
    node of the wire format starts with a lower-case kind, so `(T ` / `(F ` can only
    open a definition."""
    ms = list(DEF_HEAD.finditer(sexp))
    out = []
    for i, m in enumerate(ms):
        end = ms[i + 1].start() - 1 if i + 1 < len(ms) else len(sexp) - 1
        out.append((m.group(1), m.group(2), sexp[m.start():end]))
    return out


def parse_sexp(text):
    """Minimal s-expression reader: nested lists of atoms."""
    stack, cur = [], []
    tok = ""
    for ch in text:
        if ch in "() ":
            if tok:
                cur.append(tok)
                tok = ""
            if ch == "(":
                stack.append(cur)
                cur = []
            elif ch == ")":
                done = cur
                cur = stack.pop()
                cur.append(done)
        else:
            tok += ch
    return cur[0] if cur else []


WF_CACHE = {}


def wf_violations(pre):
    """The hypotheses of C18_desugar_never_panics, checked on the parser's output:
    every meta has a file id, log strings are at most 230 bytes, named inputs come
    with one argument each, definition bodies are blocks.  (Checked per definition;
    the fixed prelude definitions are looked up.)"""
    bad = []
    for _k, name, text in split_defs(pre):
        if text not in WF_CACHE:
            if len(WF_CACHE) > 20000:
                WF_CACHE.clear()
            WF_CACHE[text] = wf_violations_def(name, text)
        bad += WF_CACHE[text]
    return bad


def wf_violations_def(name, text):
    bad = []
    if re.search(r"@\d+:\d+:-", text):
        bad.append("a meta without file id")
    for h in re.findall(r"\(str x([0-9a-f]*)\)", text):
        if len(h) > 460:
            bad.append("a log string of %d bytes" % (len(h) // 2))

    def walk(x):
        if isinstance(x, list):
            if x and x[0] == "anon" and isinstance(x[-1], list) and x[-1] and x[-1][0] == "names":
                sig = [y for y in x if isinstance(y, list) and y and y[0] == "signals"][0]
                if len(x[-1]) != len(sig):
                    bad.append("an anonymous component with %d names for %d inputs" % (len(x[-1]) - 1, len(sig) - 1))
            for y in x:
                walk(y)
    d = parse_sexp(text)
    walk(d)
    if not (isinstance(d[-1], list) and d[-1] and d[-1][0] == "block"):
        bad.append("definition `%s` whose body is not a block" % name)
    return bad


def has_sugar(text):
    return [k.strip("( ") for k in SUGAR if k in text]


def corpus_programs():
    out = []
    if os.path.isdir(CORPUS):
        for f in sorted(os.listdir(CORPUS)):
            if f.endswith(".circom"):
                out.append(("corpus/" + f, open(os.path.join(CORPUS, f)).read()))
    return out


def random_programs(ctx, n):
    """Seeded random bodies: 2-4 statements drawn from the matrix (several sugared
    statements per body, on one or several lines: exercises declaration
    collection order, generated names, nesting in loops)."""
    out = []
    stmts = []
    for pl, ptxt in c18gen.POSITIONS:
        if pl.startswith("return") or pl.startswith("decl_"):
            continue
        for fl, ftxt, _c in c18gen.FORMS:
            stmts.append(ptxt.format(S=ftxt))
    good = ["o <== A1()(a);", "(p, q) <== B22()(a, b);", "(o, _) <== (a, b);", "arr[0] <== A2()(a, b);",
            "for (var i = 0; i < 2; i++) { arr[i] <== A1()(a); }", "log((a, b), A1()(c));", "B10()(a);",
            "for (var i = 0; i < 2; i++) { for (var j = 0; j < 2; j++) { arr2[i][j] <== P1(2)(a); } }",
            "if (v == 0) { o <== parallel A1()(a); }", "_ <== A3()(x3 <== c, x1 <== a, x2 <== b);"]
    for i in range(n):
        k = ctx.rng.randrange(2, 5)
        body = []
        for _ in range(k):
            body.append(ctx.rng.choice(good) if ctx.rng.random() < 0.7 else ctx.rng.choice(stmts))
        sep = ctx.rng.choice(["\n  ", " ", "\n\n   "])
        out.append(("random/%d" % i, c18gen.program("T", sep.join(body))))
    return out


# --------------------------------------------------------------------------
# oracle (ii): hand-written expansions at source level
# --------------------------------------------------------------------------

TEMPLATES = {  # name -> (inputs, outputs)
    "A0": ([], ["y"]), "A1": (["x1"], ["y"]), "A2": (["x1", "x2"], ["y"]), "A3": (["x1", "x2", "x3"], ["y"]),
    "B00": ([], []), "B10": (["x1"], []), "B12": (["x1"], ["y1", "y2"]), "B22": (["x1", "x2"], ["y1", "y2"]),
    "B23": (["x1", "x2"], ["y1", "y2", "y3"]), "P1": (["x1"], ["y"]),
}

# (label, template, params text, [(input name, op, argument text)] in the order WRITTEN, named?)
E2E_CALLS = [
    ("A0pos", "A0", "", [], False),
    ("A1named", "A1", "", [("x1", "<--", "a")], True),
    ("A1pos", "A1", "", [("x1", "<==", "a")], False),
    ("A2pos", "A2", "", [("x1", "<==", "a"), ("x2", "<==", "b")], False),
    ("A3pos", "A3", "", [("x1", "<==", "a"), ("x2", "<==", "b"), ("x3", "<==", "c")], False),
    ("A2named", "A2", "", [("x1", "<==", "a"), ("x2", "<==", "b")], True),
    ("A2perm", "A2", "", [("x2", "<==", "b"), ("x1", "<==", "a")], True),
    ("A2ops", "A2", "", [("x1", "<--", "a"), ("x2", "<--", "b * b")], True),
    ("A3perm", "A3", "", [("x3", "<==", "c"), ("x1", "<==", "a"), ("x2", "<==", "b")], True),
    ("A1expr", "A1", "", [("x1", "<==", "a * b + 1")], False),
    ("P1", "P1", "2", [("x1", "<==", "a")], False),
    ("P1n", "P1", "n + 1", [("x1", "<==", "a")], False),
    ("B00", "B00", "", [], False),
    ("B10", "B10", "", [("x1", "<==", "a")], False),
    ("B12", "B12", "", [("x1", "<==", "a")], False),
    ("B22", "B22", "", [("x1", "<==", "a"), ("x2", "<==", "b")], False),
    ("B22named", "B22", "", [("x2", "<==", "b"), ("x1", "<==", "a")], True),
    ("B23", "B23", "", [("x1", "<==", "a"), ("x2", "<==", "b * c")], False),
    ("A2expr", "A2", "", [("x1", "<==", "a * b"), ("x2", "<==", "c + 1")], False),
    ("A3named", "A3", "", [("x1", "<==", "a"), ("x2", "<--", "b"), ("x3", "<==", "c")], True),
    ("P1named", "P1", "n", [("x1", "<==", "a + b")], True),
    ("B12named", "B12", "", [("x1", "<--", "a")], True),
    # permuted named inputs with different operators (operator goes with the NAME)
    ("A2perm_ops1", "A2", "", [("x2", "<--", "b"), ("x1", "<==", "a")], True),
    ("A2perm_ops2", "A2", "", [("x2", "<==", "b"), ("x1", "<--", "a * a")], True),
    ("A3perm_ops1", "A3", "", [("x3", "<--", "c"), ("x1", "<==", "a"), ("x2", "<==", "b")], True),
    ("A3perm_ops2", "A3", "", [("x2", "<--", "b"), ("x3", "<==", "c"), ("x1", "<==", "a")], True),
    ("A3perm_ops3", "A3", "", [("x3", "<==", "c"), ("x2", "<==", "b"), ("x1", "<--", "a")], True),
    ("B22perm_ops", "B22", "", [("x2", "<--", "b"), ("x1", "<==", "a")], True),
]

# positions: (label, number of values consumed, sugared statement with {S}, expansion with {V0} {V1} {V2};
#             in_loop: the component becomes an array indexed by the loop variable)
E2E_POS = [
    ("sub_c", 1, "o <== {S};", "o <== {V0};", None),
    ("sub_s", 1, "o <-- {S};", "o <-- {V0};", None),
    ("sub_rev", 1, "{S} ==> o;", "o <== {V0};", None),
    ("sub_v", 1, "v = {S};", "v = {V0};", None),
    ("decl_s", 1, "signal x <== {S};", "signal x; x <== {V0};", None),
    ("decl_v", 1, "var x = {S};", "var x; x = {V0};", None),
    ("under", 1, "_ <== {S};", "", None),
    ("stmt", 0, "{S};", "", None),
    ("msub2", 2, "(o, p) <== {S};", "o <== {V0}; p <== {V1};", None),
    ("msub2u", 2, "(o, _) <== {S};", "o <== {V0};", None),
    ("msub3", 3, "(o, p, q) <== {S};", "o <== {V0}; p <== {V1}; q <== {V2};", None),
    ("decl_t", 2, "signal (x, y) <== {S};", "signal x; signal y; x <== {V0}; y <== {V1};", None),
    ("if_body", 1, "if (n == 0) {{ o <== {S}; }}", "if (n == 0) {{ {P} o <== {V0}; }}", "inner"),
    ("loop", 1, "for (var i = 0; i < 2; i++) {{ arr[i] <== {S}; }}",
     "for (var i = 0; i < 2; i++) {{ {P} arr[i] <== {V0}; }}", "i"),
    ("loop2", 2, "for (var i = 0; i < 2; i++) {{ (arr[i], arr2[i][0]) <== {S}; }}",
     "for (var i = 0; i < 2; i++) {{ {P} arr[i] <== {V0}; arr2[i][0] <== {V1}; }}", "i"),
    ("tuple_mix", 1, "(o, p) <== ({S}, b);", "o <== {V0}; p <== b;", None),
    ("else_body", 1, "if (n == 0) {{ o <== a; }} else {{ o <== {S}; }}",
     "if (n == 0) {{ o <== a; }} else {{ {P} o <== {V0}; }}", "inner"),
    ("block", 1, "{{ o <== {S}; }}", "{{ {P} o <== {V0}; }}", "inner"),
    ("arr0", 1, "arr[0] <== {S};", "arr[0] <== {V0};", None),
    ("decl_s2", 1, "signal x <-- {S};", "signal x; x <-- {V0};", None),
    ("msub2rev", 2, "{S} ==> (o, p);", "o <== {V0}; p <== {V1};", None),
    ("msub3u", 3, "(_, p, _) <== {S};", "p <== {V1};", None),
    ("while", 1, "while (v < 2) {{ arr[v] <== {S}; v++; }}", "while (v < 2) {{ {P} arr[v] <== {V0}; v++; }}", "v"),
    ("loop_if", 1, "for (var i = 0; i < 2; i++) {{ if (i == 0) {{ arr[i] <== {S}; }} }}",
     "for (var i = 0; i < 2; i++) {{ if (i == 0) {{ {P} arr[i] <== {V0}; }} }}", "i"),
]

E2E_TUPLES = [  # pure tuple statements and their expansions
    ("(o, p) <== (a, b);", "o <== a; p <== b;"),
    ("(o, p, q) <== (a + 1, b * c, c);", "o <== a + 1; p <== b * c; q <== c;"),
    ("((o, p), q) <== ((a, b), c);", "o <== a; p <== b; q <== c;"),
    ("(o, _, q) <== (a, b, c);", "o <== a; q <== c;"),
    ("(o, p) <-- (a * a * a, b);", "o <-- a * a * a; p <-- b;"),
    ("(a * b, c) ==> (o, p);", "o <== a * b; p <== c;"),
    ("(v, w) = (1, 2);", "v = 1; w = 2;"),
    ("var (x, y) = (1, v);", "var x; var y; x = 1; y = v;"),
    ("signal (x, y) <== (a, b);", "signal x; signal y; x <== a; y <== b;"),
    ("for (var i = 0; i < 2; i++) { (arr[i], arr2[i][0]) <== (a, b); }",
     "for (var i = 0; i < 2; i++) { arr[i] <== a; arr2[i][0] <== b; }"),
    ("log((a, b));", "log(\"(\", a, b, \")\");"),
    ("log(\"s\", (a, (b, c)), 1);", "log(\"s\", \"(\", a, \"(\", b, c, \")\", \")\", 1);"),
]

E2E_HOST = """template T(n) {{
  signal input a;
  signal input b;
  signal input c;
  signal output o;
  signal output p;
  signal output q;
  signal arr[3];
  signal arr2[2][2];
  var v = 0;
  var w = 0;
  {DECL} {BODY}
}}
component main = T(1);
"""


def e2e_pairs():
    """(label, sugared source, expanded source)."""
    out = []
    for cl, tname, params, args, named in E2E_CALLS:
        ins, outs = TEMPLATES[tname]
        for pl, nvals, sug, exp, where in E2E_POS:
            if nvals != len(outs) and not (pl == "under" and len(outs) == 1):
                continue
            call_args = ", ".join(("%s %s %s" % a) if named else a[2] for a in args)
            s_text = "%s(%s)(%s)" % (tname, params, call_args)
            byname = {a[0]: a for a in args}
            idx = "[%s]" % where if where in ("i", "v") else ""
            comp = "cx" + idx
            prelude = "%s = %s(%s); " % (comp, tname, params) + " ".join(
                "%s.%s %s %s;" % (comp, i, byname[i][1], byname[i][2]) for i in ins)
            vals = {"V%d" % k: "%s.%s" % (comp, o) for k, o in enumerate(outs)}
            decl = "component cx%s;" % ("[2]" if where in ("i", "v") else "")
            if where is None:
                body_exp = prelude + " " + exp.format(**vals)
            else:
                body_exp = exp.format(P=prelude, **vals)
            sugared = c18gen.PRELUDE + E2E_HOST.format(DECL="", BODY=sug.format(S=s_text))
            expanded = c18gen.PRELUDE + E2E_HOST.format(DECL=decl, BODY=body_exp)
            out.append(("e2e/%s/%s" % (pl, cl), sugared, expanded))
    for i, (sug, exp) in enumerate(E2E_TUPLES):
        out.append(("e2e/tuple/%d" % i, c18gen.PRELUDE + E2E_HOST.format(DECL="", BODY=sug),
                    c18gen.PRELUDE + E2E_HOST.format(DECL="", BODY=exp)))
    return out


GEN_NAME = re.compile(r"\b(?:[A-Za-z0-9]+_\d+_\d+|cx|anon_var_\d+_\d+)\b")


LOC_LINE = re.compile(r"^\s*┌─ .*:(\d+):\d+\s*$")


def findings(cli, path):
    """Multiset of findings of a CLI run: severity, code, message (generated names removed) and the LINE of the
    primary location, where the report has one.  Both programs of a pair are rendered from the same host text with
    the sugared statement / its expansion (with the component declaration it needs) on the same line (E2E_HOST: DECL
    and BODY share one line), so lines are comparable; columns are not compared because the two statements are different texts (the anonymous component
    `A1()(a)` and the hand-written `cx = A1(); cx.x1 <== a;` start at different offsets of that line), and labels
    beyond the primary one are not compared (codespan prints them as excerpts of the differing source line)."""
    rc, out, err = common.sh([cli, path, "--verbose"], timeout=120)
    text = out + err
    if rc not in (0, 1) or "panicked at" in text:
        return None, text[-1500:]
    res = []
    lines = text.split("\n")
    for i, ln in enumerate(lines):
        m = re.match(r"^(warning|error|note)(?:\[(\w+)\])?: (.*)$", ln)
        if not m:
            continue
        msg = GEN_NAME.sub("<c>", m.group(3))
        # the index of the generated component array: the generated counter in the sugared program, the loop's own variable
        # (`i` of the for positions, `v` of the while position) in the hand expansion
        msg = re.sub(r"<c>\[(?:<c>|i|v)\]", "<c>", msg)
        loc = LOC_LINE.match(lines[i + 1]) if i + 1 < len(lines) else None
        res.append("%s[%s]: %s @line %s" % (m.group(1), m.group(2), msg, loc.group(1) if loc else "-"))
    return sorted(res), text[-1500:]


def multiset_diff(a, b):
    """elements of a not matched by an equal element of b (as multisets)"""
    rest = list(b)
    out = []
    for x in a:
        if x in rest:
            rest.remove(x)
        else:
            out.append(x)
    return out


# The SIGNATURE of each known finding: what exactly a failing end-to-end pair shows.  A failure is covered by a known
# finding only if (a) it is an end-to-end pair record whose two runs completed, (b) the sugared source is in the
# finding's input class (class_regex of known_findings.jsonl), (c) the expansion has no finding the sugared program
# lacks, and (d) every finding the sugared program has in excess matches the pattern below.  Anything else on such an
# input - a panic, a rejected definition, a model disagreement, another extra or missing finding - is a violation.
KNOWN_SIGNATURES = {
    "C18-loop-counter-finding":
        r"^warning\[CS0008\]: The value assigned to `<c>` is not used in witness or constraint generation\. @line \d+$",
    "C18-generated-name-capture":
        r"^warning\[CS0001\]: Declaration of variable `<c>` shadows previous declaration\. @line \d+$",
}


def known_signature(known, f):
    """-> the known finding whose class AND signature the failure record f has, or None."""
    if not f.get("e2e_pair"):
        return None
    fs, fe = f.get("impl"), f.get("spec")
    if not isinstance(fs, list) or not isinstance(fe, list):
        return None
    extra, missing = multiset_diff(fs, fe), multiset_diff(fe, fs)
    if missing or not extra:
        return None
    for k in known:
        pat, sig = k.get("class_regex"), KNOWN_SIGNATURES.get(k["id"])
        if pat and sig and re.search(pat, f.get("input", "")) and all(re.match(sig, x) for x in extra):
            return k
    return None


def run_e2e(ctx, cli, pairs):
    import concurrent.futures
    d = os.path.join(ctx.work, "e2e")
    os.makedirs(d, exist_ok=True)
    jobs = []
    for i, (lab, s, e) in enumerate(pairs):
        ps, pe = os.path.join(d, "s%d.circom" % i), os.path.join(d, "e%d.circom" % i)
        open(ps, "w").write(s)
        open(pe, "w").write(e)
        jobs.append((lab, ps, pe, s, e))

    def one(j):
        lab, ps, pe, s, e = j
        fs, ts = findings(cli, ps)
        fe, te = findings(cli, pe)
        return lab, s, e, fs, fe, ts, te
    with concurrent.futures.ThreadPoolExecutor(max_workers=common.NPROC) as ex:
        return list(ex.map(one, jobs))


# --------------------------------------------------------------------------

def evaluate(ctx, HARNESS_BIN, MODEL_BIN, programs):
    """Runs implementation and model on the programs. Returns (records, stats)."""
    lines = [c18gen.escape(s) for _, s in programs]
    impl = common.run_lines(HARNESS_BIN, [], lines, shards=common.NPROC)
    if len(impl) != len(programs):
        raise common.BuildError("harness desugar returned %d lines for %d programs" % (len(impl), len(programs)), "")
    recs = []
    mlines, midx = [], []
    for i, ((lab, src), o) in enumerate(zip(programs, impl)):
        if o.startswith("PARSE"):
            recs.append({"label": lab, "src": src, "parse": o.split("\t")[1]})
            continue
        d = fields(o)
        recs.append({"label": lab, "src": src, "impl": d})
        mlines.append(",".join(map(str, c18gen.line_starts(src))) + "\t" + d["PRE"])
        midx.append(i)
    model = common.run_lines(MODEL_BIN, ["mirror"], mlines, shards=common.NPROC)
    spec = common.run_lines(MODEL_BIN, ["spec"], mlines, shards=common.NPROC)
    rt = common.run_lines(MODEL_BIN, ["roundtrip"], mlines, shards=common.NPROC)
    for i, m, s, r in zip(midx, model, spec, rt):
        recs[i]["model"] = fields(m)
        recs[i]["spec"] = fields(s)
        recs[i]["roundtrip"] = r
    return recs


def rep_msgs(rep):
    return sorted(bytes.fromhex(m).decode(errors="replace") for _c, m in re.findall(r"\(r (\S+) x([0-9a-f]*)", rep or ""))


def classify(d, m):
    """What kind of difference there is between implementation and mirror."""
    if "panic" in (d["POST"], m.get("POST")):
        return "panic"
    di = {(k, n) for k, n, _ in split_defs(d["POST"])}
    mi = {(k, n) for k, n, _ in split_defs(m.get("POST", ""))}
    if di != mi:
        return "decision (accepted vs rejected): " + ", ".join(sorted(n for _k, n in di ^ mi))
    if rep_msgs(d["REP"]) != rep_msgs(m.get("REP")):
        return "message class"
    if d["REP"] != m.get("REP"):
        return "report location / label"
    return "expansion"


def group_of(label):
    if label.startswith("corpus/"):
        return "corpus"
    if label.startswith("rand/"):
        return "random_grammar"
    if label.startswith("random/"):
        return "random_matrix"
    if label.startswith("e2e/"):
        return "e2e"
    return "deep" if "/deep/" in label else "matrix"


def by_group(items):
    out = {}
    for it in items:
        g = group_of(it.get("label", ""))
        out[g] = out.get(g, 0) + 1
    return out


def judge(rec):
    """Oracle (i) on one record. Returns list of failure descriptions."""
    fails = []
    if "parse" in rec:
        if rec["parse"].startswith("panic"):
            fails.append("the parser panics")
        return fails
    d = rec["impl"]
    if d["POST"] == "panic":
        return ["remove_syntactic_sugar panics"]
    for kind, name, text in split_defs(d["POST"]):
        s = has_sugar(text)
        if s:
            fails.append("%s `%s` is handed on containing %s" % ("template" if kind == "T" else "function", name, "/".join(s)))
    post_f = {name for kind, name, _ in split_defs(d["POST"]) if kind == "F"}
    for kind, name, text in split_defs(d["PRE"]):
        if kind == "F" and has_sugar(text):
            if name in post_f:
                fails.append("function `%s` contains %s but is handed on" % (name, "/".join(has_sugar(text))))
            m = re.search(r"\(block @(\d+):(\d+):", text)
            lo, hi = int(m.group(1)), int(m.group(2))
            inside = [1 for a, b in re.findall(r"\(p (\d+) (\d+) ", d["REP"]) if lo <= int(a) and int(b) <= hi]
            if not inside:
                fails.append("function `%s` contains %s but no error report points into it" % (name, "/".join(has_sugar(text))))
    if "panic" in d["PIPE"]:
        fails.append("CFG/SSA construction panics on what the desugarer handed on: " + d["PIPE"])
    return fails


def run(ctx, proofs):
    quick = ctx.tier == "quick"
    HARNESS_BIN = common.build_harness("desugar")
    MODEL_BIN = common.build_model("desugar")
    CLI = common.build_cli()
    rand = c18rand.programs(ctx.rng, 16000 if quick else 160000)
    rand_info = {lab: (mode, feats) for lab, _s, mode, feats in rand}
    groups = [("corpus", corpus_programs()), ("matrix", c18gen.matrix()), ("deep", c18rand.deep()),
              ("random_matrix", random_programs(ctx, 400 if quick else 4000)),
              ("random_grammar", [(lab, src) for lab, src, _m, _f in rand])]
    programs = [p for _g, ps in groups for p in ps]

    disagreements, failing, spec_diff, wf_fail = [], [], [], []
    stats = {"parse_error": 0, "templates_kept": 0, "templates_rejected": 0, "functions_kept": 0,
             "functions_rejected": 0, "host_kept_with_sugar_input": 0}
    rstats = {"valid kept": 0, "valid rejected": 0, "wild kept": 0, "wild rejected": 0, "parse_error": 0}
    rfeat = {}
    diff_kinds = {}
    kinds = {}
    rkinds = {}
    nontrivial = set()
    labels = []
    CH = 8000
    for lo in range(0, len(programs), CH):
        recs = evaluate(ctx, HARNESS_BIN, MODEL_BIN, programs[lo:lo + CH])
        for rec in recs:
            labels.append(rec["label"])
            f = judge(rec)
            if f:
                failing.append({"label": rec["label"], "input": rec["src"], "impl": f, "spec": "sugar-free output, functions with sugar rejected with an error, no panic"})
            if "parse" in rec:
                stats["parse_error"] += 1
                if rec["label"] in rand_info:
                    rstats["parse_error"] += 1
                continue
            d, m, s = rec["impl"], rec["model"], rec["spec"]
            if rec["roundtrip"] != d["PRE"]:
                disagreements.append({"label": rec["label"], "what": "AST wire round trip", "impl": d["PRE"][:300], "model": rec["roundtrip"][:300]})
            w = wf_violations(d["PRE"])
            if w:
                wf_fail.append({"label": rec["label"], "input": rec["src"], "what": "; ".join(w)})
            if d["POST"] != m.get("POST") or (d["REP"] != m.get("REP") and d["POST"] != "panic"):
                kind = classify(d, m)
                diff_kinds[kind.split(":")[0]] = diff_kinds.get(kind.split(":")[0], 0) + 1
                disagreements.append({"label": rec["label"], "input": rec["src"], "what": "desugared AST / reports: " + kind,
                                      "impl": (d["POST"] + " " + d["REP"])[-600:], "model": (m.get("POST", "") + " " + m.get("REP", ""))[-600:]})
            # (i') the specification agrees with the implementation on every accepted host definition
            pre_defs = {n: t for k, n, t in split_defs(d["PRE"])}
            post_defs = {n: t for k, n, t in split_defs(d["POST"])} if d["POST"] != "panic" else {}
            spec_defs = {n: t for k, n, t in split_defs(s.get("POST", ""))}
            for n in ("T", "g"):
                if n in pre_defs:
                    sug = bool(has_sugar(pre_defs[n]))
                    kept = n in post_defs
                    stats[("templates" if n == "T" else "functions") + ("_kept" if kept else "_rejected")] += 1
                    if kept and sug:
                        stats["host_kept_with_sugar_input"] += 1
                    if rec["label"] in rand_info:
                        mode, feats = rand_info[rec["label"]]
                        rstats[mode + (" kept" if kept else " rejected")] += 1
                        for ft in feats:
                            c = rfeat.setdefault(ft, [0, 0])
                            c[0 if kept else 1] += 1
                    if n == "T":
                        if kept and spec_defs.get(n) != post_defs[n]:
                            spec_diff.append({"label": rec["label"], "input": rec["src"], "impl": post_defs[n][-500:],
                                              "spec": (spec_defs.get(n) or "rejected")[-500:]})
                        if not kept and n in spec_defs:
                            spec_diff.append({"label": rec["label"], "input": rec["src"], "impl": "rejected: " + d["REP"][-300:],
                                              "spec": spec_defs[n][-500:]})
            for t in rep_msgs(d["REP"]):
                kinds[t] = kinds.get(t, 0) + 1
                if rec["label"] in rand_info:
                    rkinds[t] = rkinds.get(t, 0) + 1
            nontrivial.add(hashlib.md5(repr((d["POST"] != "panic" and "T" in post_defs,
                                             re.sub(r"@\d+:\d+:\d+|_\d+_\d+", "", post_defs.get("T", d["REP"]))[:4000])).encode()).digest())
        del recs

    # a difference between the specified expansion and the implementation's output is a failing input of the
    # property itself ("inputs assigned in declaration order or by name, outputs read in declaration order")
    for d0 in spec_diff:
        failing.append({"label": d0["label"], "input": d0["input"],
                        "impl": "the desugared template differs from expand_spec: " + d0["impl"], "spec": d0["spec"]})

    # (ii) end to end
    pairs = e2e_pairs()
    if quick:
        pass
    e2e = run_e2e(ctx, CLI, pairs)
    e2e_fail = []
    e2e_located = 0
    fresh_fail = []
    for lab, s, e, fs, fe, ts, te in e2e:
        # the renaming behind a pair sends the generated component name to `cx`: it must be a name the sugared program
        # does not use (hypothesis fixes_names / inj_on of the renaming theorems, for this f)
        if re.search(r"\bcx\b", s):
            fresh_fail.append({"label": lab, "input": s, "what": "the hand expansion's component name `cx` occurs in the sugared program"})
        if fs is None or fe is None:
            failing.append({"label": lab, "input": s if fs is None else e, "impl": "the CLI panics or crashes: " + (ts if fs is None else te)[-400:],
                            "spec": "no panic"})
        else:
            e2e_located += sum(1 for x in fs if not x.endswith("@line -"))
            if fs != fe:
                e2e_fail.append({"label": lab, "input": s, "expansion": e, "impl": fs, "spec": fe, "e2e_pair": True})
    for f in e2e_fail:
        failing.append(f)

    # known findings: replay witnesses (the witness must still show exactly the recorded signature)
    for k in ctx.known:
        w = k.get("witness", {})
        if "sugared" in w:
            r = run_e2e(ctx, CLI, [(k["id"], w["sugared"], w["expanded"])])[0]
            if r[3] != r[4]:
                wrec = {"label": "known/" + k["id"], "input": w["sugared"], "expansion": w["expanded"], "impl": r[3], "spec": r[4],
                        "e2e_pair": True}
                if r[3] is None or r[4] is None:
                    wrec["impl"] = "the CLI panics or crashes: " + (r[5] if r[3] is None else r[6])[-400:]
                hit = known_signature([k], wrec)
                if hit:
                    ctx.known_finding(k["id"], k["what"])
                else:
                    failing.append(wrec)

    # a failure is a known finding only by its SIGNATURE (known_signature), never by the input text alone
    known_by_id = {}
    real_fail = []
    for f in failing:
        k = known_signature(ctx.known, f)
        if k:
            known_by_id[k["id"]] = known_by_id.get(k["id"], 0) + 1
            ctx.known_finding(k["id"], k["what"])
        else:
            real_fail.append(f)
    class_only = {}      # failures on inputs of a known finding's input class that are NOT that finding: violations (counted)
    for f in real_fail:
        for k in ctx.known:
            if k.get("class_regex") and re.search(k["class_regex"], f.get("input", "")):
                class_only[k["id"]] = class_only.get(k["id"], 0) + 1
    for f in real_fail[:5]:
        ctx.violation("desugaring: %s: %s" % (f["label"], "; ".join(f["impl"]) if isinstance(f["impl"], list) else str(f["impl"])[:300]),
                      {"input": f["input"], "impl": f["impl"], "spec": f.get("spec"), "expansion": f.get("expansion")})
    if not real_fail:
        if disagreements:
            d0 = disagreements[0]
            ctx.violation("correspondence Model.Desugar vs syntax_sugar_remover.rs broken (%d programs, first: %s); the property held on every explored input"
                          % (len(disagreements), d0["label"]), {"broken": "correspondence desugar (Model.Desugar)", "first": d0, "count": len(disagreements)}, no_input=True)
        elif wf_fail:
            d0 = wf_fail[0]
            ctx.violation("the parser's output violates a hypothesis of C18_desugar_never_panics (%d programs, first: %s: %s)"
                          % (len(wf_fail), d0["label"], d0["what"]), {"broken": "hypothesis wf_template of C18_desugar_never_panics", "first": d0}, no_input=True)
        elif spec_diff:
            d0 = spec_diff[0]
            ctx.violation("Spec.ExpandSpec.expand_spec differs from the desugarer's output (%d programs, first: %s)" % (len(spec_diff), d0["label"]),
                          {"broken": "expand_spec vs implementation", "first": d0, "count": len(spec_diff)}, no_input=True)
        elif fresh_fail:
            d0 = fresh_fail[0]
            ctx.violation("end-to-end pairs: %s (%d pairs, first: %s)" % (d0["what"], len(fresh_fail), d0["label"]),
                          {"broken": "hypothesis of C18_desugar_is_expand_up_to_alpha for the renaming of the end-to-end pairs "
                                     "(generated component name -> cx): cx must be fresh", "first": d0}, no_input=True)
        elif proofs["failures"]:
            ctx.violation("proof obligations of C18 no longer check: " + "; ".join(proofs["failures"])[:500],
                          {"broken": "props/C18.v", "failures": proofs["failures"]}, no_input=True)
        elif e2e_located < len(e2e):
            ctx.violation("end-to-end pairs: only %d findings with a location were compared on %d pairs: the line comparison is vacuous"
                          % (e2e_located, len(e2e)), {"broken": "location parsing of lib/props/C18.py findings()"}, no_input=True)
    ctx.coverage.update({
        "evaluations": len(programs) + 2 * len(e2e),
        "distinct_nontrivial": len(nontrivial),
        "rule": "a program is distinct-nontrivial per distinct desugared body of the host template (positions and generated-name suffixes "
                "erased) or, when it is rejected, per distinct report set",
        "exhaustive": False,
        "exhaustive_part": "matrix: %d sugar forms x %d positions x {template, function} + %d sugar-free controls x 2 + %d two-statement bodies"
                           % (len(c18gen.FORMS), len(c18gen.POSITIONS), len(c18gen.CONTROLS), 12),
        "programs": {g: len(ps) for g, ps in groups},
        "random_grammar": {
            "what": "lib/props/c18rand.py: bodies of 1-4 statements drawn from the grammar; mode `valid` puts sugar where Circom allows it "
                    "(tuples nested to depth 4 on either side, anonymous components with 0-3 outputs in tuples in tuples, named inputs "
                    "permuted with every operator), mode `wild` puts it anywhere (conditions, read indices, call/log/assert/return "
                    "arguments, declarations, loop headers)",
            "decisions": rstats,
            "features_kept_rejected": {k: v for k, v in sorted(rfeat.items())},
            "report_messages_seen": len(rkinds),
        },
        "disagreement_kinds": diff_kinds,
        "disagreements_by_group": by_group(disagreements),
        "property_failures_by_group": by_group(failing),
        "input_distribution": stats,
        "report_messages_seen": len(kinds),
        "report_message_histogram": dict(sorted(kinds.items(), key=lambda x: -x[1])[:45]),
        "e2e_pairs": len(e2e), "e2e_differences": len(e2e_fail),
        "e2e_findings_compared_with_their_line": e2e_located,
        "e2e_pairs_whose_expansion_name_is_fresh": len(e2e) - len(fresh_fail),
        "known_findings_matched_by_signature": known_by_id,
        "failures_in_a_known_input_class_without_its_signature": class_only,
        "disagreements_model_vs_impl": len(disagreements),
        "spec_vs_impl_differences": len(spec_diff),
        "wf_hypothesis_failures": len(wf_fail),
        "property_failures": len(failing),
        "samples": [disagreements[0]] if disagreements else [labels[len(labels) // 3], labels[len(labels) // 2], labels[-1], e2e[0][0], e2e[len(e2e) // 2][0]],
        "open_statements": OPEN,
    })
    ctx.assumptions += [
        "HashMap iteration order of templates/functions is not modelled: the mirror processes association lists and results are compared as "
        "name-sorted definitions and sorted report lists (each definition is desugared independently of the others)",
        "the parser is outside the mirror: the model is fed the AST the real parser produced (printed by the harness before desugaring)",
        "codespan's line index is modelled as 'number of line starts <= offset'; line starts are computed from the source text by the driver",
        "end-to-end equality of findings (oracle ii) is observed on %d sugared/expanded pairs, not proved; compared per finding: severity, "
        "code, message with generated names erased, LINE of the primary location (columns and further labels are not compared: the two "
        "statements are different texts on that line)" % len(e2e),
        "a failure counts as a known finding only if it is an end-to-end pair whose sugared source is in the finding's input class AND whose "
        "only difference is the recorded extra finding (KNOWN_SIGNATURES); every other failure on an input of that class is a violation",
        "C18_expand_spec_alpha_renaming / C18_desugar_is_expand_up_to_alpha quantify over every renaming f; their hypotheses fixes_names / "
        "inj_on are about f, not about the program, so there is nothing to evaluate per explored program except for the one f the end-to-end "
        "pairs use (generated component name -> `cx`): `cx` is checked to be absent from every sugared program; the hand expansions in loops "
        "index the component array with the loop's own variable instead of a generated counter and are therefore NOT instances of these "
        "theorems (they are compared by findings only)",
        "the hypotheses of the panic-freedom and faithfulness theorems (wf_template: metas with a known file id, log strings <= 230 bytes, "
        "one name per named input, block bodies) are checked on the real parser's output of every explored program, not proved about the parser",
    ]


OPEN = []   # every statement of DESIGN §4 C18 is now a theorem of coq/props/C18.v


def replay(ctx, rep):
    HARNESS_BIN = common.build_harness("desugar")
    MODEL_BIN = common.build_model("desugar")
    src = rep.get("input")
    if not src:
        print("replay names a broken obligation, not an input:", rep.get("broken"))
        return 1
    if rep.get("expansion"):
        CLI = common.build_cli()
        r = run_e2e(ctx, CLI, [("replay", src, rep["expansion"])])[0]
        print("findings of the sugared program :", r[3])
        print("findings of the hand expansion  :", r[4])
        return 0 if r[3] == r[4] and r[3] is not None else 1
    recs = evaluate(ctx, HARNESS_BIN, MODEL_BIN, [("replay", src)])
    f = judge(recs[0])
    if "impl" in recs[0] and recs[0]["impl"]["POST"] != "panic":
        post = {n: t for k, n, t in split_defs(recs[0]["impl"]["POST"]) if k == "T"}
        spec = {n: t for k, n, t in split_defs(recs[0]["spec"].get("POST", ""))}
        for n in sorted(set(post) | set(spec)):
            if post.get(n) != spec.get(n):
                f.append("template `%s`: implementation %s, expand_spec %s" % (
                    n, "accepts" if n in post else "rejects", "gives a different expansion" if n in post and n in spec
                    else ("accepts" if n in spec else "rejects")))
    print("implementation:", (recs[0].get("impl") or {}).get("POST", recs[0].get("parse"))[-800:])
    print("reports       :", (recs[0].get("impl") or {}).get("REP"))
    print("pipeline      :", (recs[0].get("impl") or {}).get("PIPE"))
    print("oracle        :", f or "holds")
    return 1 if f else 0
