"""C18 — tuples and anonymous components are desugared completely and
faithfully.

Engine `desugar`: the REAL parser + `remove_syntactic_sugar` (harness) against
the extracted Gallina mirror Model.Desugar on the exhaustive matrix
sugar form x position x arity x named/positional (lib/props/c18gen.py), the
regression corpus, seeded random combinations of matrix statements, and seeded
random programs drawn from the GRAMMAR (lib/props/c18rand.py: any expression in
any position, tuples nested to depth 4 on either side, anonymous components
with 0..3 outputs inside tuples inside tuples, named inputs in any order with
every operator).  For every program the desugared definitions and the report set
are compared exactly; a difference is classified as decision (accepted vs
rejected) / message class / report location / expansion.

Oracles for the property itself
 (i)  on the implementation's own output - the result of the hook AND what the real
      `parser::parse_files` hands on for the same text in a file, in Library mode (no
      main component) and in Program mode (a main component appended): no Tuple /
      AnonymousComponent / MultiSubstitution node in anything handed on; a function
      whose parsed body contains such a node is dropped and answered by an error
      report; never a panic, neither in the desugarer nor in CFG lifting / SSA of
      what is handed on;
 (i-ports) the inputs and outputs TemplateData records for every callee template are
      the ports in the order the generator WROTE their declarations (several symbols
      per declaration, under control flow, arrays, tags, outputs first);
 (i-parser) the parser's share of the sugar (`E ==> L`, `E --> L`, declarations of
      several symbols with one or a tuple initialiser, named inputs): the AST of the
      statement equals the AST built from the plain spelling (parser_oracle);
 (i') the specification Spec.ExpandSpec.expand_spec (extracted) equals the
      implementation's output whenever the implementation accepts a template;
 (ii) end to end: a hand-written expansion of the sugared statement, as Circom
      source, gives the same findings from the CLI binary as the sugared program
      (severity, code, message, line of the primary location), modulo columns and
      generated names.

A failing input is attributed to a known finding only by the SIGNATURE of the
failure (known_signature), never by its text alone.
"""
import hashlib
import json
import os
import re
import sys

import common

sys.path.insert(0, os.path.dirname(os.path.abspath(__file__)))
import c18gen  # noqa: E402
import c18rand  # noqa: E402
import c18print  # noqa: E402

SUGAR = ("(tuple ", "(anon ", "(msub ")
CORPUS = os.path.join(common.VERIF, "corpus", "C18")


def fields(line):
    f = line.split("\t")
    return dict(zip(f[0::2], f[1::2]))


DEF_HEAD = re.compile(r"\((T|F) (\S+) ")


def split_defs(sexp):
    """Top-level items of `(prog ...)` / `(out ...)` as (kind, name, text).  Every other
    node of the wire format starts with a lower-case kind, so `(T ` / `(F ` can only
    open a definition."""
    ms = list(DEF_HEAD.finditer(sexp))
    out = []
    for i, m in enumerate(ms):
        end = ms[i + 1].start() - 1 if i + 1 < len(ms) else len(sexp) - 1
        out.append((m.group(1), m.group(2), sexp[m.start():end]))
    return out


def parse_sexp(text):
    """Minimal s-expression reader: nested lists of atoms."""
    stack, cur = [], []
    tok = ""
    for ch in text:
        if ch in "() ":
            if tok:
                cur.append(tok)
                tok = ""
            if ch == "(":
                stack.append(cur)
                cur = []
            elif ch == ")":
                done = cur
                cur = stack.pop()
                cur.append(done)
        else:
            tok += ch
    return cur[0] if cur else []


WF_CACHE = {}


def wf_violations(pre, nfiles=1):
    """The hypotheses of C18_desugar_never_panics, checked on the parser's output:
    every meta has a file id, log strings are at most 230 bytes, named inputs come
    with one argument each, definition bodies are blocks.  (Checked per definition;
    the fixed prelude definitions are looked up.)"""
    bad = []
    for _k, name, text in split_defs(pre):
        if text not in WF_CACHE:
            if len(WF_CACHE) > 20000:
                WF_CACHE.clear()
            WF_CACHE[text] = (wf_violations_def(name, text), max([int(x) for x in re.findall(r"@\d+:\d+:(\d+)", text)] or [0]))
        bad += WF_CACHE[text][0]
        if WF_CACHE[text][1] >= nfiles:       # meta_known lib: the file id names a file of the library
            bad.append("definition `%s` has a meta of file %d, the project has %d files" % (name, WF_CACHE[text][1], nfiles))
    return bad


def wf_violations_def(name, text):
    bad = []
    if re.search(r"@\d+:\d+:-", text):
        bad.append("a meta without file id")
    for h in re.findall(r"\(str x([0-9a-f]*)\)", text):
        if len(h) > 460:
            bad.append("a log string of %d bytes" % (len(h) // 2))

    def walk(x):
        if isinstance(x, list):
            if x and x[0] == "anon" and isinstance(x[-1], list) and x[-1] and x[-1][0] == "names":
                sig = [y for y in x if isinstance(y, list) and y and y[0] == "signals"][0]
                if len(x[-1]) != len(sig):
                    bad.append("an anonymous component with %d names for %d inputs" % (len(x[-1]) - 1, len(sig) - 1))
            for y in x:
                walk(y)
    d = parse_sexp(text)
    walk(d)
    if not (isinstance(d[-1], list) and d[-1] and d[-1][0] == "block"):
        bad.append("definition `%s` whose body is not a block" % name)
    return bad


def has_sugar(text):
    return [k.strip("( ") for k in SUGAR if k in text]


def corpus_programs():
    out = []
    if os.path.isdir(CORPUS):
        for f in sorted(os.listdir(CORPUS)):
            if f.endswith(".circom"):
                out.append(("corpus/" + f, open(os.path.join(CORPUS, f)).read()))
    return out


def random_programs(ctx, n):
    """Seeded random bodies: 2-4 statements drawn from the matrix (several sugared
    statements per body, on one or several lines: exercises declaration
    collection order, generated names, nesting in loops)."""
    out = []
    stmts = []
    for pl, ptxt in c18gen.POSITIONS:
        if pl.startswith("return") or pl.startswith("decl_"):
            continue
        for fl, ftxt, _c in c18gen.FORMS:
            stmts.append(ptxt.format(S=ftxt))
    good = ["o <== A1()(a);", "(p, q) <== B22()(a, b);", "(o, _) <== (a, b);", "arr[0] <== A2()(a, b);",
            "for (var i = 0; i < 2; i++) { arr[i] <== A1()(a); }", "log((a, b), A1()(c));", "B10()(a);",
            "for (var i = 0; i < 2; i++) { for (var j = 0; j < 2; j++) { arr2[i][j] <== P1(2)(a); } }",
            "if (v == 0) { o <== parallel A1()(a); }", "_ <== A3()(x3 <== c, x1 <== a, x2 <== b);"]
    for i in range(n):
        k = ctx.rng.randrange(2, 5)
        body = []
        for _ in range(k):
            body.append(ctx.rng.choice(good) if ctx.rng.random() < 0.7 else ctx.rng.choice(stmts))
        sep = ctx.rng.choice(["\n  ", " ", "\n\n   "])
        out.append(("random/%d" % i, c18gen.program("T", sep.join(body))))
    return out


# --------------------------------------------------------------------------
# oracle (ii): hand-written expansions at source level
# --------------------------------------------------------------------------

TEMPLATES = {  # name -> (inputs, outputs)
    "A0": ([], ["y"]), "A1": (["x1"], ["y"]), "A2": (["x1", "x2"], ["y"]), "A3": (["x1", "x2", "x3"], ["y"]),
    "B00": ([], []), "B10": (["x1"], []), "B12": (["x1"], ["y1", "y2"]), "B22": (["x1", "x2"], ["y1", "y2"]),
    "B23": (["x1", "x2"], ["y1", "y2", "y3"]), "P1": (["x1"], ["y"]),
}

# (label, template, params text, [(input name, op, argument text)] in the order WRITTEN, named?)
E2E_CALLS = [
    ("A0pos", "A0", "", [], False),
    ("A1named", "A1", "", [("x1", "<--", "a")], True),
    ("A1pos", "A1", "", [("x1", "<==", "a")], False),
    ("A2pos", "A2", "", [("x1", "<==", "a"), ("x2", "<==", "b")], False),
    ("A3pos", "A3", "", [("x1", "<==", "a"), ("x2", "<==", "b"), ("x3", "<==", "c")], False),
    ("A2named", "A2", "", [("x1", "<==", "a"), ("x2", "<==", "b")], True),
    ("A2perm", "A2", "", [("x2", "<==", "b"), ("x1", "<==", "a")], True),
    ("A2ops", "A2", "", [("x1", "<--", "a"), ("x2", "<--", "b * b")], True),
    ("A3perm", "A3", "", [("x3", "<==", "c"), ("x1", "<==", "a"), ("x2", "<==", "b")], True),
    ("A1expr", "A1", "", [("x1", "<==", "a * b + 1")], False),
    ("P1", "P1", "2", [("x1", "<==", "a")], False),
    ("P1n", "P1", "n + 1", [("x1", "<==", "a")], False),
    ("B00", "B00", "", [], False),
    ("B10", "B10", "", [("x1", "<==", "a")], False),
    ("B12", "B12", "", [("x1", "<==", "a")], False),
    ("B22", "B22", "", [("x1", "<==", "a"), ("x2", "<==", "b")], False),
    ("B22named", "B22", "", [("x2", "<==", "b"), ("x1", "<==", "a")], True),
    ("B23", "B23", "", [("x1", "<==", "a"), ("x2", "<==", "b * c")], False),
    ("A2expr", "A2", "", [("x1", "<==", "a * b"), ("x2", "<==", "c + 1")], False),
    ("A3named", "A3", "", [("x1", "<==", "a"), ("x2", "<--", "b"), ("x3", "<==", "c")], True),
    ("P1named", "P1", "n", [("x1", "<==", "a + b")], True),
    ("B12named", "B12", "", [("x1", "<--", "a")], True),
    # permuted named inputs with different operators (operator goes with the NAME)
    ("A2perm_ops1", "A2", "", [("x2", "<--", "b"), ("x1", "<==", "a")], True),
    ("A2perm_ops2", "A2", "", [("x2", "<==", "b"), ("x1", "<--", "a * a")], True),
    ("A3perm_ops1", "A3", "", [("x3", "<--", "c"), ("x1", "<==", "a"), ("x2", "<==", "b")], True),
    ("A3perm_ops2", "A3", "", [("x2", "<--", "b"), ("x3", "<==", "c"), ("x1", "<==", "a")], True),
    ("A3perm_ops3", "A3", "", [("x3", "<==", "c"), ("x2", "<==", "b"), ("x1", "<--", "a")], True),
    ("B22perm_ops", "B22", "", [("x2", "<--", "b"), ("x1", "<==", "a")], True),
]

# positions: (label, number of values consumed, sugared statement with {S}, expansion with {V0} {V1} {V2};
#             in_loop: the component becomes an array indexed by the loop variable)
E2E_POS = [
    ("sub_c", 1, "o <== {S};", "o <== {V0};", None),
    ("sub_s", 1, "o <-- {S};", "o <-- {V0};", None),
    ("sub_rev", 1, "{S} ==> o;", "o <== {V0};", None),
    ("sub_v", 1, "v = {S};", "v = {V0};", None),
    ("decl_s", 1, "signal x <== {S};", "signal x; x <== {V0};", None),
    ("decl_v", 1, "var x = {S};", "var x; x = {V0};", None),
    ("under", 1, "_ <== {S};", "", None),
    ("stmt", 0, "{S};", "", None),
    ("msub2", 2, "(o, p) <== {S};", "o <== {V0}; p <== {V1};", None),
    ("msub2u", 2, "(o, _) <== {S};", "o <== {V0};", None),
    ("msub3", 3, "(o, p, q) <== {S};", "o <== {V0}; p <== {V1}; q <== {V2};", None),
    ("decl_t", 2, "signal (x, y) <== {S};", "signal x; signal y; x <== {V0}; y <== {V1};", None),
    ("if_body", 1, "if (n == 0) {{ o <== {S}; }}", "if (n == 0) {{ {P} o <== {V0}; }}", "inner"),
    ("loop", 1, "for (var i = 0; i < 2; i++) {{ arr[i] <== {S}; }}",
     "for (var i = 0; i < 2; i++) {{ {P} arr[i] <== {V0}; }}", "i"),
    ("loop2", 2, "for (var i = 0; i < 2; i++) {{ (arr[i], arr2[i][0]) <== {S}; }}",
     "for (var i = 0; i < 2; i++) {{ {P} arr[i] <== {V0}; arr2[i][0] <== {V1}; }}", "i"),
    ("loop2u", 2, "for (var i = 0; i < 2; i++) {{ (arr[i], _) <== {S}; }}",
     "for (var i = 0; i < 2; i++) {{ {P} arr[i] <== {V0}; }}", "i"),
    ("loop3u", 3, "for (var i = 0; i < 2; i++) {{ (_, arr[i], _) <== {S}; }}",
     "for (var i = 0; i < 2; i++) {{ {P} arr[i] <== {V1}; }}", "i"),
    ("loop_under", 1, "for (var i = 0; i < 2; i++) {{ _ <== {S}; }}",
     "for (var i = 0; i < 2; i++) {{ {P} }}", "i"),
    # fourth audit: a loop nested in a loop (for in for, while in while, the component only in the inner loop while the
    # outer one has statements of its own), a `parallel` call, an anonymous component as the input of another
    ("nest", 1, "for (var i = 0; i < 2; i++) {{ for (var j = 0; j < 2; j++) {{ arr2[i][j] <== {S}; }} }}",
     "for (var i = 0; i < 2; i++) {{ for (var j = 0; j < 2; j++) {{ {P} arr2[i][j] <== {V0}; }} }}", "i,j"),
    ("nest_while", 1, "while (v < 2) {{ w = 0; while (w < 2) {{ arr2[v][w] <== {S}; w++; }} v++; }}",
     "while (v < 2) {{ w = 0; while (w < 2) {{ {P} arr2[v][w] <== {V0}; w++; }} v++; }}", "v,w"),
    ("nest_inner_only", 1, "for (var i = 0; i < 2; i++) {{ arr[i] <== a; for (var j = 0; j < 2; j++) {{ arr2[i][j] <== {S}; }} }}",
     "for (var i = 0; i < 2; i++) {{ arr[i] <== a; for (var j = 0; j < 2; j++) {{ {P} arr2[i][j] <== {V0}; }} }}", "i,j"),
    ("nest_both", 1, "for (var i = 0; i < 2; i++) {{ arr[i] <== {S}; for (var j = 0; j < 2; j++) {{ arr2[i][j] <== a; }} }}",
     "for (var i = 0; i < 2; i++) {{ {P} arr[i] <== {V0}; for (var j = 0; j < 2; j++) {{ arr2[i][j] <== a; }} }}", "i"),
    ("par_sub", 1, "o <== parallel {S};", "o <== {V0};", "parallel"),
    ("par_loop", 1, "for (var i = 0; i < 2; i++) {{ arr[i] <== parallel {S}; }}",
     "for (var i = 0; i < 2; i++) {{ {P} arr[i] <== {V0}; }}", "parallel,i"),
    ("as_input", 1, "o <== A1()({S});", "cy = A1(); cy.x1 <== {V0}; o <== cy.y;", "input"),
    ("tuple_mix", 1, "(o, p) <== ({S}, b);", "o <== {V0}; p <== b;", None),
    ("else_body", 1, "if (n == 0) {{ o <== a; }} else {{ o <== {S}; }}",
     "if (n == 0) {{ o <== a; }} else {{ {P} o <== {V0}; }}", "inner"),
    ("block", 1, "{{ o <== {S}; }}", "{{ {P} o <== {V0}; }}", "inner"),
    ("arr0", 1, "arr[0] <== {S};", "arr[0] <== {V0};", None),
    ("decl_s2", 1, "signal x <-- {S};", "signal x; x <-- {V0};", None),
    ("msub2rev", 2, "{S} ==> (o, p);", "o <== {V0}; p <== {V1};", None),
    ("msub3u", 3, "(_, p, _) <== {S};", "p <== {V1};", None),
    ("while", 1, "while (v < 2) {{ arr[v] <== {S}; v++; }}", "while (v < 2) {{ {P} arr[v] <== {V0}; v++; }}", "v"),
    ("loop_if", 1, "for (var i = 0; i < 2; i++) {{ if (i == 0) {{ arr[i] <== {S}; }} }}",
     "for (var i = 0; i < 2; i++) {{ if (i == 0) {{ {P} arr[i] <== {V0}; }} }}", "i"),
]

E2E_TUPLES = [  # pure tuple statements and their expansions
    ("(o, p) <== (a, b);", "o <== a; p <== b;"),
    ("(o, p, q) <== (a + 1, b * c, c);", "o <== a + 1; p <== b * c; q <== c;"),
    ("((o, p), q) <== ((a, b), c);", "o <== a; p <== b; q <== c;"),
    ("(o, _, q) <== (a, b, c);", "o <== a; q <== c;"),
    ("(o, p) <-- (a * a * a, b);", "o <-- a * a * a; p <-- b;"),
    ("(a * b, c) ==> (o, p);", "o <== a * b; p <== c;"),
    ("(v, w) = (1, 2);", "v = 1; w = 2;"),
    ("var (x, y) = (1, v);", "var x; var y; x = 1; y = v;"),
    ("signal (x, y) <== (a, b);", "signal x; signal y; x <== a; y <== b;"),
    ("for (var i = 0; i < 2; i++) { (arr[i], arr2[i][0]) <== (a, b); }",
     "for (var i = 0; i < 2; i++) { arr[i] <== a; arr2[i][0] <== b; }"),
    ("log((a, b));", "log(\"(\", a, b, \")\");"),
    ("log(\"s\", (a, (b, c)), 1);", "log(\"s\", \"(\", a, \"(\", b, c, \")\", \")\", 1);"),
]

E2E_HOST = """template T(n) {{
  signal input a;
  signal input b;
  signal input c;
  signal output o;
  signal output p;
  signal output q;
  signal arr[3];
  signal arr2[2][2];
  var v = 0;
  var w = 0;
  {DECL} {BODY}
}}
component main = T(1);
"""


# witnesses of repaired analysis-side defects, each with the expansion a programmer would write
E2E_WITNESS = [
    ("cs0018_anon_in_loop", "cs0018_anon_in_loop.circom", """pragma circom 2.0.0;
template A() { signal input x; signal output y1; signal output y2; y1 <== x; y2 <== x; }
template T() {
  signal input a;
  signal output o[2];
  signal output r;
  component cx[2]; component cy; for (var i = 0; i < 2; i++) { cx[i] = A(); cx[i].x <== a; o[i] <== cx[i].y1; }
  cy = A(); cy.x <== a; r <== cy.y1;
}
component main = T();
"""),
]


def e2e_pairs():
    """(label, sugared source, expanded source)."""
    out = []
    for lab, f, exp in E2E_WITNESS:
        out.append(("e2e/witness/" + lab, open(os.path.join(CORPUS, f)).read(), exp))
    for cl, tname, params, args, named in E2E_CALLS:
        ins, outs = TEMPLATES[tname]
        for pl, nvals, sug, exp, where in E2E_POS:
            if nvals != len(outs) and not (pl == "under" and len(outs) == 1):
                continue
            call_args = ", ".join(("%s %s %s" % a) if named else a[2] for a in args)
            s_text = "%s(%s)(%s)" % (tname, params, call_args)
            byname = {a[0]: a for a in args}
            flags = (where or "").split(",")
            ivars = [x for x in flags if x in ("i", "j", "v", "w")]
            idx = "".join("[%s]" % x for x in ivars)
            comp = "cx" + idx
            prelude = "%s = %s%s(%s); " % (comp, "parallel " if "parallel" in flags else "", tname, params) + " ".join(
                "%s.%s %s %s;" % (comp, i, byname[i][1], byname[i][2]) for i in ins)
            vals = {"V%d" % k: "%s.%s" % (comp, o) for k, o in enumerate(outs)}
            decl = "component cx%s;" % ("[2]" * len(ivars)) + (" component cy;" if "input" in flags else "")
            if "{P}" not in exp:
                body_exp = prelude + " " + exp.format(**vals)
            else:
                body_exp = exp.format(P=prelude, **vals)
            sugared = c18gen.PRELUDE + E2E_HOST.format(DECL="", BODY=sug.format(S=s_text))
            expanded = c18gen.PRELUDE + E2E_HOST.format(DECL=decl, BODY=body_exp)
            out.append(("e2e/%s/%s" % (pl, cl), sugared, expanded))
    for i, (sug, exp) in enumerate(E2E_TUPLES):
        out.append(("e2e/tuple/%d" % i, c18gen.PRELUDE + E2E_HOST.format(DECL="", BODY=sug),
                    c18gen.PRELUDE + E2E_HOST.format(DECL="", BODY=exp)))
    return out


TEMPLATE_HEAD = re.compile(r"\btemplate\s+(?:custom\s+)?(?:parallel\s+)?([A-Za-z_$][A-Za-z0-9_$]*)")


def gen_name_regex(source):
    """The names the desugarer can generate in THIS program: `<template id>_<line>_<offset>` for a template the
    source defines, `anon_var_<line>_<offset>`, and `cx` (the component name of the hand expansions).  A user
    name that merely has the shape `x_1_2` is not erased (it was, before the third audit)."""
    ids = sorted(set(TEMPLATE_HEAD.findall(source)), key=lambda x: (-len(x), x))
    alt = "|".join(re.escape(i) for i in ids) or "(?!)"
    return re.compile(r"(?<![A-Za-z0-9_$])(?:(?:%s)_\d+_\d+|cx|cy|anon_var_\d+_\d+)(?![A-Za-z0-9_$])" % alt)


LOC_LINE = re.compile(r"^\s*┌─ .*:(\d+):\d+\s*$")


def erase_generated(m):
    """A generated loop counter becomes `<k>`, a generated (or hand-named) component `<c>`: the signature of the loop
    counter finding must not cover a finding about the generated COMPONENT."""
    return "<k>" if m.group(0).startswith("anon_var_") else "<c>"


def findings(cli, path, gen_name=None):
    """Multiset of findings of a CLI run: severity, code, message (generated names removed) and the LINE of the
    primary location, where the report has one.  Both programs of a pair are rendered from the same host text with
    the sugared statement / its expansion (with the component declaration it needs) on the same line (E2E_HOST: DECL
    and BODY share one line), so lines are comparable; columns are not compared because the two statements are different texts (the anonymous component
    `A1()(a)` and the hand-written `cx = A1(); cx.x1 <== a;` start at different offsets of that line), and labels
    beyond the primary one are not compared (codespan prints them as excerpts of the differing source line)."""
    rc, out, err = common.sh([cli, path, "--verbose"], timeout=120)
    text = out + err
    if rc not in (0, 1) or "panicked at" in text:
        return None, text[-1500:]
    res = []
    lines = text.split("\n")
    if gen_name is None:
        gen_name = gen_name_regex(open(path).read())
    for i, ln in enumerate(lines):
        m = re.match(r"^(warning|error|note)(?:\[(\w+)\])?: (.*)$", ln)
        if not m:
            continue
        msg = gen_name.sub(erase_generated, m.group(3))
        # the index of the generated component array: the generated counter in the sugared program, the loop's own variable
        # (`i` of the for positions, `v` of the while position) in the hand expansion
        msg = re.sub(r"<c>(?:\[(?:<k>|i|j|v|w)\])+", "<c>", msg)
        loc = LOC_LINE.match(lines[i + 1]) if i + 1 < len(lines) else None
        res.append("%s[%s]: %s @line %s" % (m.group(1), m.group(2), msg, loc.group(1) if loc else "-"))
    return sorted(res), text[-1500:]


def multiset_diff(a, b):
    """elements of a not matched by an equal element of b (as multisets)"""
    rest = list(b)
    out = []
    for x in a:
        if x in rest:
            rest.remove(x)
        else:
            out.append(x)
    return out


# The SIGNATURE of each known finding: what exactly a failing end-to-end pair shows.  A failure is covered by a known
# finding only if (a) it is an end-to-end pair record whose two runs completed, (b) the sugared source is in the
# finding's input class (class_regex of known_findings.jsonl), (c) the expansion has no finding the sugared program
# lacks, and (d) every finding the sugared program has in excess matches the pattern below.  Anything else on such an
# input - a panic, a rejected definition, a model disagreement, another extra or missing finding - is a violation.
KNOWN_SIGNATURES = {
    "C18-loop-counter-finding":
        r"^warning\[CS0008\]: The value assigned to `<k>` is not used in witness or constraint generation\. @line \d+$",
    "C18-generated-name-capture":
        r"^warning\[CS0001\]: Declaration of variable `<[ck]>` shadows previous declaration\. @line \d+$",
}


def known_signature(known, f):
    """-> the known finding whose class AND signature the failure record f has, or None."""
    if not f.get("e2e_pair"):
        return None
    fs, fe = f.get("impl"), f.get("spec")
    if not isinstance(fs, list) or not isinstance(fe, list):
        return None
    extra, missing = multiset_diff(fs, fe), multiset_diff(fe, fs)
    if missing or not extra:
        return None
    for k in known:
        pat, sig = k.get("class_regex"), KNOWN_SIGNATURES.get(k["id"])
        if pat and sig and re.search(pat, f.get("input", "")) and all(re.match(sig, x) for x in extra):
            return k
    return None


HOST_HEAD = "template T(n) {"


def spec_e2e_pairs(cands, harness=None):
    """(label, sugared source, source with the host template replaced by the printed expand_spec output); the second
    list: candidates that were dropped, with the reason (counted in the evidence).  With `harness`, the printer is
    validated per pair: the printed program must parse, and the parsed host template must have the behavioural
    normal form of the expand_spec output it was printed from (print, then parse = identity up to what source text
    cannot express); a pair failing this is dropped and counted, never compared."""
    out, bad = [], []
    for i, (lab, src, spec_text) in enumerate(cands):
        at = src.rfind(HOST_HEAD)
        if at < 0:
            bad.append((lab, "no host template"))
            continue
        try:
            body = c18print.body_text(strip_metas(parse_sexp(spec_text))[-1])
        except (c18print.Unprintable, ValueError, KeyError, IndexError) as e:
            bad.append((lab, "unprintable: " + repr(e)))
            continue
        main = "component main = T(1);\n" if i % 2 == 0 else ""
        out.append(("e2e/spec/" + lab, src + main, src[:at] + HOST_HEAD + "\n  " + body + "\n}\n" + main, spec_text))
    if harness and out:
        res = common.run_lines(harness, [], [c18gen.escape(p[2]) for p in out], shards=common.NPROC)
        if len(res) != len(out):
            raise common.BuildError("harness desugar returned %d lines for %d programs" % (len(res), len(out)), "")
        ok = []
        for p, o in zip(out, res):
            if o.startswith("PARSE"):
                bad.append((p[0], "the printed expansion does not parse: " + o[:200]))
                continue
            pre = {n: t for _k, n, t in split_defs(fields(o)["PRE"])}
            try:
                same = behaviour_nf(pre["T"], set(), True) == behaviour_nf(p[3], set(), True)
            except Exception as e:
                same = False
            if not same:
                bad.append((p[0], "print-then-parse does not give back the expand_spec output (normal forms differ)"))
                continue
            ok.append(p)
        out = ok
    return [p[:3] for p in out], bad


def run_e2e(ctx, cli, pairs):
    import concurrent.futures
    d = os.path.join(ctx.work, "e2e")
    os.makedirs(d, exist_ok=True)
    jobs = []
    for i, (lab, s, e) in enumerate(pairs):
        ps, pe = os.path.join(d, "s%d.circom" % i), os.path.join(d, "e%d.circom" % i)
        open(ps, "w").write(s)
        open(pe, "w").write(e)
        jobs.append((lab, ps, pe, s, e))

    def one(j):
        lab, ps, pe, s, e = j
        gn = gen_name_regex(s)          # the templates of the sugared program decide what a generated name is
        fs, ts = findings(cli, ps, gn)
        fe, te = findings(cli, pe, gn)
        return lab, s, e, fs, fe, ts, te
    with concurrent.futures.ThreadPoolExecutor(max_workers=common.NPROC) as ex:
        return list(ex.map(one, jobs))


# --------------------------------------------------------------------------

def evaluate(ctx, HARNESS_BIN, MODEL_BIN, programs):
    """Runs implementation and model on the programs. Returns (records, stats)."""
    lines = [c18gen.escape(s) for _, s in programs]
    impl = common.run_lines(HARNESS_BIN, [], lines, shards=common.NPROC)
    if len(impl) != len(programs):
        raise common.BuildError("harness desugar returned %d lines for %d programs" % (len(impl), len(programs)), "")
    recs = []
    mlines, midx = [], []
    for i, ((lab, src), o) in enumerate(zip(programs, impl)):
        if o.startswith("PARSE"):
            recs.append({"label": lab, "src": src, "parse": o.split("\t")[1]})
            continue
        d = fields(o)
        recs.append({"label": lab, "src": src, "impl": d})
        mlines.append(c18gen.starts_field(src) + "\t" + d["PRE"])
        midx.append(i)
    model = common.run_lines(MODEL_BIN, ["mirror"], mlines, shards=common.NPROC)
    spec = common.run_lines(MODEL_BIN, ["spec"], mlines, shards=common.NPROC)
    rt = common.run_lines(MODEL_BIN, ["roundtrip"], mlines, shards=common.NPROC)
    for i, m, s, r in zip(midx, model, spec, rt):
        recs[i]["model"] = fields(m)
        recs[i]["spec"] = fields(s)
        recs[i]["roundtrip"] = r
    return recs


def rep_msgs(rep):
    return sorted(bytes.fromhex(m).decode(errors="replace") for _c, m in re.findall(r"\(r (\S+) x([0-9a-f]*)", rep or ""))


def classify(d, m):
    """What kind of difference there is between implementation and mirror."""
    if "panic" in (d["POST"], m.get("POST")):
        return "panic"
    di = {(k, n) for k, n, _ in split_defs(d["POST"])}
    mi = {(k, n) for k, n, _ in split_defs(m.get("POST", ""))}
    if di != mi:
        return "decision (accepted vs rejected): " + ", ".join(sorted(n for _k, n in di ^ mi))
    if rep_msgs(d["REP"]) != rep_msgs(m.get("REP")):
        return "message class"
    if d["REP"] != m.get("REP"):
        return "report location / label"
    return "expansion"


def group_of(label):
    if label.startswith("corpus/"):
        return "corpus"
    if label.startswith("rand/"):
        return "random_grammar"
    if label.startswith("random/"):
        return "random_matrix"
    if label.startswith("multifile/"):
        return "multifile"
    if label.startswith("e2e/"):
        return "e2e"
    if label.startswith("parser/"):
        return "parser_pairs"
    if label.startswith("wiring/"):
        return "wiring"
    return "deep" if "/deep/" in label else "matrix"


def by_group(items):
    out = {}
    for it in items:
        g = group_of(it.get("label", ""))
        out[g] = out.get(g, 0) + 1
    return out


DESUGAR_CODES = ("tuple-error", "anonymous-component-error")
REPORT_ITEM = re.compile(r"\(r (\S+) x[0-9a-f]*(?: \(p \d+ \d+ \d+ x[0-9a-f]*\))*\)")


def desugar_reports(rep):
    """The reports of the desugarer among a report list (parse_files adds its own: version pragma, includes ...)."""
    return sorted(m.group(0) for m in REPORT_ITEM.finditer(rep or "") if m.group(1) in DESUGAR_CODES)


def routes(d):
    """What is handed on, per route: the hook's result and the results of the real parse_files in the two modes.
    -> [(route name, definitions text, reports text)]; a route whose text is `=` handed on exactly the hook's POST."""
    out = [("remove_syntactic_sugar (hook)", d["POST"], d["REP"], d.get("REPCAT"))]
    for key, rk in (("LIB", "LIBREP"), ("PROG", "PROGREP")):
        v = d.get(key)
        if v is None:
            continue
        mode, _, defs = v.partition(" ")
        out.append(("parse_files -> ParseResult::%s" % mode.capitalize(), d["POST"] if defs == "=" else (defs or mode), d.get(rk, ""),
                    d.get(rk + "CAT")))
    return out


MAIN_ANON_MSG = "x" + "The main component cannot contain an anonymous call.".encode().hex()


def category_failures(route, rep, cats):
    """'rejected with an ERROR': every report of the desugarer (and the one about an anonymous main component) has
    the category error; the category list must cover exactly the reports of the list it belongs to."""
    if cats is None:
        return ["%s: the harness printed no report categories" % route]
    items = [x.split(":") for x in cats.split(",")] if cats != "-" else []
    mine = [c for n, c in items if n in DESUGAR_CODES]
    fails = []
    if len(mine) != len(desugar_reports(rep)):
        fails.append("%s: %d categories for %d reports of the desugarer" % (route, len(mine), len(desugar_reports(rep))))
    if any(c != "error" for c in mine):
        fails.append("%s: a report of the desugarer has category %s, not error" % (route, sorted(set(mine) - {"error"})))
    return fails


def judge(rec):
    """Oracle (i) on one record. Returns list of failure descriptions."""
    fails = []
    if "parse" in rec:
        if rec["parse"].startswith("panic"):
            fails.append("the parser panics")
        return fails
    d = rec["impl"]
    if d["POST"] == "panic":
        return ["remove_syntactic_sugar panics"]
    pre_defs = split_defs(d["PRE"])
    seen = set()
    for route, post, rep, cats in routes(d):
        if post in ("panic", "io-error"):
            fails.append("%s: %s" % (route, post))
            continue
        fails += category_failures(route, rep, cats)
        first = post not in seen
        seen.add(post)
        if first:
            post_defs = split_defs(post)
            for kind, name, text in post_defs:
                s = has_sugar(text)
                if s:
                    fails.append("%s: %s `%s` is handed on containing %s" % (route, "template" if kind == "T" else "function", name, "/".join(s)))
            post_f = {name for kind, name, _ in post_defs if kind == "F"}
        for kind, name, text in pre_defs:
            if kind == "F" and has_sugar(text):
                if first and name in post_f:
                    fails.append("%s: function `%s` contains %s but is handed on" % (route, name, "/".join(has_sugar(text))))
                m = re.search(r"\(block @(\d+):(\d+):", text)
                lo, hi = int(m.group(1)), int(m.group(2))
                inside = [1 for code, a, b in re.findall(r"\(r (\S+) x[0-9a-f]* \(p (\d+) (\d+) ", rep)
                          if code in DESUGAR_CODES and lo <= int(a) and int(b) <= hi]
                if not inside:
                    fails.append("%s: function `%s` contains %s but no error report points into it" % (route, name, "/".join(has_sugar(text))))
        if not route.startswith("remove"):
            if post != d["POST"]:
                a = {(k, n): t for k, n, t in split_defs(d["POST"])}
                b = {(k, n): t for k, n, t in split_defs(post)}
                diff = sorted(n for (k, n) in set(a) | set(b) if a.get((k, n)) != b.get((k, n)))
                fails.append("%s hands on other definitions than remove_syntactic_sugar returned for them: %s" % (route, ", ".join(diff)))
            got, want = desugar_reports(rep), desugar_reports(d["REP"])
            if route.endswith("Program-anon"):
                # `component main = A0()();`: parse_files itself must answer the anonymous call with an error report
                main_reports = [x for x in got if MAIN_ANON_MSG in x]
                if len(main_reports) != 1:
                    fails.append("%s: an anonymous main component is answered by %d reports 'The main component cannot contain an "
                                 "anonymous call.' (expected 1)" % (route, len(main_reports)))
                got = [x for x in got if MAIN_ANON_MSG not in x]
            if got != want:
                fails.append("%s: the desugarer's reports differ from those of remove_syntactic_sugar on the same definitions" % route)
    if "panic" in d["PIPE"]:
        fails.append("CFG/SSA construction panics on what the desugarer handed on: " + d["PIPE"])
    return fails


IO_HEAD = re.compile(r"\(T (\S+) \(in([^)]*)\) \(out([^)]*)\)")


# the callee templates of the fixed prelude, as text (a program that holds them - in its only file or in an included one -
# has the ports c18gen.PORTS)
FIXED_CALLEES = c18gen.PRELUDE[c18gen.PRELUDE.index("template A0"):c18gen.PRELUDE.index("function f1")]


def port_order_failures(d, ports):
    """Oracle (i-ports): what TemplateData records as inputs / outputs of a callee (printed by the harness from
    get_declaration_inputs / _outputs) against the ports in the order the generator wrote the declarations.
    -> (failures, number of templates compared)."""
    fails, n = [], 0
    seen = set()
    every = [("TemplateData::new (every parsed template, kept or rejected)", d.get("IO", ""), None, None)]
    for route, post, _rep, _cats in every + routes(d):
        if post in seen or post in ("panic", "io-error"):
            continue
        seen.add(post)
        for name, i, o in IO_HEAD.findall(post):
            if name not in ports:
                continue
            n += 1
            want_i, want_o = ports[name]
            got_i = [(x.rsplit(":", 1)[0], int(x.rsplit(":", 1)[1])) for x in i.split()]
            got_o = [(x.rsplit(":", 1)[0], int(x.rsplit(":", 1)[1])) for x in o.split()]
            if got_i != list(want_i) or got_o != list(want_o):
                fails.append("%s: template `%s` records inputs %s outputs %s; declared (name, dimensions) in the order inputs %s outputs %s"
                             % (route, name, got_i, got_o, list(want_i), list(want_o)))
    return fails, n


# ---- oracle (i-parser) -----------------------------------------------------------------------------------------

def strip_metas(x):
    if isinstance(x, list):
        return [strip_metas(y) for y in x if not (isinstance(y, str) and y.startswith("@"))]
    return x


def body_statements(pre, name):
    for _k, n, text in split_defs(pre):
        if n == name:
            return strip_metas(parse_sexp(text))[-1][1:]
    return None


def xtype_term(xt):
    return parse_sexp(xt) if xt.startswith("(") else xt


def expected_statements(pair, ref_new):
    """The AST (metas erased) the statement in the sugared spelling must have, from the AST `ref_new` of the
    statement(s) in the plain spelling.  This is the reading of the three parser-side builders."""
    kind, exp = pair["kind"], pair["expect"]
    if kind == "rev":
        return ref_new                                   # `E ==> L` IS `L <== E`, `E --> L` IS `L <-- E`
    if kind in ("decltuple", "decllist"):
        xt = xtype_term(exp["xtype"])
        decls = [["decl", xt, nm, "1"] + [["num", d] for d in dims] for nm, dims in exp["decls"]]
        if kind == "decltuple":
            items = list(decls)
            if exp["init"]:
                # one tuple assignment: destinations are the declared names IN THE ORDER WRITTEN
                items.append(["msub", exp["op"], ["tuple"] + [["var", nm, ["acc"]] for nm, _d in exp["decls"]], ref_new[0][-1]])
            return [["initblock", xt] + items]
        items, k = [], 0
        for dcl, has_init in zip(decls, exp["inits"]):   # each declaration followed by ITS initialisation
            items.append(dcl)
            if has_init:
                items.append(ref_new[k])
                k += 1
        return [["initblock", xt] + items]
    if kind == "named":
        import copy
        st = copy.deepcopy(ref_new)
        rhe = st[0][-1]
        if rhe[0] == "par":
            rhe = rhe[-1]
        if rhe[0] != "anon" or rhe[-1] != "nonames":
            return None
        rhe[-1] = ["names"] + [[o, n] for o, n in exp["names"]]   # names and operators in the order WRITTEN
        return st
    return None


def parser_oracle(ctx, HARNESS_BIN, pairs):
    """-> (failures with input, number compared, unusable pairs)."""
    cal = [c18gen.program(h, "", extra=c18rand.EXTRA) for h in ("T", "F")]
    srcs = cal + [p["sugared"] for p in pairs] + [p["reference"] for p in pairs]
    outs = common.run_lines(HARNESS_BIN, [], [c18gen.escape(x) for x in srcs], shards=common.NPROC)
    if len(outs) != len(srcs):
        raise common.BuildError("harness desugar returned %d lines for %d programs" % (len(outs), len(srcs)), "")
    base = {}
    for h, o in zip(("T", "F"), outs[:2]):
        base[h] = len(body_statements(fields(o)["PRE"], "T" if h == "T" else "g"))
    fails, unusable, shape, n = [], [], [], 0
    N = len(pairs)
    for i, p in enumerate(pairs):
        os_, or_ = outs[2 + i], outs[2 + N + i]
        if os_.startswith("PARSE") or or_.startswith("PARSE"):
            unusable.append({"label": p["label"], "input": p["sugared"], "what": "does not parse: " + (os_ if os_.startswith("PARSE") else or_)[:200]})
            continue
        name = "T" if p["host"] == "T" else "g"
        bs, br = body_statements(fields(os_)["PRE"], name), body_statements(fields(or_)["PRE"], name)
        # the host's own statements: those before BODY (13 for T, 10 for g) and `return 0;` after it in g
        nsuf = 1 if p["host"] == "F" else 0
        npre = base[p["host"]] - nsuf
        new_s = bs[npre:len(bs) - nsuf]
        new_r = br[npre:len(br) - nsuf]
        want = expected_statements(p, new_r)
        if want is None:
            unusable.append({"label": p["label"], "input": p["sugared"], "what": "the reference statement has not the expected form"})
            continue
        n += 1
        if new_s != want:
            # second judgement: the expected AST also fixes things no reader of the AST observes (the is_constant
            # flag, the grouping into ONE initialisation block, wrapper blocks); a difference in those only is a
            # shape report without input
            try:
                same = behaviour_nf(unparse(["block"] + new_s), set()) == behaviour_nf(unparse(["block"] + want), set())
            except Exception:
                same = False
            if same:
                shape.append({"label": p["label"], "input": p["sugared"], "impl": unparse(new_s)[:500], "spec": unparse(want)[:500]})
                continue
            fails.append({"label": p["label"], "input": p["sugared"], "parser_pair": p,
                          "impl": "the parser builds for `%s` the AST %s" % (p["statement"], unparse(new_s)[:700]),
                          "spec": "the AST of the plain spelling `%s`, rearranged as the %s spelling says: %s"
                                  % (p["reference_statement"], p["kind"], unparse(want)[:700])})
    return fails, n, unusable, shape


def wiring_oracle(ctx, HARNESS_BIN, progs):
    """Oracle (i-wiring): which expression reaches which input port under which operator, and which output port
    reaches which destination, read from the desugared host template of the REAL tool and compared with what the
    generator states (c18rand.wiring_programs).  Independent of expand_spec, of the mirror and of the recorded port
    lists: the expected wiring comes from the order in which the callee's declarations were WRITTEN."""
    outs = common.run_lines(HARNESS_BIN, [], [c18gen.escape(p["src"]) for p in progs], shards=common.NPROC)
    if len(outs) != len(progs):
        raise common.BuildError("harness desugar returned %d lines for %d programs" % (len(outs), len(progs)), "")
    fails, n = [], 0
    for p, o in zip(progs, outs):
        rec = {"label": p["label"], "input": p["src"], "spec": "inputs %s; outputs %s" % (p["inputs"], p["outputs"])}
        if o.startswith("PARSE"):
            fails.append(dict(rec, impl="a valid use does not parse: " + o[:200]))
            continue
        d = fields(o)
        pre = {nm: t for _k, nm, t in split_defs(d["PRE"])}
        post = {nm: t for _k, nm, t in split_defs(d["POST"])} if d["POST"] != "panic" else {}
        if "T" not in post:
            fails.append(dict(rec, impl="a valid use `%s` is rejected: %s" % (p["statement"], rep_msgs(d.get("REP")))))
            continue
        gen = generated_names(pre["T"], post["T"])
        ins, outs_, inits = {}, {}, []

        def walk(x):
            if not isinstance(x, list):
                return
            if x and x[0] == "sub" and len(x) == 5:
                _s, name, op, acc, rhe = x
                port = [a[1] for a in acc[1:] if a[0] == "ca"]
                if name in gen and port:
                    ins.setdefault(port[0], []).append((op, unparse(rhe)))
                elif name in gen and isinstance(rhe, list) and rhe[0] in ("call", "par"):
                    inits.append(unparse(rhe))
                elif isinstance(rhe, list) and rhe[0] == "var" and rhe[1] in gen:
                    rp = [a[1] for a in rhe[2][1:] if a[0] == "ca"]
                    outs_.setdefault("%s %s" % (name, unparse(acc)), []).append((op, rp[0] if rp else "?"))
            for y in x:
                walk(y)
        walk(strip_metas(parse_sexp(post["T"]))[-1])
        n += 1
        want_i = {k: [tuple(v)] for k, v in p["inputs"].items()}
        want_o = {k: [tuple(v)] for k, v in p["outputs"].items()}
        bad = []
        if ins != want_i:
            bad.append("inputs wired %s, stated %s" % (ins, want_i))
        if outs_ != want_o:
            bad.append("outputs read %s, stated %s" % (outs_, want_o))
        if len(inits) != 1 or ("(call %s" % p["template"]) not in inits[0]:
            bad.append("component initialised by %s" % inits)
        if bad:
            fails.append(dict(rec, impl="`%s`: %s" % (p["statement"], "; ".join(bad)), wiring=p))
    return fails, n


def unparse(x):
    if isinstance(x, list):
        return "(" + " ".join(unparse(y) for y in x) + ")"
    return x


# ---- behavioural normal form (what `spec_diff` is judged by) ---------------------------------------------------

def behaviour_nf(text, generated, printable=False):
    """A desugared definition up to what no analysis can observe as behaviour: metas erased, the `is_constant`
    flag of declarations erased, empty blocks dropped, a block nested directly in a statement list spliced into it
    when it declares nothing (a wrapper), generated names renamed to g0, g1, .. in order of first occurrence.
    Kept: every declaration, every assignment with its operator, destination, accesses and value, their ORDER, the
    control structure, log / assert / return / === arguments.
    printable=True additionally identifies what Circom source cannot tell apart (used only to validate the
    pretty-printer): the declaration type `anoncomp` is written `component`."""
    t = strip_metas(parse_sexp(text))
    if t and t[0] in ("T", "F"):
        t = t[-1]                   # the body (the recorded port lists are compared by oracle (i-ports))
    ren = {}

    def name(a):
        if a in generated:
            if a not in ren:
                ren[a] = "g%d" % len(ren)
            return ren[a]
        return a

    def has_decl(st):
        return isinstance(st, list) and st and st[0] == "decl"

    def nf(x):
        if not isinstance(x, list):
            return name(x)
        if not x:
            return x
        if x[0] == "decl":          # (decl xtype name const dims..)
            xt = "comp" if printable and x[1] == "anoncomp" else nf(x[1])
            return ["decl", xt, name(x[2])] + [nf(y) for y in x[4:]]
        if x[0] in ("block", "initblock"):
            # an initialisation block is a grouping of declarations (each carries its own type) and their
            # initialisations: its items stand in the enclosing list, in order
            items = []
            for y in (x[1:] if x[0] == "block" else x[2:]):
                z = nf(y)
                if isinstance(z, list) and z and z[0] == "initgroup":
                    items.extend(z[1:])
                    continue
                if isinstance(z, list) and z and z[0] == "block":
                    inner = z[1:]
                    if not any(has_decl(w) for w in inner):
                        items.extend(inner)
                        continue
                items.append(z)
            return [x[0] if x[0] == "block" else "initgroup"] + items
        if x[0] in ("if", "while"):
            out = [x[0], nf(x[1])]
            for y in x[2:]:
                z = nf(y)
                if not (isinstance(z, list) and z and z[0] == "block"):
                    z = ["block", z]          # a branch / loop body is a statement list, braced or not
                out.append(z)
            return out
        return [nf(y) for y in x]
    return nf(t)


def nf_self_test(HARNESS_BIN):
    """behaviour_nf must identify what it claims to identify and nothing else, on a desugared template of the real
    tool: -> list of complaints."""
    src = c18gen.program("T", "var z = 1; for (var i = 0; i < 2; i++) { arr[i] <== A1()(a); } o <== A2()(a, b); (p, _, q) <== (b, c, A1()(c));")
    d = fields(common.run_lines(HARNESS_BIN, [], [c18gen.escape(src)], shards=1)[0])
    pre = {n: t for _k, n, t in split_defs(d["PRE"])}["T"]
    post = {n: t for _k, n, t in split_defs(d["POST"])}["T"]
    nf = lambda t: behaviour_nf(t, generated_names(pre, t))
    base = nf(post)
    bad = []
    same = {"other generated names": re.sub(r"\b(A[12])_(\d+)_(\d+)", r"\1_\2_9\3", post),
            "other metas": re.sub(r"@\d+:\d+:", "@1:2:", post),
            "is_constant": re.sub(r"(\(decl @\S+ \S+ \S+) 1", r"\1 0", post),
            "an empty block more": post.replace("(sub ", "(block @0:0:0) (sub ", 1)}
    differ = {"another port": post.replace("(ca x1)", "(ca x2)", 1), "another operator": post.replace(" acs ", " as ", 1),
              "another destination": re.sub(r"\(sub (@\S+) p ", r"(sub \1 q ", post, 1),
              "two assignments swapped": re.sub(r"(\(sub @\S+ p [^\n]*?\)\)\)) (\(sub @\S+ q [^\n]*?\)\)\)\))", r"\2 \1", post, 1),
              "a component declaration of another type": post.replace(" comp A2_", " anoncomp A2_", 1)}
    differ["another dimension"] = re.sub(r"(\(decl @\S+ \(sig mid\) arr 1 \(num @\S+) 3\)", r"\1 4)", post, 1)
    m = re.search(r"\(initblock @\S+ var \(decl @\S+ var z 1\)", post)
    if m:
        def sexp_at(i):
            depth = 0
            for j in range(i, len(post)):
                depth += (post[j] == "(") - (post[j] == ")")
                if depth == 0:
                    return post[i:j + 1]
            return post[i:]
        a = sexp_at(m.start())
        b = sexp_at(m.start() + len(a) + 1)
        if b.startswith("(block "):
            differ["a declaration moved behind the loop that follows it"] = post.replace(a + " " + b, b + " " + a, 1)
    if len(differ) < 7:
        bad.append("the dimension / moved-declaration variants could not be produced")
    for k, t in same.items():
        if t == post or nf(t) != base:
            bad.append("normal form separates `%s`%s" % (k, " (variant not produced)" if t == post else ""))
    for k, t in differ.items():
        if t != post and nf(t) == base:
            bad.append("normal form identifies `%s`" % k)
    if sum(1 for t in differ.values() if t != post) < 4:
        bad.append("fewer than 4 behavioural variants could be produced")
    return bad


def generated_names(pre_text, post_text):
    """Names declared in the desugared definition but not in the parsed one."""
    dn = lambda t: set(re.findall(r"\(decl @\S+ (?:\([^)]*\)|\S+) (\S+) ", t))
    return dn(post_text) - dn(pre_text)


def run(ctx, proofs):
    quick = ctx.tier == "quick"
    HARNESS_BIN = common.build_harness("desugar")
    MODEL_BIN = common.build_model("desugar")
    CLI = common.build_cli()
    rand = c18rand.programs(ctx.rng, 16000 if quick else 160000)
    # one random program in five is a PROJECT of two or three files (the callee templates move to an included file)
    rand = [(lab, (c18gen.split_program(src, i % 10 == 0) or src) if i % 5 == 0 else src, mode, feats, ports)
            for i, (lab, src, mode, feats, ports) in enumerate(rand)]
    rand_info = {lab: (mode, feats) for lab, _s, mode, feats, _p in rand}
    rand_ports = {lab: ports for lab, _s, _m, _f, ports in rand if ports}
    mat = c18gen.matrix()
    multi = [("multifile/" + lab, c18gen.split_program(src, k % 2 == 1)) for k, (lab, src) in enumerate(mat[::9] + c18rand.deep())]
    groups = [("corpus", corpus_programs()), ("matrix", mat), ("deep", c18rand.deep()), ("multifile", [x for x in multi if x[1]]),
              ("random_matrix", random_programs(ctx, 400 if quick else 4000)),
              ("random_grammar", [(lab, src) for lab, src, _m, _f, _p in rand])]
    programs = [p for _g, ps in groups for p in ps]

    disagreements, failing, spec_diff, wf_fail = [], [], [], []
    route_modes = {}
    ports_compared = 0
    spec_templates_compared = 0
    spec_diff_not_judged = 0
    files_hist = {}
    spec_cands, spec_seen = [], {}
    spec_every = {"matrix": 30 if quick else 6, "random_matrix": 10 if quick else 5, "random_grammar": 40 if quick else 60}
    stats = {"parse_error": 0, "templates_kept": 0, "templates_rejected": 0, "functions_kept": 0,
             "functions_rejected": 0, "host_kept_with_sugar_input": 0}
    rstats = {"valid kept": 0, "valid rejected": 0, "wild kept": 0, "wild rejected": 0, "parse_error": 0}
    rfeat = {}
    diff_kinds = {}
    kinds = {}
    rkinds = {}
    nontrivial = set()
    labels = []
    CH = 8000
    for lo in range(0, len(programs), CH):
        recs = evaluate(ctx, HARNESS_BIN, MODEL_BIN, programs[lo:lo + CH])
        for rec in recs:
            labels.append(rec["label"])
            f = judge(rec)
            if f:
                failing.append({"label": rec["label"], "input": rec["src"], "impl": f, "spec": "sugar-free output, functions with sugar rejected with an error, no panic"})
            if "parse" in rec:
                stats["parse_error"] += 1
                if rec["label"] in rand_info:
                    rstats["parse_error"] += 1
                continue
            d, m, s = rec["impl"], rec["model"], rec["spec"]
            for key in ("LIB", "PROG"):
                mode = d.get(key, "missing").split(" ")[0]
                route_modes[key + ":" + mode] = route_modes.get(key + ":" + mode, 0) + 1
            # (i-ports): the fixed prelude's templates (recognised by their text) or the drawn ones
            ports = rand_ports.get(rec["label"]) or (c18gen.PORTS if FIXED_CALLEES in rec["src"] else None)
            nfiles = len(c18gen.files_of(rec["src"]))
            files_hist[nfiles] = files_hist.get(nfiles, 0) + 1
            if ports and d["POST"] != "panic":
                pf, pn = port_order_failures(d, ports)
                ports_compared += pn
                if pf:
                    failing.append({"label": rec["label"], "input": rec["src"], "impl": pf[:3], "ports": ports,
                                    "spec": "inputs and outputs are recorded in declaration order"})
            if rec["roundtrip"] != d["PRE"]:
                disagreements.append({"label": rec["label"], "what": "AST wire round trip", "impl": d["PRE"][:300], "model": rec["roundtrip"][:300]})
            w = wf_violations(d["PRE"], len(c18gen.files_of(rec["src"])))
            if w:
                wf_fail.append({"label": rec["label"], "input": rec["src"], "what": "; ".join(w)})
            if d["POST"] != "panic" and m.get("IO") != d.get("IO"):
                diff_kinds["recorded ports"] = diff_kinds.get("recorded ports", 0) + 1
                disagreements.append({"label": rec["label"], "input": rec["src"], "what": "recorded ports (env_of vs TemplateData::new)",
                                      "impl": (d.get("IO") or "")[-400:], "model": (m.get("IO") or "")[-400:]})
            if d["POST"] != m.get("POST") or (d["REP"] != m.get("REP") and d["POST"] != "panic"):
                kind = classify(d, m)
                diff_kinds[kind.split(":")[0]] = diff_kinds.get(kind.split(":")[0], 0) + 1
                disagreements.append({"label": rec["label"], "input": rec["src"], "what": "desugared AST / reports: " + kind,
                                      "impl": (d["POST"] + " " + d["REP"])[-600:], "model": (m.get("POST", "") + " " + m.get("REP", ""))[-600:]})
            # (i') the specification agrees with the implementation on every accepted host definition
            pre_defs = {n: t for k, n, t in split_defs(d["PRE"])}
            post_defs = {n: t for k, n, t in split_defs(d["POST"])} if d["POST"] != "panic" else {}
            spec_defs = {n: t for k, n, t in split_defs(s.get("POST", ""))}
            for n in ("T", "g"):
                if n in pre_defs:
                    sug = bool(has_sugar(pre_defs[n]))
                    kept = n in post_defs
                    stats[("templates" if n == "T" else "functions") + ("_kept" if kept else "_rejected")] += 1
                    if kept and sug:
                        stats["host_kept_with_sugar_input"] += 1
                        if n == "T" and spec_defs.get("T") and c18gen.FILE_MARK not in rec["src"]:
                            g = group_of(rec["label"])
                            spec_seen[g] = spec_seen.get(g, 0) + 1
                            if g in ("deep", "corpus") or spec_seen[g] % spec_every.get(g, 50) == 1:
                                spec_cands.append((rec["label"], rec["src"], spec_defs["T"]))
                    if rec["label"] in rand_info:
                        mode, feats = rand_info[rec["label"]]
                        rstats[mode + (" kept" if kept else " rejected")] += 1
                        for ft in feats:
                            c = rfeat.setdefault(ft, [0, 0])
                            c[0 if kept else 1] += 1
            # every TEMPLATE of the program (the callees are desugared like the host), not only `T`
            for k, n, _t in split_defs(d["PRE"]):
                if k != "T" or d["POST"] == "panic":
                    continue
                kept = n in post_defs
                spec_templates_compared += 1
                full = len(spec_diff) < 400       # the texts are kept for the first 400 differences only (memory)
                if not full and ((kept and spec_defs.get(n) != post_defs[n]) or (not kept and n in spec_defs)):
                    spec_diff_not_judged += 1
                    continue
                if kept and spec_defs.get(n) != post_defs[n]:
                    spec_diff.append({"label": rec["label"], "input": rec["src"], "template": n, "pre": pre_defs[n],
                                      "impl_full": post_defs[n], "spec_full": spec_defs.get(n),
                                      "impl": post_defs[n][-500:], "spec": (spec_defs.get(n) or "rejected")[-500:]})
                if not kept and n in spec_defs:
                    spec_diff.append({"label": rec["label"], "input": rec["src"], "template": n, "pre": pre_defs[n],
                                      "impl_full": None, "spec_full": spec_defs[n],
                                      "impl": "rejected: " + d["REP"][-300:], "spec": spec_defs[n][-500:]})
            for t in rep_msgs(d["REP"]):
                kinds[t] = kinds.get(t, 0) + 1
                if rec["label"] in rand_info:
                    rkinds[t] = rkinds.get(t, 0) + 1
            nontrivial.add(hashlib.md5(repr((d["POST"] != "panic" and "T" in post_defs,
                                             re.sub(r"@\d+:\d+:\d+|_\d+_\d+", "", post_defs.get("T", d["REP"]))[:4000])).encode()).digest())
        del recs

    # A difference between the specified expansion and the implementation's output.  What is compared: the two
    # definitions as trees.  Why that is the property: expand_spec IS the property's second sentence written out (the
    # element-wise assignments in order skipping `_`; the component declared, initialised, its inputs assigned in
    # declaration order or by name, its outputs read in declaration order).  But the trees also fix things the
    # property does not talk about (metas of generated statements, the wrapper blocks, the `is_constant` flag, the
    # spelling of generated names).  So each difference is judged a second time on the BEHAVIOURAL normal form
    # (behaviour_nf): only a difference that survives it - another assignment, another order, another operator,
    # port, destination or value, a decision accepted/rejected - is a failing input of the property; a difference in
    # shape only is reported as "expand_spec no longer matches the implementation's shape" without claiming a wrong
    # desugaring (no-failing-input-found).
    shape_only = []
    for d0 in spec_diff:
        same_behaviour = False
        if d0["impl_full"] and d0["spec_full"]:
            try:
                gi = generated_names(d0["pre"], d0["impl_full"])
                gs = generated_names(d0["pre"], d0["spec_full"])
                same_behaviour = behaviour_nf(d0["impl_full"], gi) == behaviour_nf(d0["spec_full"], gs)
            except Exception as e:      # a shape the normal form cannot read is not "the same behaviour"
                d0["nf_error"] = repr(e)
        if same_behaviour:
            shape_only.append(d0)
        else:
            failing.append({"label": d0["label"], "input": d0["input"],
                            "impl": "template `%s`: the desugared template differs from expand_spec beyond shape (behavioural normal form): %s"
                                    % (d0["template"], d0["impl"]), "spec": d0["spec"]})

    # (i-wiring) which expression reaches which port
    wprogs = c18rand.wiring_programs(ctx.rng, 1200 if quick else 12000)
    wfails, wiring_compared = wiring_oracle(ctx, HARNESS_BIN, wprogs)
    for f in wfails:
        failing.append(f)

    # (i-parser) the parser's share
    ppairs = c18rand.parser_pairs(ctx.rng, 1500 if quick else 15000)
    pfails, parser_compared, parser_unusable, parser_shape = parser_oracle(ctx, HARNESS_BIN, ppairs)
    parser_kinds = {}
    for pp in ppairs:
        parser_kinds[pp["kind"]] = parser_kinds.get(pp["kind"], 0) + 1
    for f in pfails:
        failing.append(f)

    # (ii) end to end.  Two families of pairs: the hand lists (E2E_POS x E2E_CALLS, E2E_TUPLES: expansions written by
    # hand, with the component called `cx` and, in loops, indexed by the loop variable) and pairs PRINTED FROM THE
    # SPECIFICATION: the expand_spec output for the host template of an explored program, pretty-printed to Circom
    # (c18print) and put in the place of the sugared template; half of them with a main component (Program mode of the
    # front end), half without (Library mode).
    pairs = e2e_pairs()
    spec_pairs, spec_unprintable = spec_e2e_pairs(spec_cands, HARNESS_BIN)
    n_hand = len(pairs)
    pairs = pairs + spec_pairs
    e2e = run_e2e(ctx, CLI, pairs)
    e2e_fail = []
    e2e_located = 0
    e2e_spec_findings = 0
    fresh_fail = []
    for lab, s, e, fs, fe, ts, te in e2e:
        # the renaming behind a pair sends the generated component name to `cx`: it must be a name the sugared program
        # does not use (hypothesis fixes_names / inj_on of the renaming theorems, for this f)
        spec_pair = lab.startswith("e2e/spec/")
        if not spec_pair and re.search(r"\bcx\b", s):
            fresh_fail.append({"label": lab, "input": s, "what": "the hand expansion's component name `cx` occurs in the sugared program"})
        if fs is None or fe is None:
            failing.append({"label": lab, "input": s if fs is None else e, "impl": "the CLI panics or crashes: " + (ts if fs is None else te)[-400:],
                            "spec": "no panic"})
        else:
            e2e_located += sum(1 for x in fs if not x.endswith("@line -"))
            if spec_pair:
                # the printed expansion is laid out differently: compared modulo positions (severity, code, message)
                fs, fe = (sorted(re.sub(r" @line \S+$", "", x) for x in y) for y in (fs, fe))
                e2e_spec_findings += len(fs)
            if fs != fe:
                e2e_fail.append({"label": lab, "input": s, "expansion": e, "impl": fs, "spec": fe, "e2e_pair": True,
                                 "modulo_positions": spec_pair,
                                 "difference": "findings only the sugared program has: %s; findings only its expansion has: %s"
                                               % (multiset_diff(fs, fe) or "none", multiset_diff(fe, fs) or "none")})
    for f in e2e_fail:
        failing.append(f)

    # known findings: replay witnesses (the witness must still show exactly the recorded signature)
    for k in ctx.known:
        w = k.get("witness", {})
        if "sugared" in w:
            r = run_e2e(ctx, CLI, [(k["id"], w["sugared"], w["expanded"])])[0]
            if r[3] != r[4]:
                wrec = {"label": "known/" + k["id"], "input": w["sugared"], "expansion": w["expanded"], "impl": r[3], "spec": r[4],
                        "e2e_pair": True}
                if r[3] is None or r[4] is None:
                    wrec["impl"] = "the CLI panics or crashes: " + (r[5] if r[3] is None else r[6])[-400:]
                hit = known_signature([k], wrec)
                if hit:
                    ctx.known_finding(k["id"], k["what"])
                else:
                    failing.append(wrec)

    # a failure is a known finding only by its SIGNATURE (known_signature), never by the input text alone
    known_by_id = {}
    real_fail = []
    for f in failing:
        k = known_signature(ctx.known, f)
        if k:
            known_by_id[k["id"]] = known_by_id.get(k["id"], 0) + 1
            ctx.known_finding(k["id"], k["what"])
        else:
            real_fail.append(f)
    class_only = {}      # failures on inputs of a known finding's input class that are NOT that finding: violations (counted)
    for f in real_fail:
        for k in ctx.known:
            if k.get("class_regex") and re.search(k["class_regex"], f.get("input", "")):
                class_only[k["id"]] = class_only.get(k["id"], 0) + 1
    # what must have been exercised for the run to mean anything (each is counted in the evidence)
    vacuous = []
    if not files_hist.get(2) or not files_hist.get(3):
        vacuous.append("no project of two / of three files was explored (%s)" % files_hist)
    for key in ("LIB:library", "PROG:program", "PROG:program-anon"):
        if not route_modes.get(key):
            vacuous.append("no program went through parse_files in mode %s (%s)" % (key, route_modes))
    if not ports_compared:
        vacuous.append("no callee template's recorded ports were compared with the declared order")
    for ft in REQUIRED_FEATURES:
        if not rfeat.get(ft, [0, 0])[0]:
            vacuous.append("no ACCEPTED random program has the feature `%s`" % ft)
    if wiring_compared < 0.95 * len(wprogs):
        vacuous.append("only %d of %d wiring programs were compared" % (wiring_compared, len(wprogs)))
    if parser_compared < 0.9 * len(ppairs):
        vacuous.append("only %d of %d parser pairs were comparable (first unusable: %s)"
                       % (parser_compared, len(ppairs), parser_unusable[:1]))
    for kd in ("rev", "decltuple", "decllist", "named"):
        if not parser_kinds.get(kd):
            vacuous.append("no parser pair of kind " + kd)
    if len(spec_pairs) < 0.9 * len(spec_cands) or len(spec_pairs) < 50:
        vacuous.append("only %d of %d expand_spec outputs could be printed, parsed back and compared end to end (first dropped: %s)"
                       % (len(spec_pairs), len(spec_cands), spec_unprintable[:2]))
    vacuous += ["behaviour_nf self-test: " + x for x in nf_self_test(HARNESS_BIN)]
    if gen_name_regex("template A1() {}").sub(erase_generated, "`x_1_2` `A1_6_143` `anon_var_3_4` `cx` `A1_6_143x`") != "`x_1_2` `<c>` `<k>` `<c>` `A1_6_143x`":
        vacuous.append("gen_name_regex self-test fails")
    if spec_templates_compared < len(programs):
        vacuous.append("expand_spec was compared on %d templates only" % spec_templates_compared)
    # report failures of DIFFERENT kinds first (at most 2 per kind, 8 in all): a frequent kind must not hide a rare one
    def text_of(f):
        return f.get("difference") or ("; ".join(f["impl"]) if isinstance(f["impl"], list) else str(f["impl"]))

    def kind_of(f):
        if f.get("parser_pair"):
            return "parser_pairs|" + f["parser_pair"]["kind"]
        t = text_of(f)
        return ("e2e" if f.get("e2e_pair") else "desugar") + "|" + re.sub(r"`[^`]*`|\d+|\[[^\]]*\]", "#", t)[:90]
    per_kind, chosen = {}, []
    for f in real_fail:
        k = kind_of(f)
        per_kind[k] = per_kind.get(k, 0) + 1
        if per_kind[k] <= 2 and len(chosen) < 8:
            chosen.append(f)
    for f in chosen:
        ctx.violation("desugaring: %s: %s" % (f["label"], text_of(f)[:600]),
                      {"input": f["input"], "impl": f["impl"], "spec": f.get("spec"), "expansion": f.get("expansion"),
                       "ports": f.get("ports"), "parser_pair": f.get("parser_pair"), "wiring": f.get("wiring"), "modulo_positions": f.get("modulo_positions"),
                       "difference": f.get("difference")})
    if not real_fail:
        if disagreements:
            d0 = disagreements[0]
            ctx.violation("correspondence Model.Desugar vs syntax_sugar_remover.rs broken (%d programs, first: %s); the property held on every explored input"
                          % (len(disagreements), d0["label"]), {"broken": "correspondence desugar (Model.Desugar)", "first": d0, "count": len(disagreements)}, no_input=True)
        elif wf_fail:
            d0 = wf_fail[0]
            ctx.violation("the parser's output violates a hypothesis of C18_desugar_never_panics (%d programs, first: %s: %s)"
                          % (len(wf_fail), d0["label"], d0["what"]), {"broken": "hypothesis wf_template of C18_desugar_never_panics", "first": d0}, no_input=True)
        elif shape_only:
            d0 = shape_only[0]
            ctx.violation("Spec.ExpandSpec.expand_spec no longer has the shape of the desugarer's output (%d templates, first: %s `%s`); "
                          "on all of them the behavioural normal forms agree: no wrong desugaring found"
                          % (len(shape_only), d0["label"], d0["template"]),
                          {"broken": "expand_spec vs implementation (shape only: metas / wrapper blocks / is_constant / generated names)",
                           "first": {k: d0[k] for k in ("label", "input", "template", "impl", "spec")}, "count": len(shape_only)}, no_input=True)
        elif parser_shape:
            d0 = parser_shape[0]
            ctx.violation("the parser's AST for a sugared spelling no longer has the expected SHAPE (%d pairs, first: %s); the behavioural "
                          "normal forms agree on all of them: no wrong parse found" % (len(parser_shape), d0["label"]),
                          {"broken": "shape of the parser-side builders (is_constant / initialisation-block grouping / wrapper blocks)",
                           "first": d0, "count": len(parser_shape)}, no_input=True)
        elif vacuous:
            ctx.violation("C18 check is vacuous in part: " + "; ".join(vacuous)[:600], {"broken": "generator / oracle coverage of lib/props/C18.py",
                                                                                      "what": vacuous}, no_input=True)
        elif fresh_fail:
            d0 = fresh_fail[0]
            ctx.violation("end-to-end pairs: %s (%d pairs, first: %s)" % (d0["what"], len(fresh_fail), d0["label"]),
                          {"broken": "hypothesis of C18_desugar_is_expand_up_to_alpha for the renaming of the end-to-end pairs "
                                     "(generated component name -> cx): cx must be fresh", "first": d0}, no_input=True)
        elif proofs["failures"]:
            ctx.violation("proof obligations of C18 no longer check: " + "; ".join(proofs["failures"])[:500],
                          {"broken": "props/C18.v", "failures": proofs["failures"]}, no_input=True)
        elif e2e_located < len(e2e):
            ctx.violation("end-to-end pairs: only %d findings with a location were compared on %d pairs: the line comparison is vacuous"
                          % (e2e_located, len(e2e)), {"broken": "location parsing of lib/props/C18.py findings()"}, no_input=True)
    ctx.coverage.update({
        "evaluations": len(programs) + 2 * len(e2e) + 2 * len(ppairs) + len(wprogs),
        "distinct_nontrivial": len(nontrivial),
        "rule": "a program is distinct-nontrivial per distinct desugared body of the host template (positions and generated-name suffixes "
                "erased) or, when it is rejected, per distinct report set",
        "exhaustive": False,
        "exhaustive_part": "matrix: %d sugar forms x %d positions x {template, function} + %d sugar-free controls x 2 + %d two-statement bodies"
                           % (len(c18gen.FORMS), len(c18gen.POSITIONS), len(c18gen.CONTROLS), 12),
        "programs": {g: len(ps) for g, ps in groups},
        "random_grammar": {
            "what": "lib/props/c18rand.py: bodies of 1-4 statements drawn from the grammar; mode `valid` puts sugar where Circom allows it "
                    "(tuples nested to depth 4 on either side, anonymous components with 0-3 outputs in tuples in tuples, named inputs "
                    "permuted with every operator), mode `wild` puts it anywhere (conditions, read indices, call/log/assert/return "
                    "arguments, declarations, loop headers)",
            "decisions": rstats,
            "features_kept_rejected": {k: v for k, v in sorted(rfeat.items())},
            "report_messages_seen": len(rkinds),
        },
        "disagreement_kinds": diff_kinds,
        "disagreements_by_group": by_group(disagreements),
        "property_failures_by_group": by_group(failing),
        "input_distribution": stats,
        "report_messages_seen": len(kinds),
        "report_message_histogram": dict(sorted(kinds.items(), key=lambda x: -x[1])[:45]),
        "e2e_pairs": len(e2e), "e2e_differences": len(e2e_fail),
        "e2e_pairs_written_by_hand": n_hand,
        "e2e_pairs_printed_from_expand_spec": {"pairs": len(spec_pairs), "candidates": len(spec_cands), "unprintable": len(spec_unprintable),
                                               "first_unprintable": [list(x) for x in spec_unprintable[:3]],
                                               "findings_compared_modulo_positions": e2e_spec_findings,
                                               "with_main_component": sum(1 for p in spec_pairs if "component main" in p[1])},
        "e2e_findings_compared_with_their_line": e2e_located,
        "e2e_pairs_whose_expansion_name_is_fresh": len(e2e) - len(fresh_fail),
        "known_findings_matched_by_signature": known_by_id,
        "failures_in_a_known_input_class_without_its_signature": class_only,
        "disagreements_model_vs_impl": len(disagreements),
        "spec_vs_impl_differences": len(spec_diff) + spec_diff_not_judged,
        "spec_vs_impl_differences_in_shape_only": len(shape_only),
        "spec_vs_impl_differences_not_judged_beyond_the_first_400": spec_diff_not_judged,
        "spec_templates_compared": spec_templates_compared,
        "parse_files_routes": route_modes,
        "programs_by_number_of_files": {str(k): v for k, v in sorted(files_hist.items())},
        "callee_port_lists_compared_with_declared_order": ports_compared,
        "wiring_programs": {"drawn": len(wprogs), "compared": wiring_compared, "failures": len(wfails)},
        "parser_pairs": {"drawn": len(ppairs), "compared": parser_compared, "by_kind": parser_kinds,
                         "failures": len(pfails), "shape_only_differences": len(parser_shape), "unusable": len(parser_unusable), "first_unusable": parser_unusable[:2]},
        "vacuity_checks": vacuous or "all met",
        "wf_hypothesis_failures": len(wf_fail),
        "property_failures": len(failing),
        "property_failure_kinds": dict(sorted(per_kind.items(), key=lambda x: -x[1])[:12]),
        "samples": [disagreements[0]] if disagreements else [labels[len(labels) // 3], labels[len(labels) // 2], labels[-1], e2e[0][0], e2e[len(e2e) // 2][0]],
        "open_statements": OPEN,
    })
    ctx.assumptions += [
        "HashMap iteration order of templates/functions is not modelled: the mirror processes association lists and results are compared as "
        "name-sorted definitions and sorted report lists (each definition is desugared independently of the others)",
        "the parser is outside the mirror: the model is fed the AST the real parser produced (printed by the harness before desugaring); "
        "the parser's share of the sugar (the `==>` / `-->` swap, declarations of several symbols with one initialiser each or a tuple "
        "initialiser, named inputs) is OBSERVED by oracle (i-parser) on %d seeded statement pairs (sugared spelling vs plain spelling, "
        "ASTs compared with metas erased), not modelled and not proved" % len(ppairs),
        "parse_files itself (file stack, ProgramArchive::new / TemplateLibrary::new, the assignment of the desugarer's results) is not "
        "modelled: oracle (i) is evaluated on what the real parse_files hands on for every explored program, in Library mode and with a "
        "main component appended in Program mode, and the definitions are compared with the hook's result",
        "the recorded port order (template_data.rs fill_inputs_and_outputs) is mirrored (fill_io), proved equal to the textual order "
        "(C18_recorded_ports_are_declaration_order) and compared per program with the order in which the GENERATOR wrote the port "
        "declarations (several symbols per declaration, tuple declarations, arrays, tags, initialised ports, ports under if / else / "
        "loops / blocks, outputs first, shuffled, custom and parallel templates)",
        "a difference between expand_spec and the implementation's output is a failing input only if it survives the behavioural normal "
        "form (metas, is_constant, empty and wrapper blocks, spelling of generated names erased); a difference in shape only is reported "
        "without an input as 'expand_spec no longer has the shape of the output'",
        "codespan's line index is modelled as 'number of line starts <= offset'; line starts are computed from the source text by the driver",
        "end-to-end equality of findings (oracle ii) is observed on %d sugared/expanded pairs, not proved: %d pairs with a hand-written "
        "expansion (all with a main component; compared per finding: severity, code, message with generated names erased, LINE of the "
        "primary location; columns and further labels are not compared: the two statements are different texts on that line) and %d "
        "pairs whose expansion is the expand_spec output of the host template pretty-printed to Circom (lib/props/c18print.py; half with, "
        "half without a main component; compared modulo positions: severity, code, message)" % (len(e2e), n_hand, len(spec_pairs)),
        "generated names are erased from messages only when they are `<id>_<line>_<offset>` for a template id the program defines, "
        "`anon_var_<line>_<offset>` or `cx`; any other name of that shape is compared verbatim",
        "a failure counts as a known finding only if it is an end-to-end pair whose sugared source is in the finding's input class AND whose "
        "only difference is the recorded extra finding (KNOWN_SIGNATURES); every other failure on an input of that class is a violation",
        "since /repo f58b98e the three renaming theorems also assume that f identifies no other name with a loop counter "
        "(forall m k x, counter_name m = Some k -> f x = f k -> x = k): for the f of the hand pairs (generated component -> cx / cy, "
        "everything else fixed) it holds because a counter is `anon_var_<l>_<o>` and is fixed by f, and `cx` / `cy` are no counters",
        "C18_expand_spec_alpha_renaming / C18_desugar_is_expand_up_to_alpha quantify over every renaming f; their hypotheses fixes_names / "
        "inj_on are about f, not about the program, so there is nothing to evaluate per explored program except for the one f the end-to-end "
        "pairs use (generated component name -> `cx`): `cx` is checked to be absent from every sugared program; the hand expansions in loops "
        "index the component array with the loop's own variable instead of a generated counter and are therefore NOT instances of these "
        "theorems (they are compared by findings only)",
        "the hypotheses of the panic-freedom and faithfulness theorems (wf_template: metas with a known file id, log strings <= 230 bytes, "
        "one name per named input, block bodies) are checked on the real parser's output of every explored program, not proved about the parser",
    ]


# What the property text says and NO theorem covers (fourth audit: "nothing is left open" was wrong).  Not obligations.
OPEN = [
    "findings equal those of the hand-written expansion: forall accepted programs p, findings(p) = findings(expansion p) up to generated "
    "names - there is no model of the analysis passes here; observed on the end-to-end pairs only (two known findings and, until "
    "decided, the nested-loop counter deviate)",
    "the parser's share of the sugar (`==>` / `-->`, declarations of several symbols, named inputs): the AST of the sugared spelling is "
    "the rearranged AST of the plain spelling - no Gallina model of the parser; observed on the parser pairs",
    "for an INVALID use, which message is reported and at which node: C18_desugar_errors_exact / _accepts_iff say 'an error exactly on "
    "the invalid uses', proofs/DesugarErrLoc.v says 'at a meta of the body'; the message class and the position are specified nowhere "
    "independently (mirror vs implementation only), and the category `error` is observed per report, not modelled",
    "recorded port DIMENSIONS: C18_recorded_ports_are_declaration_order is about names (`map fst`); dimensions are compared by oracle "
    "(i-ports) only",
]

# features of the callee templates and of the bodies that the random generator must have produced in ACCEPTED
# programs (a run in which one of them never occurs is reported as vacuous)
REQUIRED_FEATURES = ["callee_multi_symbol", "callee_outputs_first", "callee_shuffled", "callee_array_port", "callee_tag",
                     "callee_tuple_decl", "callee_init_port", "callee_port_in_if", "callee_port_in_if_else",
                     "callee_port_in_loop", "callee_port_in_block", "callee_port_nested", "callee_custom", "callee_parallel",
                     "named", "named_perm", "nested_tuple", "stmt_depth3", "stmt_depth4", "anon0", "anon1", "anon2", "anon3"]


def replay(ctx, rep):
    HARNESS_BIN = common.build_harness("desugar")
    MODEL_BIN = common.build_model("desugar")
    src = rep.get("input")
    if not src:
        print("replay names a broken obligation, not an input:", rep.get("broken"))
        return 1
    if rep.get("expansion"):
        CLI = common.build_cli()
        r = run_e2e(ctx, CLI, [("replay", src, rep["expansion"])])[0]
        a, b = r[3], r[4]
        if rep.get("modulo_positions") and a is not None and b is not None:
            a, b = (sorted(re.sub(r" @line \S+$", "", x) for x in y) for y in (a, b))
        print("findings of the sugared program :", a)
        print("findings of the expansion       :", b)
        return 0 if a == b and a is not None else 1
    if rep.get("wiring"):
        wf, _n = wiring_oracle(ctx, HARNESS_BIN, [rep["wiring"]])
        for x in wf:
            print("desugared:", x["impl"])
            print("stated   :", x["spec"])
        print("oracle (i-wiring):", "fails" if wf else "holds")
        return 1 if wf else 0
    if rep.get("parser_pair"):
        pf, n, un, _shape = parser_oracle(ctx, HARNESS_BIN, [rep["parser_pair"]])
        for x in pf:
            print("parser   :", x["impl"])
            print("expected :", x["spec"])
        print("oracle (i-parser):", "fails" if pf else ("not comparable: %s" % un if un else "holds"))
        return 1 if pf or un else 0
    recs = evaluate(ctx, HARNESS_BIN, MODEL_BIN, [("replay", src)])
    f = judge(recs[0])
    if "impl" in recs[0] and recs[0]["impl"]["POST"] != "panic":
        d = recs[0]["impl"]
        ports = rep.get("ports") or (c18gen.PORTS if FIXED_CALLEES in src else None)
        if ports:
            f += port_order_failures(d, {k: (list(map(tuple, v[0])), list(map(tuple, v[1]))) for k, v in ports.items()})[0]
        pre = {n: t for k, n, t in split_defs(d["PRE"])}
        post = {n: t for k, n, t in split_defs(d["POST"]) if k == "T"}
        spec = {n: t for k, n, t in split_defs(recs[0]["spec"].get("POST", ""))}
        for n in sorted(set(post) | set(spec)):
            if post.get(n) != spec.get(n):
                if n in post and n in spec:
                    same = behaviour_nf(post[n], generated_names(pre[n], post[n])) == behaviour_nf(spec[n], generated_names(pre[n], spec[n]))
                    if same:
                        print("template `%s`: expand_spec differs in shape only (same behavioural normal form)" % n)
                        continue
                f.append("template `%s`: implementation %s, expand_spec %s" % (
                    n, "accepts" if n in post else "rejects", "gives a different expansion" if n in post and n in spec
                    else ("accepts" if n in spec else "rejects")))
    print("implementation:", (recs[0].get("impl") or {}).get("POST", recs[0].get("parse"))[-800:])
    print("reports       :", (recs[0].get("impl") or {}).get("REP"))
    print("pipeline      :", (recs[0].get("impl") or {}).get("PIPE"))
    print("parse_files   :", (recs[0].get("impl") or {}).get("LIB", "")[:40], "|", (recs[0].get("impl") or {}).get("PROG", "")[:40])
    print("oracle        :", f or "holds")
    return 1 if f else 0
