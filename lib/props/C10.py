"""C10 — names resolve by lexical scope, and every shadowing declaration is
reported.

Engine `uniq`: for every generated definition four parties are compared
  * the real code: parser -> `ensure_unique_variables` (verification hook) ->
    CFG lifting -> `into_ssa` (harness/src/bin/uniq.rs),
  * the extracted Gallina mirror Model.UniqueVars (renamed occurrences,
    reports, lifted (name, suffix) pairs),
  * the extracted resolver of Spec.ScopeSpec,
  * the ORACLE: the lexical scope resolver of lib/props/c10gen.py, which works
    on the source-level AST of the generator and knows nothing of renaming.
Correspondence = mirror vs real code (and generator projection vs parser,
Coq resolver vs Python resolver). Property = oracle vs real code:
  - an occurrence keeps its base name, and two occurrences carry the same
    (name, suffix) iff they denote the same declaration (before and after
    lifting);
  - the reports are exactly the oracle's shadowing set (primary and secondary
    range), a repeated parameter is reported and nothing else is;
  - the `Declarations` table of the CFG answers, for every occurrence, with the
    location and type of the declaration the oracle resolves it to;
  - after `into_ssa` every versioned read has a definition of the same
    (name, suffix, version) (D20 regression), no version is assigned twice,
    the versions of one (name, suffix) are 0..k (own counter), locals are
    versioned and signals / components are not, and SSA construction succeeds
    on programs whose variables are all initialised;
  - end to end: the binary displays exactly those CS0001 / CS0002 findings
    (stdout of `--verbose`, locations from the SARIF file), each naming the
    redeclared variable / repeated parameter in its message.
Domain of the comparison theorems (Spec.ScopeSpec.branch_closed): the extracted
predicate must hold on the projection of every parsed case, and programs with
a bare declaration as loop body / branch must be rejected by the parser.
The key of the SSA version maps (private `Environment::version_key`) is tied
behaviourally: `ssa_failures` demands an own version counter per (name, suffix)
on programs whose identifiers look like suffixed / versioned names (x_0, x0,
x_10, x10 ... next to up to 16 redeclarations of x). lib/props/c10key.py reads
the function from the text as a LINT outside the obligations.
"""
import json
import os
import re
import sys

import common

sys.path.insert(0, os.path.dirname(os.path.abspath(__file__)))
import c10gen as G  # noqa: E402
import c10key  # noqa: E402

CORPUS = os.path.join(common.VERIF, "corpus", "C10")
BATCH = 60000


def key_lint_of(mb):
    """LINT outside the obligations: Environment::version_key read from the text of
    ssa_impl.rs (c10key.py), decided by the extracted key_format_ok."""
    def decide(line):
        try:
            return common.run_lines(mb, ["keyfmt"], [line])[0].strip()
        except Exception as e:      # the lint must never take the check down
            return "error %r" % (e,)
    try:
        return c10key.lint(common.REPO, decide)
    except Exception as e:
        return {"verdict": "not understood", "reader": "lint crashed: %r" % (e,)}


def lint_cases():
    """The D20 pattern for the key format the lint read: `x` shadowed once, twice and
    twelve times next to variables literally called like the keys of x.0, x.1, x.10."""
    out = []
    looks = list(G.EXTRA_LOOKALIKES)
    if not looks:
        return out
    V = G.V
    k = [0]

    def num():
        k[0] += 1
        return ('n', k[0])
    for look in looks[:6]:
        body = [('decl', "var", [("x", [], num())]), ('decl', "var", [(look, [], num())])]
        inner = []
        for i in range(12):
            inner.append(('block', [('decl', "var", [("x", [], num())]), ('asg', look, [], ('op', V("x"), V(look)), "="),
                                    ('asg', "x", [], ('op', V("x"), V(look)), "=")]))
        body += inner + [('ret', ('op', V("x"), V(look)))]
        out.append({"d": ("function", "f", ["a"], body), "clean": True, "src": "lint " + look})
    return out


def transcription_check(mb, key_lint):
    """Executes the extracted Model.UniqueVars.ssa_key (driver mode `keys`) on a pool of
    (name, suffix) pairs and compares it with the format the lint read from the text,
    rendered in Python. Information only: `{}:{}` is a harmless rewrite that differs."""
    ps = key_lint.get("pieces")
    pool = [(nm, sf) for nm in ("x", "x_0", "x0", "$x", "y1") for sf in ("-", "0", "1", "10")]
    try:
        outs = common.run_lines(mb, ["keys"], ["%s %s" % p for p in pool])
    except Exception as e:
        return {"executed": False, "error": repr(e)}
    model = [o.split(" ")[1] if len(o.split(" ")) == 2 else "?" for o in outs]
    res = {"executed": True, "pairs": len(pool), "model_keys_sample": model[:4]}
    if ps:
        def rnd(pp, nm, sf):
            return "".join(nm if a == "name" else sf if a == "suffix" else bytes.fromhex(b or "").decode(errors="replace") for a, b in pp)
        text = [rnd(ps["none"], nm, "") if sf == "-" else rnd(ps["some"], nm, sf) for nm, sf in pool]
        res["equals_the_format_read_from_the_text"] = (text == model)
    return res


def identchar_probe(bins):
    """Which bytes may occur inside an identifier? For every byte b of 1..127 the
    function `function f() { var a<b>z = 1; return 0; }` is parsed by the real
    parser; b is an identifier byte iff the declared name is a<b>z. Compared with
    the extracted Model.UniqueVars.ident_char (the class the hypotheses ident_ok /
    nodot of the theorems are about)."""
    hb, mb = bins
    bs = list(range(1, 128))
    srcs = ["function f() { var a%sz = 1; return 0; }" % chr(b) for b in bs]
    impl = common.run_lines(hb, [], [t.encode().hex() for t in srcs])
    model = common.run_lines(mb, ["identchar"], [str(b) for b in bs])
    out = {"bytes": len(bs), "mismatches": [], "identifier_bytes": 0}
    for b, t, li, lm in zip(bs, srcs, impl, model):
        name = "a%sz" % chr(b)
        real = 1 if (" D v %s " % name) in li.split("|")[0] + " " else 0
        out["identifier_bytes"] += real
        if str(real) != lm.strip():
            out["mismatches"].append({"byte": b, "source": t, "impl": li[:200], "model": int(lm.strip()) if lm.strip().isdigit() else -1})
    return out


# --------------------------------------------------------------------------
# parsing of the engine lines
# --------------------------------------------------------------------------

def sections(line):
    secs = {}
    for s in line.split("|"):
        w = s.strip().split(" ")
        secs[w[0]] = [x for x in w[1:] if x != ""]
    return secs


def tolist(x):
    """JSON round trip of the generator AST (tuples become lists)."""
    return json.loads(json.dumps(x))


# --------------------------------------------------------------------------
# the property, checked on the output of the real code
# --------------------------------------------------------------------------

def decl_names(truth):
    """Name of every declaration, by declaration index."""
    return {dc: n for (k, n, dc) in truth["occ"] if k == "d"}


def canon_reports(tokens, expected):
    """CODE:primary:secondary:NAMES -> the 4th field becomes the expected name when it
    is one of the backquoted words of the message (the harness prints all of them:
    a reworded message with further quoted words still names the variable)."""
    out = []
    for i, t in enumerate(tokens or []):
        f = t.split(":")
        want = expected[i].split(":")[3] if i < len(expected) and expected[i].count(":") >= 3 else None
        if len(f) == 4 and want is not None and want in f[3].split(","):
            f[3] = want
        out.append(":".join(f))
    return out


def expected_reports(truth, dr, pr):
    """CS0001:primary:secondary:NAME -- the report names the redeclared variable."""
    exp = []
    names = decl_names(truth)
    for me, prev in truth["shadows"]:
        r = pr if isinstance(prev, tuple) else dr[prev]
        exp.append("CS0001:%d-%d:%d-%d:%s" % (tuple(dr[me]) + tuple(r) + (names[me],)))
    return exp


TYPE_LETTER = {"var": "L", "component": "C", "signal": "S", "signal input": "S", "signal output": "S"}


def expected_lookup(truth, dr, pr):
    """Per occurrence, what the table of declarations must answer: location and
    type of the declaration the oracle resolves the occurrence to (None: the
    name is not declared at that point, nothing is required)."""
    out = []
    for (k, n, dc) in truth["occ"]:
        if dc is None:
            out.append(None)
        elif isinstance(dc, (list, tuple)):
            out.append("%s@%d-%d:L" % ((k,) + tuple(pr)))
        else:
            out.append("%s@%d-%d:%s" % ((k,) + tuple(dr[dc]) + (TYPE_LETTER[truth["kw"][dc]],)))
    return out


POST_SSA = {"local_lookups": 0, "local_lookups_none": 0}


def ssa_failures(truth, dr, pr, secs, clean):
    """The SSA clauses, on the `ssa` section of a successful construction.
    (1) every versioned read has a definition of the same (name, suffix, version);
    (2) single assignment: no (name, suffix, version) is written twice;
    (3) own counter per declaration: the versions named for one (name, suffix)
        (parameter, write, phi target, array base) are 0..k without a gap -- two
        declarations that share a key of the version maps share a counter and
        leave gaps;
    (4) an occurrence the oracle resolves to a local variable / parameter carries
        a version, one it resolves to a signal or component carries none (the
        lookup of the declaration by (name, suffix) decides `is_local`);
    (5) the Declaration statement of a local variable lists exactly the versions
        named for it (0 alone if it is never assigned): `d=` tokens
        (update_declarations / get_version_range);
    (6) the table of declarations after into_ssa (`tab2`) has, at the location of
        the declaration, one row per listed version of a local, one row per
        version 0..k of a parameter at the parameter list, one unversioned row
        per signal / component;
    (7) after into_ssa `Cfg::get_declaration` answers for an occurrence of a signal
        or component with the declaration the oracle resolves it to (`dcl2`).
        For a LOCAL it answers nothing in the unchanged code (the table is keyed
        with versions, the lookup strips the version): observed and counted, no
        requirement."""
    errs = []
    s = secs["ssa"]
    params = [p for p in s[0].strip("[]").split(",") if p]
    defs = set(p + "/0" for p in params)
    named = {}
    for p in params:
        named.setdefault(p, set()).add(0)
    written = set(defs)
    for t in s[1:]:
        k, v = t.split("=", 1)
        if k in ("w", "p"):
            if not v.endswith("/-"):
                if v in written:
                    errs.append(("ssa", "a (name, suffix, version) is assigned twice", v))
                    break
                written.add(v)
            defs.add(v)
        if k in ("w", "p", "b") and not v.endswith("/-"):
            key, ver = v.rsplit("/", 1)
            named.setdefault(key, set()).add(int(ver))
    for t in s[1:]:
        k, v = t.split("=", 1)
        if k == "r" and not v.endswith("/-") and v not in defs:
            errs.append(("ssa", "read without a definition of the same (name, suffix, version)", v))
            break
    for key, vs in sorted(named.items()):
        if vs != set(range(len(vs))):
            errs.append(("ssa", "the versions of one declaration are not 0..k: it shares its version counter with another declaration",
                         key, sorted(vs)))
            break
    # (4): align writes / reads with the occurrences of the lifted CFG
    ir = secs.get("ir", [])
    if ir[:1] not in (["error"], ["panic"]) and len(ir) == len(truth["occ"]):
        want = [(g, o) for g, o in zip(ir, truth["occ"]) if o[0] != "d"]
        got = [t for t in s[1:] if t[:2] in ("w=", "r=")]
        if len(want) != len(got):
            errs.append(("ssa", "writes and reads after into_ssa do not match the occurrences before it", len(got), len(want)))
        else:
            for (g, (k, n, dc)), t in zip(want, got):
                nm, ver = t[2:].rsplit("/", 1)
                if nm != g.split("=", 1)[1]:
                    errs.append(("ssa", "into_ssa changed the (name, suffix) of an occurrence", g, t))
                    break
                if dc is None:
                    continue
                local = isinstance(dc, (list, tuple)) or truth["kw"][dc] == "var"
                if local and ver == "-":
                    errs.append(("ssa", "an occurrence of a local variable is left without a version (it is not looked up as the "
                                        "declaration it denotes)", t, n))
                    break
                if not local and ver != "-":
                    errs.append(("ssa", "an occurrence of a signal / component is versioned as if it were a local variable", t, n))
                    break
            # (7)
            dcl2 = secs.get("dcl2")
            if dcl2 is not None and len(dcl2) == len(want) and not errs:
                explook = [w for w, o in zip(expected_lookup(truth, dr, pr), truth["occ"]) if o[0] != "d"]
                for (g, (k, n, dc)), t, e in zip(want, dcl2, explook):
                    if dc is None:
                        continue
                    local = isinstance(dc, (list, tuple)) or truth["kw"][dc] == "var"
                    if local:
                        POST_SSA["local_lookups"] += 1
                        POST_SSA["local_lookups_none"] += t.endswith("-")
                    elif t[1:] != e[1:]:
                        errs.append(("dcl2", "after into_ssa an occurrence of %s is looked up as another declaration than the one it denotes" % n, t, e))
                        break
            elif dcl2 is not None and len(dcl2) != len(want):
                errs.append(("dcl2", "number of occurrences", len(dcl2), len(want)))
        # (5), (6): declared versions and the rows of the table after into_ssa
        declared = {}
        for t in s[1:]:
            if t.startswith("d="):
                key, ver = t[2:].rsplit("/", 1)
                declared.setdefault(key, []).append(ver)
        rows = {}
        for r in secs.get("tab2", []):
            m = re.match(r"^(.*)/([^/@]*)@(\d+-\d+):(\w)(!key)?$", r)
            if not m:
                errs.append(("tab2", "row not understood", r))
                break
            rows.setdefault(m.group(1), []).append((m.group(2), m.group(3), m.group(4), m.group(5)))
        if not errs:
            seen_keys = set()
            for g, (k, n, dc) in zip(ir, truth["occ"]):
                if k != "d":
                    continue
                key = g.split("=", 1)[1]
                seen_keys.add(key)
                local = truth["kw"][dc] == "var"
                loc = "%d-%d" % tuple(dr[dc])
                if local:
                    vs = named.get(key) or {0}
                    wantv = sorted(str(v) for v in vs)
                else:
                    wantv = ["-"]
                if sorted(declared.get(key, [])) != wantv:
                    errs.append(("ssa", "the declaration of %s lists other versions than the ones named for it" % key, sorted(declared.get(key, [])), wantv))
                    break
                wantrows = sorted((v, loc, TYPE_LETTER[truth["kw"][dc]], None) for v in wantv)
                if "tab2" in secs and sorted(rows.get(key, [])) != wantrows:
                    errs.append(("tab2", "the rows of %s after into_ssa are not one per version at its declaration" % key, sorted(rows.get(key, [])), wantrows))
                    break
            if not errs and "tab2" in secs:
                ploc = "%d-%d" % tuple(pr)
                for p in params:
                    wantrows = sorted((str(v), ploc, "L", None) for v in named.get(p, {0}))
                    if sorted(rows.get(p, [])) != wantrows:
                        errs.append(("tab2", "the rows of the parameter %s after into_ssa are not one per version" % p, sorted(rows.get(p, [])), wantrows))
                        break
                extra = set(rows) - seen_keys - set(params)
                if extra and not errs:
                    errs.append(("tab2", "rows for names that are neither parameters nor declarations", sorted(extra)[:3]))
    return errs


def oracle_check(d, truth, dr, pr, secs, clean, sugar):
    """-> list of failures (tuples) of the real code against the oracle."""
    errs = []
    occ = truth["occ"]
    if truth["dup_param"] is not None:
        want = ["CS0002:%d-%d:-:%s" % (tuple(pr) + (truth["dup_param"],))]
        if canon_reports(secs.get("perr"), want) != want:
            errs.append(("repeated parameter not reported by the pass", secs.get("perr"), secs.get("ren", [])[:3]))
        if secs.get("ir", [""])[:1] != ["error"] or not secs["ir"][1:2] or not secs["ir"][1].startswith("CS0002"):
            errs.append(("repeated parameter not reported by into_cfg", secs.get("ir", [])[:2]))
        return errs
    for sec, sep in (("ren", "."), ("ir", "/")):
        got = secs.get(sec)
        if got is None:
            errs.append((sec, "missing"))
            continue
        if got[:1] in (["error"], ["panic"]):
            if sec == "ir" and sugar:
                continue        # tuples / anonymous components are not liftable before desugaring
            errs.append((sec, "failed: " + " ".join(got[:3])))
            continue
        if len(got) != len(occ):
            errs.append((sec, "number of occurrences", len(got), len(occ)))
            continue
        name_of, decl_of = {}, {}
        for g, (k, n, dc) in zip(got, occ):
            gk, gn = g.split("=", 1)
            if gk != k:
                errs.append((sec, "occurrence kind", g, k))
                break
            if gn.split(sep, 1)[0] != n:
                errs.append((sec, "base name changed", g, n))
                break
            if dc is None:
                continue
            dc = tuple(dc) if isinstance(dc, (list, tuple)) else dc
            if name_of.setdefault(dc, gn) != gn:
                errs.append((sec, "occurrences of one declaration carry different names", str(dc), gn, name_of[dc]))
                break
            if decl_of.setdefault(gn, dc) != dc:
                errs.append((sec, "two declarations share a name", gn, str(dc), str(decl_of[gn])))
                break
    # the table of declarations: every occurrence is looked up as the declaration it denotes
    dcl = secs.get("dcl")
    if dcl is not None and dcl[:1] not in (["error"], ["panic"]):
        want = expected_lookup(truth, dr, pr)
        if len(dcl) != len(want):
            errs.append(("dcl", "number of occurrences", len(dcl), len(want)))
        else:
            for g, w, o in zip(dcl, want, occ):
                if w is not None and g != w:
                    errs.append(("dcl", "an occurrence of %s is looked up as another declaration (or type) than the one it denotes" % o[1], g, w))
                    break
        tab = secs.get("tab", [])
        nrows = len(set(d[2])) + truth["ndecl"]
        if len(tab) != nrows or any(r.endswith("!key") for r in tab):
            errs.append(("tab", "the table of declarations has not one row per parameter and declaration", len(tab), nrows))
    exp = expected_reports(truth, dr, pr)
    if canon_reports(secs.get("rep"), exp) != exp:
        errs.append(("shadowing reports differ from the redeclaring declarations", secs.get("rep"), exp))
    if "rep2" in secs and canon_reports(secs["rep2"], exp) != exp:
        errs.append(("shadowing reports of into_cfg differ from the redeclaring declarations", secs.get("rep2"), exp))
    s = secs.get("ssa")
    if s is not None:
        if s[:1] in (["error"], ["panic"]):
            if clean:
                errs.append(("ssa", "construction failed on a program whose variables are all initialised: " + " ".join(s[:2])))
        else:
            errs += ssa_failures(truth, dr, pr, secs, clean)
    elif clean:
        errs.append(("ssa", "missing"))
    return errs


def spec_expected(d, truth):
    """The oracle's resolution in the vocabulary of Spec.ScopeSpec: the index
    of the declaration among the declarations of its name, parameters first."""
    cnt = {}
    for p in d[2]:
        cnt[p] = cnt.get(p, 0) + 1
    idk = {}
    occ = []
    for (k, n, dc) in truth["occ"]:
        if k == "d":
            idk[dc] = cnt.get(n, 0)
            cnt[n] = cnt.get(n, 0) + 1
        if dc is None:
            r = "-"
        elif isinstance(dc, (tuple, list)):
            r = "0"
        else:
            r = str(idk[dc])
        occ.append("%s=%s#%s" % (k, n, r))
    return occ


# --------------------------------------------------------------------------
# case sources
# --------------------------------------------------------------------------

# Exhaustive families: `x` next to one lookalike of a suffixed `x`. `x_0` collides
# with a key / printed form `name_suffix` (D20), `x0` with one that puts nothing
# between name and suffix.
FAMILIES = ["x_0", "x0"]
SEPARATORS = ["_", "", "$", "__"]


def leaves_of(look, targets=False):
    return [(a, b) for a in ("DUT" if targets else "DU") for b in ("x", look)]


def params_of(look):
    return [[], ["x"], [look], ["x", look], ["y"], [look, "y", "x"]]


def exhaustive_cases(ctx, kmax, depth_of, fam_kmax, families=None):
    """Every scope forest with <= kmax leaves over {x, x_0}; the same over the
    other families up to fam_kmax leaves."""
    rng = ctx.rng
    for look in (families or FAMILIES):
        top = kmax if look == FAMILIES[0] else min(kmax, fam_kmax)
        for k in range(1, top + 1):
            # assignment targets (`x = 1`, `x += 1`, `x++`) are leaves of their own up to 3 leaves
            for f in G.forests(k, depth_of(k), leaves_of(look, targets=(k <= 3))):
                kind = "function" if rng.random() < 0.8 else "template"
                counter = [0]
                body = G.realise(f, rng, kind, counter)
                if kind == "function":
                    body.append(('ret', ('n', 0)))
                yield {"d": (kind, "f", list(rng.choice(params_of(look))), body), "clean": False,
                       "src": "forest k=%d %s" % (k, look)}


def random_cases(ctx, n):
    for i in range(n):
        clean = (i % 2 == 0)
        size = 3 + ctx.rng.randrange(24)
        deep = (i % 10 == 9)        # one in ten: more statements, nesting up to 9
        yield {"d": G.rand_def(ctx.rng, size + (30 if deep else 0), clean=clean, maxdepth=9 if deep else 4), "clean": clean, "src": "random"}


def deep_cases(ctx, n):
    for i in range(n):
        clean = (i % 3 != 0)
        yield {"d": G.deep_def(ctx.rng, clean=clean), "clean": clean, "src": "deep"}


def fixed_cases():
    """Deterministic cases, run through the engines AND end to end on every run:
    repeated parameters in a FUNCTION and in a template, five parameters of which
    two different names repeat (the error must name the FIRST repeated one),
    `else if`, several declarators in a `for` header, templates that instantiate
    an earlier and a later template of the same file (the callee is lifted lazily
    by the analysis of the caller; its own findings must still be displayed)."""
    V = G.V
    n = lambda k: ('n', k)     # noqa: E731
    shadow = ('block', [('decl', "var", [("x", [], n(7))]), ('asg', "x", [], ('op', V("x"), n(8)), "=")])
    out = [
        ("function", ["a", "b", "a"], [('decl', "var", [("x", [], V("a"))]), ('ret', V("x"))]),
        ("function", ["a", "b", "c", "b", "a"], [('ret', V("a"))]),
        ("template", ["p", "q", "r", "q", "p"], [('decl', "signal", [("x", [], None)])]),
        ("function", ["x", "y", "z", "w"],
         [('decl', "var", [("r", [], n(0))]),
          ('if', V("x"), ('asg', "r", [], n(1), "="),
           ('if', V("y"), ('block', [('decl', "var", [("x", [], n(2))]), ('asg', "r", [], V("x"), "=")]),
            ('if', V("z"), ('asg', "r", [], V("x"), "="), ('block', [('decl', "var", [("y", [], V("x"))]), ('asg', "r", [], V("y"), "=")])))),
          ('for', ('decl', "var", [("i", [], n(0)), ("j", [], V("i"))]), ('op', V("i"), n(3)), ('inc', "i", []),
           ('block', [('decl', "var", [("i", [], V("j"))]), ('asg', "r", [], ('op', V("i"), V("j")), "=")])),
          ('ret', ('op', V("r"), V("x")))]),
        ("template", ["x"], [('decl', "component", [("c", [], ('call', [V("x"), n(1)]))]), shadow,
                             ('decl', "component", [("d", [], ('par', ('call', [V("x"), n(2)])))])]),
        ("template", ["x"], [shadow, ('decl', "component", [("c", [], ('call', [V("x"), n(3)]))])]),
        ("template", ["x", "y"], [('decl', "var", [("y", [], V("x"))]), ('decl', "component", [("c", [], ('call', [V("y"), n(4)]))]), shadow]),
    ]
    return [{"d": (k, "f" if k == "function" else "T", ps, body), "clean": False, "src": "fixed"} for k, ps, body in out]


def corpus_cases():
    out = []
    if os.path.isdir(CORPUS):
        for f in sorted(os.listdir(CORPUS)):
            if f.endswith(".json"):
                for c in json.load(open(os.path.join(CORPUS, f))):
                    out.append({"d": c["def"], "clean": bool(c.get("clean")), "src": "corpus " + c.get("name", f)})
    return out


# --------------------------------------------------------------------------
# one batch through the four parties
# --------------------------------------------------------------------------

class Stats:
    def __init__(self):
        self.evaluations = 0
        self.shapes = set()
        self.disagreements = []
        self.failing = []
        self.hist = {"declarations": {}, "shadow_reports": {}, "source": {}, "ssa": {}, "kind": {}}
        self.collision_sensitive = {}
        self.param_collisions = 0
        self.samples = []
        self.unbraced = 0
        self.unbraced_rejected = 0
        self.hyp = {"branch_closed": 0, "ident_ok": 0}
        self.features = {}

    def bump(self, h, k):
        self.hist[h][k] = self.hist[h].get(k, 0) + 1


def depth_of_stmts(ss):
    m = 0
    for s in ss:
        k = s[0]
        if k == 'block':
            m = max(m, 1 + depth_of_stmts(s[1]))
        elif k == 'while':
            m = max(m, depth_of_stmts([s[2]]))
        elif k == 'for':
            m = max(m, 1 + depth_of_stmts([s[4]]))
        elif k == 'if':
            m = max(m, depth_of_stmts([s[2]] + ([s[3]] if s[3] is not None else [])))
    return m


def features(c):
    """What a case exercises (counted in the evidence: input distribution)."""
    t = c["text"]
    out = []
    if "parallel" in t:
        out.append("parallel")
    if re.search(r"else\s+if", t):
        out.append("else if")
    if re.search(r"for \(var [^;]*,", t):
        out.append("several declarators in a for header")
    if len(c["d"][2]) >= 4:
        out.append(">= 4 parameters")
    if len(c["d"][2]) - len(set(c["d"][2])) >= 2:
        out.append("two repeated parameter names")
    if re.search(r"(?:while|for|if) \([^\n]*\)\n\s*(?:if|while|log|assert)", t) or re.search(r"else\n\s*(?:while|log|assert)", t):
        out.append("unbraced body other than an assignment")
    if re.search(r"\w\.\w", t):
        out.append("component access")
    if re.search(r"\][\[.]", t):
        out.append(">= 2 accesses / dimensions")
    if c["truth"]["ndecl"] >= 12:
        out.append(">= 12 declarations")
    if depth_of_stmts(c["d"][3]) > 4:
        out.append("nesting > 4")
    return out


def prepare(c):
    d = c["d"]
    text, dr, pr = G.render(d)
    c["text"], c["dr"], c["pr"] = text, dr, pr
    c["P"] = G.projection(d, dr, pr)
    c["truth"] = G.resolve(d)
    c["sugar"] = G.has_sugar(d[3])
    return c


def run_batch(cases, bins, st):
    hb, mb = bins
    cases = [prepare(c) for c in cases]
    impl = common.run_lines(hb, [], [c["text"].encode().hex() for c in cases], shards=common.NPROC)
    mirror = common.run_lines(mb, ["mirror"], [c["P"] for c in cases], shards=common.NPROC)
    spec = common.run_lines(mb, ["spec"], [c["P"] for c in cases], shards=common.NPROC)
    if not (len(impl) == len(mirror) == len(spec) == len(cases)):
        raise common.BuildError("uniq engine outputs differ in length", "%d %d %d %d" % (len(impl), len(mirror), len(spec), len(cases)))
    for c, li, lm, ls in zip(cases, impl, mirror, spec):
        st.evaluations += 1
        real, model, sp = sections(li), sections(lm), sections(ls)
        d, truth = c["d"], c["truth"]
        # ---- correspondence ----
        dis = []
        if " ".join(real.get("proj", [])) != c["P"]:
            dis.append(("parser builds another projection than the generator expects", " ".join(real.get("proj", []))[:300], c["P"][:300]))
        for k in model:
            if k in ("ir", "tab", "dcl") and real.get("ir", [""])[:1] in (["error"], ["panic"]):
                if k == "ir" and not (c["sugar"] or truth["dup_param"] is not None):
                    dis.append(("ir: the real lifting failed", real.get("ir")[:3], model[k][:3]))
                continue
            got = canon_reports(real.get(k), model[k]) if k in ("rep", "perr") and real.get(k) is not None else real.get(k)
            if model[k] != got:
                dis.append((k + ": mirror differs from the implementation", real.get(k), model[k]))
        if sp.get("closed") != ["1"] and not c.get("unbraced"):
            dis.append(("a generated program is outside Spec.ScopeSpec.branch_closed (a loop body or branch declares a name outside a "
                        "block): the generator and the domain of C10_renaming_preserves_binding disagree", sp.get("closed"), c["P"][:300]))
        if sp.get("closed") == ["1"]:
            st.hyp["branch_closed"] += 1
        idn = sp.get("ident", ["0", "1"])
        if len(idn) == 2 and idn[0] == idn[1]:
            st.hyp["ident_ok"] += 1
        else:
            dis.append(("a name the parser produced is outside Model.UniqueVars.ident_ok (hypothesis of C10_ssa_keys_injective; it implies "
                        "nodot, the hypothesis of C10_renaming_injective_on_declarations)", idn, c["P"][:300]))
        if c.get("unbraced"):
            dis.append(("the parser accepts a declaration as the body of a loop or a branch: such programs are outside the domain "
                        "(branch_closed) of C10_renaming_preserves_binding / C10_shadowing_reports_exact", li[:200], c["text"][:300]))
        if truth["dup_param"] is None and sp.get("occ") != spec_expected(d, truth):
            dis.append(("Spec.ScopeSpec.resolve_def differs from the oracle", sp.get("occ"), spec_expected(d, truth)))
        if dis:
            st.disagreements.append({"source": c["text"], "def": tolist(d), "first": [str(x)[:400] for x in dis[0]], "count": len(dis)})
        # ---- property ----
        errs = oracle_check(d, truth, c["dr"], c["pr"], real, c["clean"], c["sugar"])
        if errs:
            st.failing.append({"source": c["text"], "def": tolist(d), "clean": c["clean"],
                               "failure": [str(x)[:300] for x in errs[0]], "impl": li[:1500]})
        # ---- statistics ----
        nd = truth["ndecl"]
        st.bump("declarations", min(nd, 9))
        st.bump("shadow_reports", min(len(truth["shadows"]), 6))
        st.bump("source", c["src"].split(" ")[0])
        st.bump("kind", d[0])
        for f in features(c):
            st.features[f] = st.features.get(f, 0) + 1
        s = real.get("ssa")
        st.bump("ssa", "absent" if s is None else (s[0] if s[:1] in (["error"], ["panic"]) else "ok"))
        if truth["dup_param"] is not None:
            st.param_collisions += 1
        ren = real.get("ren", [])
        if any(re.search(r"\.\d\d", t) for t in ren):
            st.features["two-digit suffix"] = st.features.get("two-digit suffix", 0) + 1
        if any("." in t for t in ren):
            st.shapes.add(re.sub(r" \d+ \d+ ", " ", c["P"]))
        lifted = set(t.split("=", 1)[1] for t in real.get("ir", []) if "=" in t)
        for sep in SEPARATORS:
            if any((sep.join(v.split("/"))) + "/-" in lifted for v in lifted if not v.endswith("/-")):
                st.collision_sensitive[sep] = st.collision_sensitive.get(sep, 0) + 1
        if len(st.samples) < 3 and len(truth["shadows"]) >= 2 and c["src"] == "random":
            st.samples.append({"source": c["text"], "impl": li[:600]})


def run_unbraced(cases, bins, st):
    """Programs with a bare declaration as loop body / branch. The parser must
    reject each of them (`noparse`); one that is accepted goes through the
    normal comparison, where the oracle judges the implementation's scoping."""
    hb, _ = bins
    for c in cases:
        c["unbraced"] = True
    texts = [G.render(c["d"])[0] for c in cases]
    impl = common.run_lines(hb, [], [t.encode().hex() for t in texts], shards=common.NPROC)
    if len(impl) != len(cases):
        raise common.BuildError("uniq engine outputs differ in length", "%d %d" % (len(impl), len(cases)))
    accepted = []
    for c, li in zip(cases, impl):
        st.unbraced += 1
        if li.strip() == "noparse":
            st.unbraced_rejected += 1
        else:
            accepted.append(c)
    if accepted:
        run_batch(accepted, bins, st)


# --------------------------------------------------------------------------
# end to end through the binary
# --------------------------------------------------------------------------

def linecol(text, off):
    before = text[:off]
    line = before.count("\n") + 1
    col = off - (before.rfind("\n") + 1) + 1
    return line, col


def name_shown(quoted, want):
    """The displayed name: `want` when it is one of the backquoted words of the message
    (a reworded message may quote further words), else what is quoted."""
    for w in want or []:
        if w in quoted:
            return w
    return "|".join(quoted) or "?"


def e2e(ctx, cli, cases, st_e2e):
    """Packs definitions into files, runs `circomspect --verbose --sarif-file`,
    compares the displayed CS0001 / CS0002 findings with the oracle."""
    per_file = 25
    failing = []
    wdir = os.path.join(ctx.work, "e2e")
    os.makedirs(wdir, exist_ok=True)
    jobs = []
    for fi in range(0, len(cases), per_file):
        chunk = cases[fi:fi + per_file]
        text = "pragma circom 2.0.0;\n"
        expected = []       # (rule, (sl, sc, el, ec), related|None)
        spans = []
        def nm(j):
            return "%s%d" % ("f" if chunk[j]["d"][0] == "function" else "T", j)
        for j, c in enumerate(chunk):
            d = c["d"]
            d = (d[0], nm(j), d[2], d[3])
            # calls / component instantiations name ANOTHER definition of the same kind in the
            # file (earlier or later): templates are then lifted lazily by the analysis of a caller
            same = [i for i in range(len(chunk)) if i != j and chunk[i]["d"][0] == d[0]]
            G.CALLEE[0] = nm(same[(j * 7 + 3) % len(same)]) if same else "g"
            try:
                t, dr, pr = G.render(d)
            finally:
                G.CALLEE[0] = "g"
            base = len(text.encode())
            spans.append((base, base + len(t.encode()), t, d))
            text += t
            truth = G.resolve(d)

            def reg(r):
                return (base + r[0], base + r[1])
            if truth["dup_param"] is not None:
                expected.append(("CS0002", reg(pr), None, truth["dup_param"]))
            else:
                names = decl_names(truth)
                for me, prev in truth["shadows"]:
                    expected.append(("CS0001", reg(dr[me]), reg(pr if isinstance(prev, tuple) else dr[prev]), names[me]))
        path = os.path.join(wdir, "case_%d.circom" % (fi // per_file))
        with open(path, "w") as f:
            f.write(text)
        jobs.append((path, text, expected, spans, [tolist(c["d"]) for c in chunk]))

    import concurrent.futures

    def one(job):
        path, text, expected, spans, _ = job
        sarif = path + ".sarif"
        try:
            os.remove(sarif)
        except OSError:
            pass
        rc, out, err = common.sh([cli, "--verbose", "--sarif-file", sarif, path], timeout=300)
        return rc, out + err

    with concurrent.futures.ThreadPoolExecutor(max_workers=common.NPROC) as ex:
        results = list(ex.map(one, jobs))
    for (path, text, expected, spans, chunk_defs), (rc, out) in zip(jobs, results):
        st_e2e["files"] += 1
        st_e2e["definitions"] += len(spans)
        exp_regions = []
        for rule, p, s, nm in expected:
            pl = linecol(text, p[0]) + linecol(text, p[1])
            sl = (linecol(text, s[0]) + linecol(text, s[1])) if s is not None else None
            exp_regions.append((rule, pl, sl, nm))
        # the name a finding displays: the expected one if it is among the backquoted words of the message
        want_name = {}
        for r, pl, _, nm in exp_regions:
            want_name.setdefault((r, (pl[0], pl[1])), []).append(nm)
        # displayed: header lines and their primary location
        shown = []
        lines = out.splitlines()
        for i, l in enumerate(lines):
            m = re.match(r"(?:warning|error)\[(CS000[12])\]:?(.*)$", l)
            if m:
                quoted = re.findall(r"`([^`]*)`", m.group(2))
                loc = None
                for l2 in lines[i + 1:i + 3]:
                    m2 = re.search(r"┌─ .*:(\d+):(\d+)\s*$", l2)
                    if m2:
                        loc = (int(m2.group(1)), int(m2.group(2)))
                        break
                shown.append((m.group(1), loc, name_shown(quoted, want_name.get((m.group(1), loc)))))
        # SARIF: regions of primary and related locations
        got = []
        try:
            sar = json.load(open(path + ".sarif"))
            for r in sar["runs"][0]["results"]:
                if r.get("ruleId") in ("CS0001", "CS0002"):
                    def rg(x):
                        g = x["physicalLocation"]["region"]
                        return (g["startLine"], g["startColumn"], g["endLine"], g["endColumn"])
                    pl = rg(r["locations"][0]) if r.get("locations") else None
                    rel = [rg(x) for x in r.get("relatedLocations", [])]
                    quoted = re.findall(r"`([^`]*)`", (r.get("message") or {}).get("text", ""))
                    got.append((r["ruleId"], pl, rel[0] if rel else None, name_shown(quoted, want_name.get((r["ruleId"], pl and pl[:2])))))
        except (OSError, ValueError, KeyError, IndexError) as e:
            got = [("no-sarif", repr(e), None, None)]
        st_e2e["findings_expected"] += len(exp_regions)
        ok = sorted(got, key=str) == sorted(exp_regions, key=str) and \
            sorted(shown, key=str) == sorted([(r, (pl[0], pl[1]), nm) for r, pl, _, nm in exp_regions], key=str)
        if not ok:
            # localise to one definition: the first whose findings differ
            culprit = None
            for (a, b, t, d) in spans:
                la, lb = linecol(text, a)[0], linecol(text, b)[0]
                e1 = sorted([x for x in exp_regions if la <= x[1][0] < lb], key=str)
                g1 = sorted([x for x in got if x[1] and not isinstance(x[1], str) and la <= x[1][0] < lb], key=str)
                s1 = sorted([x for x in shown if x[1] and la <= x[1][0] < lb], key=str)
                if e1 != g1 or s1 != sorted([(r, (pl[0], pl[1]), nm) for r, pl, _, nm in e1], key=str):
                    culprit = {"source": t, "def": tolist(d), "expected": [str(x) for x in e1],
                               "sarif": [str(x) for x in g1], "stdout": [str(x) for x in s1]}
                    break
            culprit = culprit or {"file": path, "expected": [str(x) for x in exp_regions][:10],
                                  "sarif": [str(x) for x in got][:10], "stdout": [str(x) for x in shown][:10]}
            culprit["file_defs"] = chunk_defs       # the whole file: definitions reference each other
            culprit["file_text"] = text
            failing.append(culprit)
    return failing


# --------------------------------------------------------------------------
# run / replay
# --------------------------------------------------------------------------

def run(ctx, proofs):
    hb = common.build_harness("uniq")
    mb = common.build_model("uniq")
    cli = common.build_cli()
    quick = ctx.tier == "quick"
    st = Stats()
    POST_SSA.update({"local_lookups": 0, "local_lookups_none": 0})
    # 0. lint: Environment::version_key as read from the text of ssa_impl.rs. The identifiers
    #    that are the key of a suffixed x under the format it reads join the name pools of the
    #    generators, so that a shared version counter is exposed whatever the literal is.
    key_lint = key_lint_of(mb)
    G.EXTRA_LOOKALIKES[:] = list(key_lint.get("lookalikes_fed_to_the_generator") or [])
    key_lint["transcription"] = transcription_check(mb, key_lint)
    families = FAMILIES + G.EXTRA_LOOKALIKES[:1]
    # 1. regression corpus first (witnesses of the repaired defects), then the fixed cases
    corpus = corpus_cases()
    fixed = fixed_cases()
    run_batch(list(corpus) + lint_cases() + fixed, (hb, mb), st)
    corpus_failing = len(st.failing)
    # 2. exhaustive scope forests
    kmax = 4 if quick else 5
    depth_of = (lambda k: 3) if quick else (lambda k: 3 if k <= 4 else 2)
    batch = []
    n_exh = 0
    for c in exhaustive_cases(ctx, kmax, depth_of, 4, families):
        batch.append(c)
        n_exh += 1
        if len(batch) >= BATCH:
            run_batch(batch, (hb, mb), st)
            batch = []
    if batch:
        run_batch(batch, (hb, mb), st)
    # 3. random definitions
    n_rand = 12000 if quick else 120000
    batch = []
    e2e_pool = []
    for c in random_cases(ctx, n_rand):
        batch.append(c)
        if len(e2e_pool) < (500 if quick else 4000) and not G.has_sugar(c["d"][3]):
            e2e_pool.append(c)
        if len(batch) >= BATCH:
            run_batch(batch, (hb, mb), st)
            batch = []
    if batch:
        run_batch(batch, (hb, mb), st)
    # 3a. deep family: >= 12 declarations of one name (two-digit suffixes), nesting 5..9
    n_deep = 400 if quick else 4000
    deep = list(deep_cases(ctx, n_deep))
    run_batch(deep, (hb, mb), st)
    e2e_pool += deep[:20 if quick else 200]
    # 3b. outside the grammar: a declaration as loop body / branch must not parse
    n_unb = 600 if quick else 6000
    run_unbraced([{"d": G.unbraced_def(ctx.rng), "clean": False, "src": "unbraced"} for _ in range(n_unb)], (hb, mb), st)
    # 4. end to end
    st_e2e = {"files": 0, "definitions": 0, "findings_expected": 0}
    e2e_cases = fixed + [c for c in corpus if not G.has_sugar(c["d"][3])] + e2e_pool
    e2e_failing = e2e(ctx, cli, e2e_cases, st_e2e)

    # 5. the character class of identifiers (hypothesis ident_ok / nodot) against the lexer
    ident_probe = identchar_probe((hb, mb))

    # ---- verdict ----
    for f in st.failing[:4]:
        ctx.violation("scoping property fails on the real code: %s" % " / ".join(f["failure"])[:400],
                      {"input": {"source": f["source"], "def": f["def"], "clean": f["clean"]},
                       "impl": f["impl"], "spec": "oracle: lexical scope resolution of lib/props/c10gen.py; failure: " + " / ".join(f["failure"])})
    for f in e2e_failing[:2]:
        ctx.violation("the binary does not display exactly the shadowing / repeated-parameter findings of the oracle",
                      {"input": {"source": f.get("source"), "def": f.get("def"), "e2e": True, "file": f.get("file"),
                                 "file_defs": f.get("file_defs"), "file_text": f.get("file_text")},
                       "impl": {"sarif": f.get("sarif"), "stdout": f.get("stdout")}, "spec": f.get("expected")})
    if not st.failing and not e2e_failing:
        if st.disagreements:
            d0 = st.disagreements[0]
            ctx.violation("correspondence Model.UniqueVars / Spec.ScopeSpec vs the implementation broken (%d cases); the oracle "
                          "accepted the implementation's output on every explored input; first: %s" % (len(st.disagreements), " / ".join(d0["first"])[:300]),
                          {"broken": "correspondence uniq (Model.UniqueVars.ensure_unique_variables, lift_name)", "first": d0,
                           "count": len(st.disagreements)}, no_input=True)
        elif proofs["failures"]:
            ctx.violation("proof obligations of C10 no longer check: " + "; ".join(proofs["failures"])[:500],
                          {"broken": "props/C10.v", "failures": proofs["failures"]}, no_input=True)
        elif key_lint.get("verdict") == "colliding":
            ctx.violation("lint: Environment::version_key as read from ssa_impl.rs is a format that does not separate name and suffix "
                          "(%s / %s), and no generated program exposed a shared version counter" % (key_lint.get("some"), key_lint.get("none")),
                          {"broken": "key of the SSA version maps (lint lib/props/c10key.py, decision Model.UniqueVars.key_format_ok)",
                           "lint": key_lint}, no_input=True)
    if ident_probe["mismatches"]:
        b = ident_probe["mismatches"][0]
        ctx.violation("the lexer's identifier characters differ from Model.UniqueVars.ident_char (hypothesis of C10_ssa_keys_injective / "
                      "C10_identifiers_have_no_dot): byte %d" % b["byte"],
                      {"input": {"source": b["source"], "byte": b["byte"], "identchar_probe": True},
                       "impl": b["impl"], "spec": "ident_char = %d" % b["model"]})
    ctx.coverage.update({
        "evaluations": st.evaluations,
        "distinct_nontrivial": len(st.shapes),
        "rule": "evaluations = definitions run through parser + ensure_unique_variables + into_cfg + into_ssa, the extracted mirror, the "
                "extracted resolver and the oracle. distinct_nontrivial = distinct named projections (locations removed) in which the pass "
                "renamed at least one occurrence. Exhaustive part: every scope forest with <= %d leaves (leaf = declaration or use/assignment of "
                "x or x_0, and again with x0 in the place of x_0 up to 4 leaves; blocks nested to depth %s, never a block holding a single block), each realised once with a seeded choice of block "
                "kind (plain / while / if / if-else), statement form and parameter list from %s. Random part: %d definitions, 3..26 declarations/"
                "uses, names x, y and one to three lookalikes of a suffixed x from %s, depth <= 4 (one in ten: 30 more statements, depth <= 9), functions and templates (signals, components), for loops, multiple declarators, 1..3 dimension "
                "expressions, 1..3 accesses (indices and `.field`s, on targets too), `parallel` (component initialisers and whole right-hand sides, conditions, indices), compound assignments, tuples and anonymous components; half of them all-initialised functions. "
                "Deep part: %d definitions with 12..16 declarations of x (suffixes up to .15) nested 5..9 deep next to variables called x_10, x10, x_11 ... (two thirds all-initialised functions). "
                "Assignment-target leaves in the forests up to 3 leaves."
                % (kmax, "3" if quick else "3 (k<=4) / 2 (k=5)", params_of("x_0"), n_rand, G.LOOKALIKES, n_deep),
        "exhaustive": False,
        "exhaustive_part": "%d scope forests (all with <= %d leaves)" % (n_exh, kmax),
        "samples": st.samples if not st.disagreements else [st.disagreements[0]],
        "distribution": st.hist,
        "collision_sensitive_cases": st.collision_sensitive,
        "collision_sensitive_rule": "per separator S in %r: cases in which some variable lifts to (n, s) while the identifier n S s occurs as "
                                    "well (`_`: the D20 pattern; empty: a key that concatenates name and suffix)" % (SEPARATORS,),
        "parameter_collisions": st.param_collisions,
        "unbraced_declarations": {"generated": st.unbraced, "rejected_by_the_parser": st.unbraced_rejected,
                                  "rule": "functions with a bare declaration as the body of a while or a branch of an if (then / else / both / "
                                          "below a nested while), uses in the sibling branch and after; all must be rejected by the parser, and "
                                          "every other generated program must satisfy Spec.ScopeSpec.branch_closed (checked by the extracted "
                                          "predicate on the projection the real parser built)"},
        "ssa_key_lint": key_lint,
        "hypotheses_evaluated": {
            "branch_closed (C10_renaming_preserves_binding, C10_shadowing_reports_exact)": "%d of %d parsed cases" % (st.hyp["branch_closed"], st.evaluations),
            "ident_ok on every name of the parsed projection (C10_ssa_keys_injective; implies nodot of C10_renaming_injective_on_declarations "
            "and C10_lifted_names_roundtrip by C10_identifiers_have_no_dot)": "%d of %d parsed cases" % (st.hyp["ident_ok"], st.evaluations),
            "ident_char = the lexer's identifier bytes": "%d of %d bytes agree" % (ident_probe["bytes"] - len(ident_probe["mismatches"]), ident_probe["bytes"]),
            "NoDup params (C10_duplicate_parameters_reported)": "both sides generated: %d cases with a repeated parameter" % st.param_collisions,
        },
        "features": st.features,
        "corpus_cases": len(corpus),
        "corpus_failing": corpus_failing,
        "disagreements_model_vs_impl": len(st.disagreements),
        "oracle_failures": len(st.failing),
        "e2e": st_e2e,
        "e2e_failures": len(e2e_failing),
        "post_ssa_table": {"lookups_of_locals_after_into_ssa": POST_SSA["local_lookups"],
                           "of_which_answer_nothing": POST_SSA["local_lookups_none"],
                           "note": "observed behaviour of the unchanged code (versioned keys, version-stripping lookup); no requirement is attached"},
        "open_statements": [
            "the composite `a USE the resolver assigns to the k-th declaration of n is looked up (get_declaration) as the location and kind of "
            "that declaration` is not a theorem: C10_renaming_preserves_binding gives the use the name of that declaration and "
            "C10_declaration_table_keyed_by_declaration gives the row of every declaration's name, but no statement links the resolver's index "
            "with the location carried by the Declaration statement. Judged by the oracle clause `dcl` on every generated case.",
            "the table AFTER into_ssa (update_declarations) and the versions listed by the Declaration statements: oracle only (`tab2`, `d=`, `dcl2`).",
            "after into_ssa every versioned read has a definition of the same (name, suffix, version): observed by the oracle on every "
            "generated definition (no Gallina model of the SSA construction in this property; C14 owns it). Proved here: the key of the "
            "version maps is injective on (name, suffix) (C10_ssa_keys_injective), which removes the cause of D20.",
            "display of the findings by the binary (report cache, filters, rendering): observed end to end on %d definitions; the theorem "
            "C10_shadowing_reports_exact is about the reports the pass produces (display path: C03)." % st_e2e["definitions"],
        ],
    })
    ctx.assumptions += [
        "the named projection (harness `proj`) is what the pass sees: the harness walks the parsed AST in the order of visit_statement / "
        "visit_expression; the generator's own projection is compared with it on every case",
        "HashMap-backed blocks of VarEnvironment behave like association lists (insert = overwrite, lookup by key): observed by the correspondence",
        "usize version counters do not overflow (2^64 declarations of one name)",
        "identifiers contain no `.` (IDENTIFIER of lang.lalrpop; C10_identifiers_have_no_dot is about the mirrored character class)",
        "the SSA key function Environment::version_key is private and cannot be run: Model.UniqueVars.ssa_key is a transcription. It is "
        "tied through behaviour only: into_ssa on generated programs with lookalike identifiers (x0, x1, x_0, x$0, x__0, x_10, x10 ...) must give "
        "every (name, suffix) its own version counter 0..k, define every read, and never assign a version twice (oracle clauses of "
        "ssa_failures). lib/props/c10key.py reads the function from the text of ssa_impl.rs as a LINT: its verdict is in "
        "coverage.ssa_key_lint; `not understood` and `outside the proved class` are warnings, `colliding` becomes a violation without "
        "input only when no generated program exposed the shared counter. ssa_key_old is a transcription of the replaced code",
        "no Gallina model of the SSA construction in this property (C14 owns it): the SSA clauses are judged by the oracle on the output of the real code",
        "the `Declarations` table: Model.UniqueVars.build_table / get_declaration_of mirror control_flow_graph/lifting.rs (one row per parameter and "
        "Declaration statement, keyed by the lifted name) and declarations.rs::get_declaration; compared with the real table (`tab`) and "
        "the real answer for every occurrence (`dcl`) on every case, and judged by the oracle; C10_declaration_table_keyed_by_declaration is about "
        "this PRE-SSA table and about the lifted names of declarations and parameters (see open_statements for the composite use -> declaration)",
        "after into_ssa the table is replaced (update_declarations: locals re-keyed WITH their versions) while Declarations::get_declaration still "
        "strips the version: in the unchanged code the lookup of every occurrence of a LOCAL answers nothing after into_ssa (counted in "
        "coverage.post_ssa_table; the analyses look up signals and components only). Not modelled; the oracle checks the rows of that table "
        "(`tab2`), the versions the Declaration statements list (`d=`) and the lookups of signals / components (`dcl2`)",
        "every loop body and branch the pass sees declares nothing outside a block of its own (Spec.ScopeSpec.branch_closed, the domain of "
        "C10_renaming_preserves_binding and C10_shadowing_reports_exact): checked by the extracted predicate on the projection of every "
        "parsed case, and the parser rejects every generated program with a bare declaration as loop body or branch; that the desugarer "
        "keeps the shape (it hoists the declarations it creates to the outermost block of the template) is read from "
        "syntax_sugar_remover.rs, not checked here",
    ]


def replay(ctx, rep):
    inp = rep.get("input")
    if inp and inp.get("identchar_probe"):
        r = identchar_probe((common.build_harness("uniq"), common.build_model("uniq")))
        print("identifier bytes per the parser: %d; mismatches with ident_char: %s" % (r["identifier_bytes"], r["mismatches"][:5]))
        return 1 if r["mismatches"] else 0
    if inp and inp.get("e2e") and inp.get("file_defs"):
        cli = common.build_cli()
        st_e2e = {"files": 0, "definitions": 0, "findings_expected": 0}
        fails = e2e(ctx, cli, [{"d": d, "clean": False, "src": "replay"} for d in inp["file_defs"]], st_e2e)
        for f in fails:
            f.pop("file_defs", None)
            f.pop("file_text", None)
        print(inp.get("file_text") or "")
        print("expected findings:", st_e2e["findings_expected"], "failures:", json.dumps(fails, indent=1)[:3000])
        return 1 if fails else 0
    if not inp or not inp.get("def"):
        print("replay names a broken obligation or a whole file, not a definition:", rep.get("broken") or inp)
        return 1
    d = inp["def"]
    c = prepare({"d": d, "clean": bool(inp.get("clean")), "src": "replay"})
    print(c["text"])
    if inp.get("e2e"):
        cli = common.build_cli()
        st_e2e = {"files": 0, "definitions": 0, "findings_expected": 0}
        fails = e2e(ctx, cli, [c], st_e2e)
        print("expected findings:", st_e2e["findings_expected"], "failures:", json.dumps(fails, indent=1)[:2000])
        return 1 if fails else 0
    hb = common.build_harness("uniq")
    out = common.run_lines(hb, [], [c["text"].encode().hex()])
    print("implementation:", out[0].replace(" | ", "\n  | "))
    errs = oracle_check(d, c["truth"], c["dr"], c["pr"], sections(out[0]), c["clean"], c["sugar"])
    print("oracle occurrences:", c["truth"]["occ"])
    print("oracle shadowing set:", expected_reports(c["truth"], c["dr"], c["pr"]))
    print("failures:", errs)
    return 1 if errs else 0
