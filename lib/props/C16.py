"""C16 — field arithmetic. Correspondence: the Rust functions of
circom_algebra::modular_arithmetic vs the extracted Gallina mirror
(Model.Field.eval) on (a) every operand pair of seven small prime fields and
(b) boundary and seeded random operands of the three shipped primes; and
directly against the documented semantics (Spec.FieldSpec.spec_exec, proved
equal to spec) as the violation-search oracle.  (b') the multiplication
sequence of `**` (Model.FieldPow) against the implementation's value, and the
anchor of the mirrored library code.  (c) the operator dispatch of
expression_impl.rs: closed expressions over literals through the real parser,
lowering, SSA and value propagation vs the pass-loop mirror
(Model.FieldDispatch.propagate_lit), the bottom-up dispatch (lit_dispatch) and
the documented value (Spec.DispatchSpec.doc_eval).
Third audit: the primes come from EXECUTING Curve::from_str / UsefulConstants::new (harness `field curves`); every
case runs under a watchdog and a harness process that dies is restarted, the case that killed it being a failing
input (`run_cases`); the largest single allocation of every call is bounded (harness `field work`); every shift
count 0..bits(p)+1 in both directions, negative and non-canonical operands are fed; the shift recursion as written
(Model.Field.shift_w) is evaluated against C16_shift_bounded_work on every shift case."""
import os
import re
import common

SMALL = [3, 5, 7, 11, 13, 17, 257]
OPS = ["add", "mul", "sub", "div", "idiv", "mod", "pow", "neg", "compl", "shl", "shr", "bor", "band",
       "bxor", "asbool", "not", "or", "and", "eq", "lt", "neq", "le", "gt", "ge"]
UNARY = {"neg", "compl", "asbool", "not"}


CONSTANTS_RS = "program_structure/src/utils/constants.rs"


def strip_rust_comments(text):
    """Rust source without // and /* */ comments (string literals are respected well enough for the files read
    here: a `//` inside a literal would only make the reader see less, never more)."""
    out, i, n = [], 0, len(text)
    while i < n:
        c = text[i]
        if c == '"':
            j = i + 1
            while j < n and text[j] != '"':
                j += 2 if text[j] == "\\" else 1
            out.append(text[i:j + 1])
            i = j + 1
        elif text.startswith("//", i):
            while i < n and text[i] != "\n":
                i += 1
        elif text.startswith("/*", i):
            j = text.find("*/", i + 2)
            i = n if j < 0 else j + 2
        else:
            out.append(c)
            i += 1
    return "".join(out)


def curve_variants_in_source():
    """Names of the variants of `enum Curve`, read loosely (comments and attributes dropped).  Used only to COUNT:
    every variant must be reached by some accepted name, otherwise a supported prime would go unexercised.
    None when the declaration cannot be found."""
    src = strip_rust_comments(open(os.path.join(common.REPO, CONSTANTS_RS)).read())
    m = re.search(r"\benum\s+Curve\s*\{(.*?)\}", src, re.S)
    if not m:
        return None
    body = re.sub(r"#\s*\[[^\]]*\]", " ", m.group(1))
    names = []
    for part in body.split(","):
        w = re.match(r"\s*([A-Za-z_][A-Za-z0-9_]*)", part)
        if w:
            names.append(w.group(1))
    return names


def curves_by_execution(HARNESS_BIN):
    """The supported curves and their primes, obtained by EXECUTING Curve::from_str and UsefulConstants::new of the
    current tree (harness `field curves`) on candidate names: every string literal and every identifier of
    constants.rs, as written, upper-cased and lower-cased.  (Third audit: the primes were read with the regex
    `"\\d{15,}"`, which silently skipped a prime of fewer than 15 digits.)  Returns
    ([(accepted name, prime)], info)."""
    src = strip_rust_comments(open(os.path.join(common.REPO, CONSTANTS_RS)).read())
    cands = set(re.findall(r'"([^"\\\n]{1,64})"', src)) | set(re.findall(r"\b[A-Za-z_][A-Za-z0-9_]*\b", src))
    cands |= {c.upper() for c in cands} | {c.lower() for c in cands}
    cands = sorted(c for c in cands if c.strip() == c and c)
    rc, out, err = common.sh([HARNESS_BIN, "curves"], inp="\n".join(c.encode().hex() for c in cands) + "\n", timeout=120)
    if rc != 0:
        raise common.BuildError("harness `field curves` failed rc=%d" % rc, err[-2000:])
    found = {}            # display name -> {"prime": int, "size": int, "names": [...]}
    default = None
    panics = []
    for line in common._lines(out):
        head, res = line.split(" = ", 1)
        if res == "reject":
            continue
        if res == "panic":
            panics.append(head)
            continue
        disp, phex, size = res.rsplit(" ", 2)
        if head == "default":
            default = disp
        e = found.setdefault(disp, {"prime": int(phex, 16), "size": int(size), "names": []})
        if head != "default":
            e["names"].append(bytes.fromhex(head).decode())
    curves = []
    unnamed = []
    for disp, e in sorted(found.items()):
        if not e["names"]:
            unnamed.append(disp)
            continue
        pref = [n for n in e["names"] if n == disp.upper()] or sorted(e["names"])
        curves.append((pref[0], e["prime"]))
    variants = curve_variants_in_source()
    info = {"candidates_tried": len(cands), "curves": {d: {"prime": hex(e["prime"]), "prime_size": e["size"],
                                                          "accepted_names": sorted(e["names"])[:6]} for d, e in found.items()},
            "default": default, "variants_in_source": variants, "from_str_panics": panics[:5],
            "reached_only_as_default": unnamed,
            "prime_size_is_bit_length": all(e["size"] == e["prime"].bit_length() for e in found.values())}
    return curves, info


def nbits(x):
    return x.bit_length()


def canon_res(op, r):
    """Compared observable: the value, or the KIND of failure the property speaks of.  For `<<` and `>>` the
    property says "over-large shifts are reported as errors": which of the two variants of ArithmeticError names
    the error (DivisionByZero today, BitOverFlowInShift if the code is corrected) is not part of it."""
    if op in ("shl", "shr") and r.startswith("err "):
        return "err shift-count"
    return r


def spec_accepts(op, a, b, p, impl, spec):
    """Does the implementation's answer satisfy the documented semantics?"""
    if impl == spec:
        return True
    if op in ("shl", "shr") and impl.startswith("err") and spec == "ok 0":
        # error instead of the defined value 0: exactly the case of theorem C16_field_never_panics - the count fits
        # no machine word in either direction (second audit: this was `count >= nbits(p)`, wider than the theorem)
        return word_overflow_count(b, p)
    return False


def word_overflow_count(b, p):
    """The shift-count case of C16_field_never_panics / C16_dispatch_missing_constant_cases: 2^64 <= b /\ 2^64 <= p - b."""
    return (1 << 64) <= b and (1 << 64) <= p - b


def is_probable_prime(n):
    """Miller-Rabin with the first 24 primes as bases (deterministic far beyond 2^64; a probabilistic
    test with error < 4^-24 for the 254/255-bit constants): evaluates hypothesis `prime p`."""
    if n < 2:
        return False
    small = [2, 3, 5, 7, 11, 13, 17, 19, 23, 29, 31, 37, 41, 43, 47, 53, 59, 61, 67, 71, 73, 79, 83, 89]
    for q in small:
        if n % q == 0:
            return n == q
    d, r = n - 1, 0
    while d % 2 == 0:
        d //= 2
        r += 1
    for a in small:
        x = pow(a, d, n)
        if x in (1, n - 1):
            continue
        for _ in range(r - 1):
            x = x * x % n
            if x == n - 1:
                break
        else:
            return False
    return True


def field_hypotheses(p):
    """Hypotheses `prime p`, `2 < p`, `Z.log2 p < 2^64` of the C16 theorems, evaluated on one modulus."""
    return is_probable_prime(p) and p > 2 and (p.bit_length() - 1) < (1 << 64)


def div_ok(a, b, p, impl):
    if b % p == 0:
        return impl == "err div0"
    m = re.match(r"ok ([0-9a-f]+)$", impl)
    if not m:
        return False
    c = int(m.group(1), 16)
    return 0 <= c < p and (c * b) % p == a % p


def boundary(p):
    b = nbits(p)
    vals = {0, 1, 2, 3, p // 2 - 1, p // 2, p // 2 + 1, p // 2 + 2, p - 2, p - 1}
    for k in (1, 8, 31, 32, 63, 64, 65, b - 2, b - 1, b, 253, 254, 255, 256):
        for d in (-1, 0, 1):
            v = (1 << k) + d
            if 0 <= v < p:
                vals.add(v)
    # shift counts at the machine-word and limb boundaries, around the bit size, and the same counts "the other way"
    fwd = {0, 1, 2, 31, 32, 33, 63, 64, 65, 127, 128, 129, 191, 192, 193, b - 2, b - 1, b, b + 1, 1 << 20, 1 << 40,
           (1 << 64) - 1, 1 << 64}
    counts = set(fwd) | {p - c for c in fwd} | {p // 2, p // 2 + 1, p - (1 << 20), p - 64}
    counts = {c for c in counts if 0 <= c < p}
    return sorted(vals), sorted(counts)


def shift_operands(p, rnd):
    """Operands of the deterministic sweep over EVERY forward count: small, large, around p/2, all-ones below the
    top bit, two seeded ones."""
    b = nbits(p)
    ops = [1, 3, p // 2, p // 2 + 1, p - 1, (1 << (b - 1)) - 1, (1 << (b - 1)) % p, 0x5555555555555555 % p] + rnd[:2]
    return sorted({v for v in ops if 0 <= v < p})


def of_length(rng, n):
    """Three values of exactly n bits: the smallest, the largest, a seeded one."""
    return [1 << (n - 1), (1 << n) - 1, rng.getrandbits(n) | (1 << (n - 1))]


def boundary_lengths(b):
    """Bit lengths at the machine-word / limb boundaries and around the bit size b of the prime."""
    return sorted({n for n in (1, 2, 31, 32, 33, 63, 64, 65, 66, 127, 128, 129, 130, 191, 192, 193, 194, b - 1, b, b + 1, b + 2)
                   if 1 <= n <= b + 2})


def bit_length_cases(rng, p, quick, stats):
    """Operands and exponents of EVERY bit length 1..bits(p)+2 (fourth audit: canonical operands of 67..240 bits and
    exponents of 65..247 bits were never generated; a `u128` fast path in `add`, an `as u64` on the exponent
    escaped).  Values at and above p are no field elements: they are compared with the mirror only."""
    b = nbits(p)
    out = []
    lens = list(range(1, b + 3))
    blens = set(boundary_lengths(b))
    for n in lens:
        x = of_length(rng, n)
        m = rng.choice(lens)
        y = of_length(rng, m)
        for op in OPS:
            if op in UNARY:
                out += [(op, v, 0, p) for v in x]
            elif op in ("shl", "shr"):
                for k in (1, 64, max(n - 1, 0), max(b - n, 0)):
                    out.append((op, x[2], k, p))
            elif op == "pow":
                out.append((op, x[2], 3, p))                             # bases of every length
                if n in blens:
                    out.append((op, x[1], 65537, p))
            elif op == "div" and n not in blens:                         # the model's Euclid costs 13 ms a case
                out.append((op, x[2], y[2], p))
            elif op in ("or", "and", "eq", "lt", "neq", "le", "gt", "ge") and n not in blens:
                out += [(op, x[1], x[1], p), (op, x[2], y[2], p)]
            else:
                out += [(op, x[1], x[1], p), (op, x[2], x[0], p), (op, x[2], y[2], p), (op, y[2], x[2], p)]
    # exponents: every boundary length, and seeded other lengths (all of them in the thorough tier; a full-size
    # exponent costs the model about half a second)
    elens = boundary_lengths(b)
    others = [n for n in lens if n not in elens]
    elens += others if not quick else rng.sample(others, min(8, len(others)))
    for n in sorted(elens):
        e = of_length(rng, n)
        out.append(("pow", 3, e[2], p))
        if n < 100 or not quick:
            out += [("pow", 2, e[0] + 3, p), ("pow", rng.randrange(p), e[1], p)]
    stats["bit_lengths"][hex(p)] = {"operands": [lens[0], lens[-1]], "exponent_lengths": sorted(elens)}
    return out


def cases(ctx, primes):
    """Cases on the shipped primes: (op, a, b, p) with canonical operands unless said otherwise."""
    quick = ctx.tier == "quick"
    lines = []
    nrand = 150 if quick else 1500
    npow = 2 if quick else 12
    stats = {"all_forward_counts": {}, "negative_operand_cases": 0, "non_canonical_cases": 0, "bit_lengths": {},
             "bit_length_cases": 0}
    for p in primes:
        b = nbits(p)
        vals, counts = boundary(p)
        rnd = [ctx.rng.randrange(p) for _ in range(nrand)]
        small = [ctx.rng.randrange(1 << 16) for _ in range(6)]
        for op in OPS:
            if op in UNARY:
                for a in vals + rnd:
                    lines.append((op, a, 0, p))
            elif op in ("shl", "shr"):
                for a in vals[::2] + rnd[:10]:
                    for k in counts + small:
                        lines.append((op, a, k, p))
                # EVERY count 0..bits(p)+1 in the forward direction and p-bits(p)-1..p-1 in the backward direction
                # (third audit: counts 3..bits(p)-2 on the 254/255-bit primes were reached only at random)
                allc = [k for k in range(0, b + 2) if k < p]
                back = [p - k for k in range(1, b + 2) if 0 <= p - k < p]
                stats["all_forward_counts"][hex(p)] = [allc[0], allc[-1]] if allc else []
                for a in shift_operands(p, rnd):
                    for k in allc + back:
                        lines.append((op, a, k, p))
            elif op == "pow":
                for a in vals[:12] + rnd[:4]:
                    for e in [0, 1, 2, 3, 5, 64, 255, 65537] + small[:2]:
                        lines.append((op, a, e, p))
                # exponents between 2^20 and 2^32: the result must come from modular exponentiation in
                # bounded time, never from building the unreduced power (watchdog + allocation bound)
                for a in (2, 3, vals[-1]):
                    for e in (1 << 20, 10 ** 7, (1 << 31) - 1, 1 << 31, (1 << 32) - 1, 4000000000, 1 << 32, 10 ** 12):
                        if e < p:
                            lines.append((op, a, e, p))
                for i in range(npow):     # full-size exponents are slow in the model
                    lines.append((op, rnd[i], rnd[-1 - i], p))
                lines.append((op, 2, p - 1, p))
            else:
                for a in vals:
                    for b2 in vals:
                        lines.append((op, a, b2, p))
                for i in range(0, len(rnd) - 1, 2):
                    lines.append((op, rnd[i], rnd[i + 1], p))
        blc = bit_length_cases(ctx.rng, p, quick, stats)
        lines += blc
        stats["bit_length_cases"] += len(blc)
        n0 = len(lines)
        # non-canonical operands (the Rust API takes any BigInt; literals may exceed p): mirror vs implementation only.
        # `pow` is compared with Model.FieldPow.modpow_steps (the mirror of the library routine, which - unlike
        # Field.pow = a^b mod p - also mirrors what the library does with a negative base or exponent)
        big = (p, p + 1, 2 * p + 3, (1 << 256) + 5, (1 << 300) - 1)
        for op in OPS:
            for a in big:
                for b2 in (0, 1, 5, p - 1, p + 2):
                    if op != "pow" or b2 < (1 << 32) or a == p + 1:     # full-size exponents are slow in the model
                        lines.append((op, a, b2, p))
        stats["non_canonical_cases"] += len(lines) - n0
        n0 = len(lines)
        # negative operands (third audit: C16_reducing_functions_on_any_integers and C16_shift_bounded_work
        # quantify over all integers, none was ever fed)
        neg = [-1, -2, -(p // 2), -(p // 2) - 1, -p + 1, -p, -p - 1, -(1 << 64), -(1 << 256) - 5, -rnd[0], -2 * p - 3]
        pos = [0, 1, 3, p // 2 + 1, p - 1, rnd[1]]
        for op in OPS:
            for a in neg:
                for b2 in neg[:7] + pos[:5]:
                    if op != "pow" or b2 < (1 << 32) or a == -2:
                        lines.append((op, a, b2, p))
            for a in pos:
                for b2 in neg:
                    lines.append((op, a, b2, p))
        stats["negative_operand_cases"] += len(lines) - n0
    ctx.rng.shuffle(lines)      # the runners shard contiguously: spread the expensive `**` cases
    return lines, stats


def hx(z):
    return "%x" % z if z >= 0 else "-%x" % -z


def fmt(c):
    return "%s %x %x %x" % c


ABORT_LIMIT = 200      # per shard; the cases after that many kills are counted as `not-run`, never dropped silently


def run_cases(binary, args, lines, shards=None, timeout=900, stats=None, env=None):
    """Feeds `lines` to the harness and returns one output line per input line, whatever the harness does.
    The harness flushes every line and runs every case under a watchdog; so when a process dies (stack overflow of
    an unbounded recursion, failed allocation: signals no catch_unwind can turn into a value) the case that killed
    it is the first one without an answer: it is answered `<line> = abort`, and a new process takes the remaining
    lines.  A case the watchdog gave up on is answered `timeout` by the harness, which then exits; the rest is
    resumed likewise.  (Third audit: such a death used to surface as `BuildError`, "could not be built", with no
    input, although the case is a precise failing input.)"""
    import concurrent.futures
    shards = shards or common.NPROC
    stats = stats if stats is not None else {}
    stats.setdefault("aborts", [])
    stats.setdefault("not_run", 0)
    stats.setdefault("restarts_after_timeout", 0)
    import threading
    lock = threading.Lock()
    n = len(lines)
    if n == 0:
        return []
    size = max(1, (n + shards - 1) // shards)
    chunks = [lines[i:i + size] for i in range(0, n, size)]

    def one(ch):
        outs, pos, kills = [], 0, 0
        while pos < len(ch):
            rc, out, err = common.sh([binary] + args, inp="\n".join(ch[pos:]) + "\n", timeout=timeout, env=env)
            if out and not out.endswith("\n"):
                out = out[:out.rfind("\n") + 1]          # a line cut off by the death of the process
            got = common._lines(out)[:len(ch) - pos]
            outs += got
            pos += len(got)
            if pos >= len(ch):
                break
            if rc == 0 and got and got[-1].endswith("= timeout"):
                with lock:
                    stats["restarts_after_timeout"] += 1
                continue
            last = (err.strip().splitlines() or [""])[-1][:200]
            with lock:
                stats["aborts"].append({"case": ch[pos], "rc": rc, "stderr": last})
            outs.append("%s = abort" % ch[pos])
            pos += 1
            kills += 1
            if kills >= ABORT_LIMIT:
                with lock:
                    stats["not_run"] += len(ch) - pos
                outs += ["%s = not-run" % l for l in ch[pos:]]
                break
        return outs
    with concurrent.futures.ThreadPoolExecutor(max_workers=shards) as ex:
        res = []
        for o in ex.map(one, chunks):
            res.extend(o)
    return res


def retry_timeouts(binary, args, lines, outs):
    """The harness watchdog measures wall time, and the machine is shared: a case answered `timeout` is run again in
    a process of its own with a 20 s limit (at most 16 cases, side by side); only a repeated time-out stands."""
    env = dict(common.ENV)
    env["VERIF_FIELD_WATCHDOG_SECS"] = "20"
    allidx = [i for i, o in enumerate(outs) if o.endswith("= timeout")]
    idx = allidx[:16]
    if not idx:
        return outs

    def one(i):
        return run_cases(binary, args, [lines[i]], shards=1, timeout=60, env=env)[0]
    import concurrent.futures
    with concurrent.futures.ThreadPoolExecutor(max_workers=16) as ex:
        for i, o in zip(idx, ex.map(one, idx)):
            outs[i] = o
    common.log("C16: %d case(s) timed out under the short watchdog, %d re-run alone" % (len(allidx), len(idx)))
    return outs


# --------------------------------------------------------------------------
# dispatch: surface operator -> opcode -> modular_arithmetic function, through
# the real value propagation (harness `field dispatch`), on closed expressions
# over literals.  A tree is ("n", z) | ("i", op, l, r) | ("p", op, x).
# --------------------------------------------------------------------------

INFIX_TOK = {"mul": "*", "div": "/", "add": "+", "sub": "-", "pow": "**", "idiv": "\\", "mod": "%", "shl": "<<",
             "shr": ">>", "le": "<=", "ge": ">=", "lt": "<", "gt": ">", "eq": "==", "neq": "!=", "or": "||",
             "and": "&&", "bor": "|", "band": "&", "bxor": "^"}
PREFIX_TOK = {"not": "!", "neg": "-", "compl": "~"}
INFIX = list(INFIX_TOK)
CMP = ["le", "ge", "lt", "gt", "eq", "neq"]
CHEAP = [o for o in INFIX if o not in ("div", "pow")]


def render(t, top=True):
    """Circom text of a tree; every compound operand is parenthesised."""
    if t[0] == "n":
        return str(t[1])
    if t[0] == "i":
        return "%s %s %s" % (render(t[2], False) if t[2][0] == "n" else "(" + render(t[2]) + ")", INFIX_TOK[t[1]],
                             render(t[3], False) if t[3][0] == "n" else "(" + render(t[3]) + ")")
    return "%s(%s)" % (PREFIX_TOK[t[1]], render(t[2]))


def tokens(t):
    if t[0] == "n":
        return "n %x" % t[1]
    if t[0] == "i":
        return "i %s %s %s" % (t[1], tokens(t[2]), tokens(t[3]))
    return "p %s %s" % (t[1], tokens(t[2]))


def parse_tokens(toks):
    k = toks.pop(0)
    if k == "n":
        return ("n", int(toks.pop(0), 16))
    if k == "i":
        op = toks.pop(0)
        l = parse_tokens(toks)
        r = parse_tokens(toks)
        return ("i", op, l, r)
    op = toks.pop(0)
    return ("p", op, parse_tokens(toks))


def dispatch_boundary(p):
    b = nbits(p)
    vals = {0, 1, 2, 3, p // 2 - 1, p // 2, p // 2 + 1, p // 2 + 2, p - 2, p - 1, (1 << 64) - 1, 1 << 64,
            (1 << (b - 1)) - 1, 1 << (b - 1), 255, 1 << 32}
    return sorted(v for v in vals if 0 <= v < p)


def dispatch_cases(ctx, curves):
    """Closed expressions: every infix / prefix operator on boundary, random and out-of-range literals, on
    Boolean operands, on mixed operands, and random nestings."""
    quick = ctx.tier == "quick"
    rng = ctx.rng
    out = []
    N = lambda z: ("n", z)
    for name, p in curves:
        cs = []
        vals = dispatch_boundary(p)
        _, counts = boundary(p)
        nrand = 24 if quick else 240
        rnd = [rng.randrange(p) for _ in range(2 * nrand)]
        band = [p, p + 1, 2 * p - 1, 2 * p + 3, 3 * p + (p // 2) + 1, (1 << 256) + 5, (1 << 300) - 1]
        for op in INFIX:
            if op == "div":
                pairs = [(a, b) for a in (0, 1, p // 2 + 1, p - 1) for b in (0, 1, 2, p // 2, p - 1)]
                pairs += [(rnd[2 * i], rnd[2 * i + 1]) for i in range(3 if quick else 30)]
            elif op == "pow":
                pairs = [(a, e) for a in (0, 1, 2, p // 2 + 1, p - 1) for e in (0, 1, 2, 3, 255, 65537, 1 << 31, 4000000000)]
                # full-size exponents are slow in the model (about a second each)
                pairs += [(0, p - 1), (2, p - 1)] + ([] if quick else [(3, p - 2), (rnd[0], rnd[1]), (p - 1, p - 1)])
            elif op in ("shl", "shr"):
                pairs = [(a, k) for a in vals[::2] + rnd[:4] for k in counts + [rng.randrange(1 << 9) for _ in range(3)]]
            else:
                pairs = [(a, b) for a in vals for b in vals]
                pairs += [(rnd[2 * i], rnd[2 * i + 1]) for i in range(nrand)]
            for a, b in pairs:
                cs.append(("i", op, N(a), N(b)))
            # literals at and above p: the literal is reduced, then the operator is applied
            if op not in ("div", "pow"):
                for a in band:
                    for b in (0, 1, 5, p - 1, p + 2):
                        cs.append(("i", op, N(a), N(b)))
                        cs.append(("i", op, N(b), N(a)))
            else:
                cs.append(("i", op, N(p + 3), N(2)))
                cs.append(("i", op, N(3), N(p + 2)))
                cs.append(("i", op, N(5), N(p)))
        # literals of the boundary bit lengths and of seeded other lengths (every length in the thorough tier), for
        # every operator; exponents at the word boundaries (an `as u64` on the exponent truncates 2^64 + 3 to 3)
        b_ = nbits(p)
        dlens = boundary_lengths(b_)
        rest = [n for n in range(1, b_ + 3) if n not in dlens]
        dlens = sorted(dlens + (rest if not quick else rng.sample(rest, min(10, len(rest)))))
        for n in dlens:
            x, y = of_length(rng, n), of_length(rng, rng.choice(dlens))
            # the oracle's quotient costs a full-size exponentiation: `/` at six lengths only
            for op in CHEAP + (["div"] if n in (64, 65, 128, 129, 192, b_) else []):
                cs.append(("i", op, N(x[1]), N(x[1])))
                cs.append(("i", op, N(x[2]), N(y[2])))
            for op in PREFIX_TOK:
                cs.append(("p", op, N(x[2])))
        for n in [n for n in (64, 65, 66, 128, 129, 130, 192, 193, b_, b_ + 1) if n <= b_ + 2] + ([] if quick else rest[::8]):
            e = of_length(rng, n)
            cs.append(("i", "pow", N(2), N(e[0] + 3)))
            if n < 100 or not quick:
                cs.append(("i", "pow", N(3), N(e[2])))
        for op in PREFIX_TOK:
            for a in vals + rnd[:nrand] + band:
                cs.append(("p", op, N(a)))
        for a in band + vals[:4]:
            cs.append(N(a))
        # Boolean operands (results of comparisons), all truth-value combinations
        t_, f_ = [("i", "lt", N(1), N(2)), ("i", "eq", N(p - 1), N(p - 1)), ("i", "ge", N(0), N(p // 2))], \
                 [("i", "gt", N(1), N(2)), ("i", "neq", N(7), N(7)), ("i", "lt", N(0), N(p // 2 + 1))]
        for op in INFIX:
            for x in (t_, f_):
                for y in (t_, f_):
                    cs.append(("i", op, rng.choice(x), rng.choice(y)))
            for bexp in (t_[0], f_[0]):        # mixed Boolean / field operands
                cs.append(("i", op, bexp, N(rng.choice(vals))))
                cs.append(("i", op, N(rng.choice(vals)), bexp))
        for op in PREFIX_TOK:
            for bexp in t_ + f_:
                cs.append(("p", op, bexp))
                cs.append(("p", op, ("p", "not", bexp)))
        # random nestings over the cheap operators (errors and missing constants propagate upwards)
        def tree(d):
            r = rng.random()
            if d == 0 or r < 0.25:
                return N(rng.choice([rng.choice(vals), rng.randrange(p), rng.randrange(1 << 8), rng.choice(band)]))
            if r < 0.4:
                return ("p", rng.choice(list(PREFIX_TOK)), tree(d - 1))
            return ("i", rng.choice(CHEAP), tree(d - 1), tree(d - 1))
        for _ in range(150 if quick else 2000):
            cs.append(tree(3))
        out += [(name, p, t) for t in cs]
    # regression corpus
    cdir = os.path.join(common.VERIF, "corpus", "C16")
    by_name = dict(curves)
    if os.path.isdir(cdir):
        for fn in sorted(os.listdir(cdir)):
            if not fn.endswith(".dispatch"):
                continue
            for line in open(os.path.join(cdir, fn)):
                line = line.split("#")[0].strip()
                if not line:
                    continue
                toks = line.split()
                cname = toks.pop(0)
                if cname in by_name:
                    p = by_name[cname]
                    toks = [("%x" % eval(x[1:], {"p": p})) if x.startswith("=") else x for x in toks]
                    out.append((cname, p, parse_tokens(toks)))
    rng.shuffle(out)      # run_lines shards contiguously: spread the expensive division / power cases
    return out


def code_only(text):
    """Rust text with comments dropped and white space squeezed: what an edit must change to change the code."""
    return " ".join(strip_rust_comments(text).split())


def linked_bigint_source():
    """(version, directory) of the num-bigint-dig package the tree links, asked of cargo itself
    (`cargo metadata --offline`), not guessed from Cargo.lock and a registry path."""
    import json
    rc, out, err = common.sh(["cargo", "metadata", "--format-version", "1", "--offline"], cwd=common.REPO, timeout=120)
    if rc != 0:
        return None, None, "cargo metadata failed: " + err.strip()[-200:]
    try:
        for pk in json.loads(out)["packages"]:
            if pk["name"] == "num-bigint-dig":
                return pk["version"], os.path.dirname(pk["manifest_path"]), pk["features"].get("default", [])
    except (ValueError, KeyError) as e:
        return None, None, "cargo metadata unreadable: %r" % (e,)
    return None, None, "no package num-bigint-dig in cargo metadata"


def modpow_anchor():
    """Model.FieldPow mirrors monty_modpow of num-bigint-dig as pinned by corpus/C16/modpow_anchor.json.  What is
    compared is the CODE: monty.rs of the package cargo links, comments dropped and white space squeezed
    (`monty_code_sha256`), its window width, the limb width feature, and the body of modular_arithmetic::pow without
    comments.  Version and checksum are recorded; a `cargo update` that leaves the mirrored routine as it is, a comment
    inside `pow`, or a reformatting is `same` (third audit: each of them used to be reported as a broken mirror)."""
    import hashlib
    import json
    want = json.load(open(os.path.join(common.VERIF, "corpus", "C16", "modpow_anchor.json")))
    informational = ("version", "checksum", "monty_sha256")
    got = {}
    lock = open(os.path.join(common.REPO, "Cargo.lock")).read()
    m = re.search(r'name = "num-bigint-dig"\nversion = "([^"]+)"\n(?:source = "[^"]*"\n)?(?:checksum = "([0-9a-f]+)")?', lock)
    if m:
        got["version"], got["checksum"] = m.group(1), m.group(2)
    toml = open(os.path.join(common.REPO, "circom_algebra", "Cargo.toml")).read()
    got["default_features"] = not re.search(r"num-bigint-dig\s*=\s*\{[^}]*default-features\s*=\s*false", toml)
    src = strip_rust_comments(open(os.path.join(common.REPO, "circom_algebra/src/modular_arithmetic.rs")).read())
    mp = re.search(r"pub\s+fn\s+pow\s*\(.*?\n\}", src, re.S)
    if mp:
        got["pow_body"] = " ".join(mp.group(0).split())
    version, pkgdir, feats = linked_bigint_source()
    if pkgdir is None:
        got["linked_source"] = feats
    else:
        got["linked_version"] = version
        try:
            text = open(os.path.join(pkgdir, "src", "monty.rs")).read()
            got["monty_sha256"] = hashlib.sha256(text.encode()).hexdigest()
            got["monty_code_sha256"] = hashlib.sha256(code_only(text).encode()).hexdigest()
            w = re.search(r"let n = (\d+);", text)
            got["window_bits"] = int(w.group(1)) if w else None
            got["u64_digit_default"] = "u64_digit" in feats
        except OSError as e:
            got["linked_source"] = "unreadable: %r" % (e,)
    # a key that could not be read counts as changed: nothing is compared "as far as available" (second audit)
    diff = [k for k in want if k not in informational and got.get(k, "<not readable>") != want[k]]
    noted = [k for k in informational if k in want and got.get(k) != want[k]]
    if diff:
        return {"status": "changed", "why": ", ".join("%s: %r (mirrored: %r)" % (k, got.get(k, "<not readable>"), want[k]) for k in diff), "got": got}
    return {"status": "same", "got": got, "keys_compared": sorted(k for k in want if k not in informational),
            "recorded_only_and_different": noted}


SEXP_TOK = re.compile(r"\(|\)|[^\s()]+")


def parse_dump(s):
    """(num H V) | (infix OP E E V) | (prefix OP E V) -> nested lists; None when it is not a dump."""
    toks = SEXP_TOK.findall(s)
    pos = [0]

    def go():
        t = toks[pos[0]]
        pos[0] += 1
        if t != "(":
            return t
        lst = []
        while toks[pos[0]] != ")":
            lst.append(go())
        pos[0] += 1
        return lst
    try:
        r = go()
        return r if pos[0] == len(toks) and isinstance(r, list) else None
    except IndexError:
        return None


def node_val(n):
    """'-' | ('b', 0|1) | ('f', int) of a dump node."""
    v = n[-1]
    if v == "-":
        return "-"
    return (v[0], int(v[1], 16))


def dispatch_verdict(p, dump, doc):
    """Is what the implementation attached to the root what Circom defines?  Returns None or a reason."""
    n = parse_dump(dump)
    if n is None:
        return "no constant tree: " + dump[:80]
    v = node_val(n)
    if doc.startswith("ok "):
        d = int(doc[3:], 16)
        if v == "-":
            # nothing attached although the value is defined: permitted for && and || on field elements, for
            # operators applied to Booleans / mixed operands (the implementation makes no claim), when an operand
            # has no constant, and for over-large shift counts (error instead of the defined 0)
            kids = [node_val(k) for k in n[2:-1]] if n[0] in ("infix", "prefix") else []
            if n[0] == "infix" and all(k != "-" and k[0] == "f" for k in kids):
                if n[1] in ("and", "or"):
                    return None
                if n[1] in ("shl", "shr"):
                    # exactly the case of theorem C16_dispatch_missing_constant_cases (second audit: this was
                    # `count >= nbits(p)`, wider than the theorem): the count fits no machine word in either direction
                    if word_overflow_count(kids[1][1], p) and d == 0:
                        return None
                return "no constant attached although both operands are constants and the result is defined"
            if n[0] == "infix" and n[1] in ("and", "or") and all(k != "-" and k[0] == "b" for k in kids):
                return "no constant attached to a Boolean operator on Boolean constants"
            if n[0] == "prefix" and kids[0] != "-" and ((kids[0][0] == "f") == (n[1] in ("neg", "compl"))):
                return "no constant attached to a prefix operator on a constant of its kind"
            if n[0] == "num":
                return "no constant attached to a literal"
            return None
        return None if v[1] == d and (v[0] == "f" or d in (0, 1)) else "attached constant differs from the documented value"
    if doc == "err div0":
        return None if v == "-" else "a constant is attached to an undefined expression (division by zero)"
    return "oracle fault: " + doc


def node_tree(n):
    """Dump node -> case tree ("n", z) | ("i", op, l, r) | ("p", op, x); None for anything else."""
    if not isinstance(n, list) or not n:
        return None
    if n[0] == "num" and len(n) == 3:
        return ("n", int(n[1], 16))
    if n[0] == "infix" and len(n) == 5:
        l, r = node_tree(n[2]), node_tree(n[3])
        return ("i", n[1], l, r) if l and r and n[1] in INFIX_TOK else None
    if n[0] == "prefix" and len(n) == 4:
        x = node_tree(n[2])
        return ("p", n[1], x) if x and n[1] in PREFIX_TOK else None
    return None


def extra_constants(ni, nm):
    """The nodes at which the implementation attaches a constant and the mirror none, when the two trees are
    otherwise the same (shape, operators, literals, every other value).  None when they differ in any other way.
    Such a node is not a wrong claim by itself: the caller asks the documented semantics about its subtree."""
    found = []

    def go(a, b):
        if not (isinstance(a, list) and isinstance(b, list)) or len(a) != len(b) or a[0] != b[0]:
            return False
        if a[0] in ("num", "infix", "prefix") and a[1] != b[1]:
            return False
        kids = {"infix": (2, 3), "prefix": (2,)}.get(a[0], ())
        for k in kids:
            if not go(a[k], b[k]):
                return False
        if a[-1] != b[-1]:
            if b[-1] == "-" and a[-1] != "-":
                found.append(a)
            else:
                return False
        return True
    return found if go(ni, nm) and found else None


def run_dispatch(ctx, HARNESS_BIN, MODEL_BIN, curves, run_stats):
    cs = dispatch_cases(ctx, curves)
    hl = ["%s %s" % (name, render(t).encode().hex()) for name, p, t in cs]
    ml = ["%x %s" % (p, tokens(t)) for name, p, t in cs]
    import concurrent.futures
    with concurrent.futures.ThreadPoolExecutor(max_workers=4) as ex:     # the four runs are independent
        j0 = ex.submit(run_cases, HARNESS_BIN, ["dispatch"], hl, stats=run_stats)
        jobs = [ex.submit(common.run_lines, b, a, l, shards=common.NPROC) for b, a, l in (
            (MODEL_BIN, ["dispatch-loop"], ml), (MODEL_BIN, ["dispatch"], ml), (MODEL_BIN, ["dispatch-doc"], ml))]
        impl = j0.result()
        loop, bott, doc = [j.result() for j in jobs]
    impl = retry_timeouts(HARNESS_BIN, ["dispatch"], hl, impl)
    if not (len(impl) == len(loop) == len(bott) == len(doc) == len(cs)):
        raise common.BuildError("dispatch outputs differ in length", "%d %d %d %d %d" % (len(impl), len(loop), len(bott), len(doc), len(cs)))
    disagreements, failing = [], []
    pending, extra = [], {"cases": 0, "nodes_accepted": 0, "samples": []}
    kinds, nontrivial, ops_seen = {}, set(), set()
    # hypotheses of the dispatch theorems, evaluated on every case: `prime p`, `2 < p`, `Z.log2 p < 2^64` (per curve),
    # `lits_nonneg e` (every literal of the tree), and `lit_dispatch p e = Ok o` of C16_pass_loop_reaches_dispatch
    # (the bottom-up dispatch answered: a constant or `-`, not panic / outoffuel)
    hyp = {"cases": len(cs), "field_hypotheses_hold": 0, "lits_nonneg_hold": 0, "bottom_up_answers": 0, "broken": []}
    field_ok = {p: field_hypotheses(p) for _, p in curves}

    def lits(t):
        return [t[1]] if t[0] == "n" else [z for k in t[2:] for z in lits(k)]
    for (name, p, t), li, lm, lb, ld in zip(cs, impl, loop, bott, doc):
        ri, rm, rb, rd = (x.split(" = ", 1)[1] for x in (li, lm, lb, ld))
        inp = "dispatch %s %x :: %s :: %s" % (name, p, render(t), tokens(t))
        h1, h2, h3 = field_ok[p], all(z >= 0 for z in lits(t)), (rb == "-" or rb.startswith("("))
        hyp["field_hypotheses_hold"] += h1
        hyp["lits_nonneg_hold"] += h2
        hyp["bottom_up_answers"] += h3
        if not (h1 and h2 and h3) and len(hyp["broken"]) < 5:
            hyp["broken"].append({"case": inp, "prime/2<p/log2": h1, "lits_nonneg": h2, "lit_dispatch": rb})
        if ri != rm:
            ni_, nm_ = parse_dump(ri), parse_dump(rm)
            ext = extra_constants(ni_, nm_) if ni_ and nm_ else None
            subs = [node_tree(x) for x in ext] if ext else None
            if subs and all(subs):
                # more constants than the mirror attaches, nothing else differs: judged by the documented value below
                pending.append((inp, name, p, ri, rm, [(x[-1], st) for x, st in zip(ext, subs)]))
            else:
                disagreements.append({"case": inp, "impl": ri, "model": rm})
        n = parse_dump(rm)
        root = n[-1] if n else None
        rootb = parse_dump(rb) if rb.startswith("(") else rb
        if n is None or root != rootb:
            disagreements.append({"case": inp, "impl": "pass loop mirror: " + rm, "model": "bottom-up dispatch: " + rb})
        if rd in ("panic", "outoffuel", "bad-line"):
            raise common.BuildError("dispatch oracle fault", inp + " -> " + rd)
        if rd.startswith("err other"):
            # the documented value does not exist: a divisor without inverse, i.e. the modulus is not prime.  This is a
            # failing input of "for every supported prime", not a fault of the machinery (it used to abort the run)
            failing.append({"case": inp, "impl": ri, "spec": "no value: a non-zero divisor has no inverse modulo %x, which is "
                                                              "therefore not a prime" % p})
            continue
        why = dispatch_verdict(p, ri, rd)
        if why:
            failing.append({"case": inp, "impl": ri, "spec": rd + " (" + why + ")"})
        ni = parse_dump(ri)
        k = "none" if ni is None else ("-" if ni[-1] == "-" else ni[-1][0])
        kinds[k] = kinds.get(k, 0) + 1
        if t[0] != "n":
            ops_seen.add(t[1])
            nontrivial.add((t[1], name, ri.rsplit(" ", 2)[-1] if k != "f" else ri.rsplit("(f ", 1)[-1]))
    # constants the implementation attaches where the mirror attaches none: each must be the documented value of its
    # subtree (then the mirror is merely behind a sound extension, counted and shown in the evidence - third audit:
    # correct extra `==` / `!=` arms for two Boolean constants used to be "correspondence broken"); otherwise the
    # subtree is a failing input
    if pending:
        flat = [(i, v, st) for i, pc in enumerate(pending) for v, st in pc[5]]
        docs = common.run_lines(MODEL_BIN, ["dispatch-doc"], ["%x %s" % (pending[i][2], tokens(st)) for i, v, st in flat])
        bad = set()
        for (i, v, st), ld in zip(flat, docs):
            inp, name, p = pending[i][0], pending[i][1], pending[i][2]
            rd = ld.split(" = ", 1)[1]
            ok = rd.startswith("ok ") and isinstance(v, list) and len(v) == 2 and int(v[1], 16) == int(rd[3:], 16) \
                and (v[0] == "f" or int(rd[3:], 16) in (0, 1))
            if ok:
                extra["nodes_accepted"] += 1
            else:
                bad.add(i)
                failing.append({"case": "dispatch %s %x :: %s :: %s" % (name, p, render(st), tokens(st)),
                                "impl": "constant %s attached (inside %s)" % (" ".join(v) if isinstance(v, list) else v, render(st)),
                                "spec": rd + " (a constant the mirror does not attach, and not the documented value)"})
        for i, pc in enumerate(pending):
            if i not in bad:
                extra["cases"] += 1
                if len(extra["samples"]) < 3:
                    extra["samples"].append({"case": pc[0], "impl": pc[3], "mirror": pc[4]})
        if extra["cases"]:
            common.log("C16 dispatch: the implementation attaches MORE constants than the mirror on %d case(s); each is the "
                       "documented value of its subtree (accepted, see coverage.dispatch.extra_constants)" % extra["cases"])
    return {"cases": len(cs), "disagreements": disagreements, "failing": failing, "kinds": kinds, "hypotheses": hyp,
            "extra_constants": extra,
            "nontrivial": len(nontrivial), "ops": sorted(ops_seen), "curves": [c[0] for c in curves],
            "samples": [impl[0], impl[len(impl) // 2]]}


def sweep_lines(primes):
    """The cases of the harness' `sweep`, in its order (fallback when the sweep process dies)."""
    return ["%s %x %x %x" % (op, a, b, p) for p in primes for op in OPS for a in range(p) for b in range(p)]


def limb_bytes(bits):
    """Bytes of the 64-bit limbs of a value of that many bits."""
    return 8 * ((max(bits, 1) + 63) // 64)


ALLOC_RULE = ("per operation, V = the bit size of the largest value the documented computation forms: max(bits a, bits b, "
              "bits p) + 2 for the additive, bitwise, comparison, Boolean, quotient and remainder functions; bits a + bits b "
              "+ 2 for *; bits a + bits b + bits p + 2 for /; for << and >> the model's sw_bits OF THAT CASE "
              "(Model.Field.shift_w: the power built, the product formed from it, the mask's power) plus one byte per bit of "
              "p (digit vector of the field); for ~ one byte per bit of max(bits a, 256); for ** the table of 16 residues "
              "(768 bytes inline) and values of 2 bits p + bits a + bits e + 2 bits.  Granted per allocation: 2 * limb bytes "
              "of V (capacity rounding) + 64, digit vectors and the table doubled likewise")


def alloc_bound(op, a, b, p, sw_bits=None):
    """Largest single allocation (bytes) granted to one call of `op`: see ALLOC_RULE (fourth audit: one bound sized
    for `**` was used for all 24 functions; it saw 2^(2^20), not a 10-kbit intermediate)."""
    la, lb, lp = nbits(abs(a)), nbits(abs(b)), nbits(p)
    m = max(la, lb, lp) + 2
    if op == "mul":
        return 2 * limb_bytes(max(m, la + lb + 2)) + 64
    if op == "div":
        return 2 * limb_bytes(la + lb + lp + 2) + 64
    if op == "compl":
        return 2 * max(la, 256) + 2 * limb_bytes(max(m, 258)) + 64
    if op in ("shl", "shr"):
        return 2 * lp + 2 * limb_bytes(max(m, sw_bits or 0)) + 64
    if op == "pow":
        return 2 * 768 + 4 * limb_bytes(2 * lp + la + lb + 2) + 64
    return 2 * limb_bytes(m) + 64


def shift_value_from_record(op_left_candidates, l, k, p):
    """The two values C16_shift_bounded_work allows when the record says `2^k built`, computed here from k."""
    b = max(1, nbits(p))          # radix_len p for p > 0
    left = ((l * (1 << k)) & ((1 << b) - 1)) % p
    q = abs(l) >> k               # Z.quot truncates towards zero
    right = -q if l < 0 else q
    return {"ok " + hx(left), "ok " + hx(right)}


def run(ctx, proofs):
    HARNESS_BIN = common.build_harness("field")
    MODEL_BIN = common.build_model("field")
    curves, curve_info = curves_by_execution(HARNESS_BIN)
    primes = sorted({p for _, p in curves})
    import time
    t0 = time.time()
    disagreements = []
    failing = []
    evaluations = 0
    run_stats = {}
    err_names = {}
    # (a) exhaustive small fields: mirror vs implementation vs spec.  A supported prime small enough joins the sweep.
    small = sorted(set(SMALL) | {p for p in primes if p < 600})
    sweep_args = [str(p) for p in small]
    import concurrent.futures
    with concurrent.futures.ThreadPoolExecutor(max_workers=3) as ex:     # independent runs, side by side
        j1 = ex.submit(common.sh, [HARNESS_BIN, "sweep"] + sweep_args, timeout=600)
        j2 = ex.submit(common.sh, [MODEL_BIN, "mirror-sweep"] + sweep_args, timeout=600)
        j3 = ex.submit(common.sh, [MODEL_BIN, "spec-sweep"] + sweep_args, timeout=600)
        rc0, impl, err0 = j1.result()
        rc, model, err = j2.result()
        rc2, spec, err2 = j3.result()
    if rc != 0 or rc2 != 0:
        raise common.BuildError("model driver sweep failed", (err + err2)[-2000:])
    model_l, spec_l = model.splitlines(), spec.splitlines()
    if rc0 != 0:
        # the sweep process died (stack overflow, failed allocation) or timed out: the same cases, one line each,
        # through the runner that survives it and names the case
        common.log("C16: harness sweep ended with rc=%d (%s); re-running its %d cases line by line"
                   % (rc0, (err0.strip().splitlines() or [""])[-1][:120], len(model_l)))
        impl_l = run_cases(HARNESS_BIN, [], sweep_lines(small), stats=run_stats)
        impl_l = retry_timeouts(HARNESS_BIN, [], sweep_lines(small), impl_l)
    else:
        impl_l = impl.splitlines()
    if not (len(impl_l) == len(model_l) == len(spec_l)):
        raise common.BuildError("sweep outputs differ in length", "%d %d %d" % (len(impl_l), len(model_l), len(spec_l)))
    evaluations += len(impl_l)
    nontrivial = set()
    for li, lm, ls in zip(impl_l, model_l, spec_l):
        head, ri = li.split(" = ")
        op, a, b, p = head.split()
        if ri.startswith("err "):
            err_names[op + ": " + ri] = err_names.get(op + ": " + ri, 0) + 1
        ri, rm, rs = canon_res(op, ri), canon_res(op, lm.split(" = ")[1]), canon_res(op, ls.split(" = ")[1])
        if ri != rm:
            disagreements.append({"case": head, "impl": ri, "model": rm})
        a, b, p = int(a, 16), int(b, 16), int(p, 16)
        ok = div_ok(a, b, p, ri) if op == "div" else spec_accepts(op, a, b, p, ri, rs)
        if not ok:
            failing.append({"case": head, "impl": ri, "spec": rs})
        nontrivial.add((op, ri))
    common.log("C16 small-field sweep: %.1fs" % (time.time() - t0))
    t0 = time.time()
    # (b) shipped primes
    cs, case_stats = cases(ctx, primes)
    lines = [fmt(c) for c in cs]
    evaluations += len(lines)
    canon = [0 <= c[1] < c[3] and 0 <= c[2] < c[3] for c in cs]
    canon_idx = [i for i, c in enumerate(cs) if canon[i] and c[0] != "div"]
    shift_idx = [i for i, c in enumerate(cs) if c[0] in ("shl", "shr")]
    # `pow` on canonical operands: Field.eval (a^b mod p) and FieldPow (the library routine's mirror); on other
    # operands FieldPow only (it mirrors the library's treatment of a negative base / exponent, Field.pow does not)
    pow_idx = [i for i, c in enumerate(cs) if c[0] == "pow"]
    with concurrent.futures.ThreadPoolExecutor(max_workers=5) as ex:
        j1 = ex.submit(run_cases, HARNESS_BIN, ["work"], lines, stats=run_stats)
        j2 = ex.submit(common.run_lines, MODEL_BIN, ["mirror"], lines, shards=common.NPROC)
        j3 = ex.submit(common.run_lines, MODEL_BIN, ["spec"], [lines[i] for i in canon_idx], shards=common.NPROC)
        j4 = ex.submit(common.run_lines, MODEL_BIN, ["shift-work"], [lines[i] for i in shift_idx], shards=common.NPROC)
        j5 = ex.submit(common.run_lines, MODEL_BIN, ["pow-steps"], [lines[i] for i in pow_idx], shards=common.NPROC)
        impl_l, model_l, spec_l, sw_l, steps_l = j1.result(), j2.result(), j3.result(), j4.result(), j5.result()
    impl_l = retry_timeouts(HARNESS_BIN, ["work"], lines, impl_l)
    spec_of = dict(zip(canon_idx, spec_l))
    steps_of = dict(zip(pow_idx, steps_l))
    kinds = {}
    work = {"cases": 0, "max_alloc_bytes": 0, "max_ratio_to_bound": 0.0, "over_bound": 0, "bound": ALLOC_RULE,
            "per_operation": {}}
    sw_of = {}             # shift case -> (value text, calls, built, bits) of Model.Field.shift_w
    for i, ls in zip(shift_idx, sw_l):
        msw = re.match(r"(.*) calls (\d+) built (-|[0-9a-f]+) bits (\d+)$", ls.split(" = ")[1])
        if msw:
            sw_of[i] = (msw.group(1), int(msw.group(2)), None if msw.group(3) == "-" else int(msw.group(3), 16), int(msw.group(4)))
    impl_res = []
    swork_impl = {"checked": 0, "broken": 0}
    for i, (c, li, lm) in enumerate(zip(cs, impl_l, model_l)):
        op, a, b, p = c
        ri = li.split(" = ")[1]
        m = re.match(r"(.*) maxalloc (\d+)$", ri)
        alloc = None
        if m:
            ri, alloc = m.group(1), int(m.group(2))
        impl_res.append(ri)
        rm = lm.split(" = ")[1]
        if ri.startswith("err "):
            err_names[op + ": " + ri] = err_names.get(op + ": " + ri, 0) + 1
        ri, rm = canon_res(op, ri), canon_res(op, rm)
        k = ri.split()[0] if not ri.startswith("err") else ri
        kinds[k] = kinds.get(k, 0) + 1
        if op == "pow" and not canon[i]:
            ms = re.match(r"ok ([0-9a-f]+) steps \d+$", steps_of[i].split(" = ")[1])
            rm = "ok " + ms.group(1) if ms else steps_of[i].split(" = ")[1]
        if ri != rm:
            disagreements.append({"case": lines[i], "impl": ri, "model": rm})
        if canon[i]:
            if op == "div":
                ok = div_ok(a, b, p, ri)
                rs = "relational: c*b = a (mod p), canonical; err exactly for b = 0"
            else:
                rs = canon_res(op, spec_of[i].split(" = ")[1])
                ok = spec_accepts(op, a, b, p, ri, rs)
            if not ok:
                failing.append({"case": lines[i], "impl": ri, "spec": rs})
            nontrivial.add((op, p, ri))
        elif ri in ("abort", "timeout", "not-run") or (ri == "panic" and not (op == "pow" and b < 0)):
            # outside the field elements the property fixes no value, but it does say "never panics" and "bounded
            # time": the only panic of the unchanged tree is the library's `**` with a negative exponent, which the
            # dispatch cannot produce (C16_dispatch_sound: attached constants are canonical)
            failing.append({"case": lines[i], "impl": ri, "spec": "an answer (value or error) in bounded time; no value is fixed for operands outside [0,p)"})
        elif op not in ("pow", "shl", "shr") and ri.startswith("ok "):
            # C16_canonical_on_any_integers, as an oracle on the implementation: whatever integers these functions
            # are given, the answer is canonical
            work["canonical_outside_field_checked"] = work.get("canonical_outside_field_checked", 0) + 1
            if not 0 <= int(ri[3:], 16) < p:
                failing.append({"case": lines[i], "impl": ri, "spec": "a canonical result in [0,p) (C16_canonical_on_any_integers)"})
        # bounded work, observed: the largest single allocation of the call
        if alloc is not None:
            work["cases"] += 1
            bd = alloc_bound(op, a, b, p, sw_of[i][3] if i in sw_of else None)
            work["max_alloc_bytes"] = max(work["max_alloc_bytes"], alloc)
            work["max_ratio_to_bound"] = max(work["max_ratio_to_bound"], round(alloc / bd, 3))
            po = work["per_operation"].setdefault(op, {"max_alloc": 0, "bound_there": 0, "min_bound": bd})
            if alloc >= po["max_alloc"]:
                po["max_alloc"], po["bound_there"] = alloc, bd
            po["min_bound"] = min(po["min_bound"], bd)
            if alloc > bd:
                work["over_bound"] += 1
                failing.append({"case": lines[i], "impl": "%s, after allocating %d bytes at once" % (ri, alloc),
                                "spec": "bounded work: no single allocation beyond %d bytes for this call of `%s` (the sizes "
                                        "of the values the documented computation forms, doubled, + 64)" % (bd, op)})
        # the work record of the model against the IMPLEMENTATION's value (fourth audit: it was only compared with the
        # model's own value): `2^k built` <=> the value is one of the two formed from 2^k; `none built` <=> 0 or the error
        if i in sw_of and ri not in ("abort", "timeout", "not-run"):
            built = sw_of[i][2]
            if built is None:
                okr = ri in ("ok 0", "err shift-count")
                want = "0 or the error (the model's record says no power of two is built)"
            else:
                okr = ri in shift_value_from_record(None, a, built, p)
                want = "(l * 2^k & mask) mod p or l / 2^k for k = %d (the model's record says 2^k is built)" % built
            swork_impl["checked"] += 1
            if not okr:
                swork_impl["broken"] += 1
                if canon[i]:
                    failing.append({"case": lines[i], "impl": ri, "spec": want})
                else:
                    disagreements.append({"case": lines[i], "impl": ri, "model": "work record of shift_w: " + want})
    common.log("C16 functions on the shipped primes: %.1fs" % (time.time() - t0))
    t0 = time.time()
    # (b'') the shift recursion as written (Model.Field.shift_w, fuel 64) on every shift case, negative and
    # non-canonical operands included: the conclusions of C16_shift_bounded_work evaluated on the extracted code
    # (value = the mirror's, <= 2 calls, power built below max(mask width, operand bits), intermediate bits bounded)
    swork = {"cases": len(shift_idx), "hypotheses_0<p_and_fuel>=2_hold": 0, "max_calls": 0, "max_built_exponent": 0,
             "max_intermediate_bits": 0, "conclusion_broken": []}
    swork["record_vs_implementation_value"] = swork_impl
    for i, ls in zip(shift_idx, sw_l):
        op, a, b, p = cs[i]
        swork["hypotheses_0<p_and_fuel>=2_hold"] += (p > 0)
        rm = model_l[i].split(" = ")[1]
        okc = False
        if i in sw_of:
            val, calls, built, bits_ = sw_of[i]
            la, lp = nbits(abs(a)), max(1, nbits(p))
            okc = (val == rm and 1 <= calls <= 2 and 0 <= bits_ <= la + lp + 1
                   and ((built is None and bits_ == 0 and val in ("ok 0", "err div0")) or
                        (built is not None and 0 <= built < (1 << 64) and (b == built or b == p - built)
                         and val in shift_value_from_record(None, a, built, p))))
            swork["max_calls"] = max(swork["max_calls"], calls)
            swork["max_built_exponent"] = max(swork["max_built_exponent"], built or 0)
            swork["max_intermediate_bits"] = max(swork["max_intermediate_bits"], bits_)
        if not okc and len(swork["conclusion_broken"]) < 5:
            swork["conclusion_broken"].append({"case": lines[i], "shift_w": ls.split(" = ")[1], "eval": rm})
    # (b') the multiplication sequence of `**` (Model.FieldPow): same value as the implementation, and the number of
    # modular multiplications it makes is the proved function of the exponent's limb count
    max_steps = 0
    npow_struct = 0
    for i in pow_idx:
        if not canon[i]:
            continue
        npow_struct += 1
        ls = steps_of[i]
        m = re.match(r"ok ([0-9a-f]+) steps (\d+)$", ls.split(" = ")[1])
        ri = impl_res[i]
        e = cs[i][2]
        want = 17 if e == 0 else 80 * ((e.bit_length() + 63) // 64) + 13
        if not m or "ok " + m.group(1) != ri or int(m.group(2)) != want:
            disagreements.append({"case": lines[i], "impl": ri, "model": "Model.FieldPow.modpow_steps: " + ls.split(" = ")[1]
                                  + " (expected %d multiplications)" % want})
        else:
            max_steps = max(max_steps, int(m.group(2)))
    anchor = modpow_anchor()
    common.log("C16 shift recursion, multiplication sequence of pow, anchor: %.1fs" % (time.time() - t0))
    t0 = time.time()
    # (c) the operator dispatch of expression_impl.rs through the real value propagation
    disp = run_dispatch(ctx, HARNESS_BIN, MODEL_BIN, curves, run_stats)
    evaluations += disp["cases"]
    disagreements += disp["disagreements"]
    failing += disp["failing"]
    common.log("C16 dispatch: %.1fs" % (time.time() - t0))
    if run_stats.get("aborts"):
        common.log("C16: the harness process died on %d case(s), first: %r" % (len(run_stats["aborts"]), run_stats["aborts"][0]))
    # verdict
    failing.sort(key=lambda f: f["impl"] not in ("abort", "timeout"))     # a killed process first: the gravest
    for f in failing[:5]:
        ctx.violation("field operation differs from Circom's documented semantics: %s gives %s, specified %s"
                      % (f["case"], f["impl"], f["spec"]), {"input": f["case"], "impl": f["impl"], "spec": f["spec"]})
    if not failing:
        if disagreements:
            d = disagreements[0]
            ctx.violation("correspondence Model.Field.eval vs modular_arithmetic.rs broken (%d cases, first: %s impl=%s model=%s); "
                          "the documented semantics held on every explored input" % (len(disagreements), d["case"], d["impl"], d["model"]),
                          {"broken": "correspondence field (Model.Field.eval)", "first": d, "count": len(disagreements)}, no_input=True)
        elif proofs["failures"]:
            ctx.violation("proof obligations of C16 no longer check: " + "; ".join(proofs["failures"])[:500],
                          {"broken": "props/C16.v", "failures": proofs["failures"]}, no_input=True)
    hyp = disp["hypotheses"]
    hyp["small_field_moduli_prime"] = {str(q): field_hypotheses(q) for q in small}
    hyp["shipped_primes"] = {hex(q): field_hypotheses(q) for q in primes}
    hyp["shift_bounded_work"] = swork
    if not all(hyp["small_field_moduli_prime"].values()) or not all(hyp["shipped_primes"].values()):
        hyp["broken"].append({"moduli": "a modulus of the sweep does not meet `prime p /\\ 2 < p /\\ Z.log2 p < 2^64`",
                              "which": [hex(q) for q in primes if not field_hypotheses(q)] + [str(q) for q in small if not field_hypotheses(q)]})
    if swork["conclusion_broken"] or swork["hypotheses_0<p_and_fuel>=2_hold"] != swork["cases"]:
        hyp["broken"].append({"shift_w": "C16_shift_bounded_work does not hold of the extracted recursion on an explored case",
                              "first": (swork["conclusion_broken"] or ["p <= 0"])[0]})
    # every supported curve must have been reached by name (otherwise its prime is not exercised): counted, not assumed
    variants = curve_info["variants_in_source"]
    if not curves:
        hyp["broken"].append({"curves": "no curve name of constants.rs is accepted by Curve::from_str", "info": curve_info})
    elif variants is not None and len(curve_info["curves"]) - len(curve_info["reached_only_as_default"]) < len(set(variants)):
        hyp["broken"].append({"curves": "enum Curve has %d variants %r, but only %d curves were reached by a name found in "
                                        "constants.rs: a supported prime is not exercised" % (len(set(variants)), variants, len(curves)),
                              "reached": sorted(curve_info["curves"])})
    if hyp["broken"] and not failing and not disagreements:
        ctx.violation("a hypothesis of the C16 theorems does not hold on an explored case: %r" % (hyp["broken"][0],),
                      {"broken": "hypotheses of the C16 dispatch / field theorems (prime p, 2 < p, log2 p < 2^64, lits_nonneg, "
                                 "lit_dispatch answers, every curve reached)", "first": hyp["broken"][0], "count": len(hyp["broken"])}, no_input=True)
    if anchor["status"] == "changed" and not failing and not disagreements:
        ctx.violation("the library code mirrored by Model.FieldPow (num-bigint-dig monty_modpow) is not the one linked: " + anchor["why"],
                      {"broken": "structure mirror Model.FieldPow vs num-bigint-dig", "anchor": anchor}, no_input=True)
    ctx.coverage.update({
        "pow_structure": {"cases": npow_struct, "max_multiplications": max_steps, "anchor": anchor},
        "evaluations": evaluations,
        "distinct_nontrivial": len(nontrivial),
        "rule": "every operation on every operand pair of the prime fields %s (exhaustive), plus boundary values "
                "(0,1,p/2-1..p/2+2,p-2,p-1, 2^k+-1 around 1,8,32,64,bits(p),253..256; shift counts 0,1,2,31..33,63..65,127..129,"
                "191..193,bits(p)-2..bits(p)+1, 2^20, 2^40, 2^64-1, 2^64, p/2, p/2+1 and p minus each of them; EVERY count "
                "0..bits(p)+1 and p-bits(p)-1..p-1 on ten operands), operands of EVERY bit length 1..bits(p)+2 (smallest, largest, "
                "seeded; same-length and mixed-length pairs) for every function, exponents of the boundary bit lengths and of "
                "seeded others (coverage.case_classes.bit_lengths) and seeded random operands for the primes obtained by executing "
                "Curve::from_str / UsefulConstants::new; operands outside [0,p) - at and above p, 2^256+5, 2^300-1, and NEGATIVE "
                "ones - against the mirror only; a case is distinct-nontrivial per (operation, prime, result) on canonical operands" % small,
        "exhaustive": False,
        "exhaustive_part": "all operand pairs of the fields %s: %d evaluations" % (small, len(spec.splitlines())),
        "samples": [disagreements[0]] if disagreements else [impl_l[7], impl_l[len(impl_l) // 2], impl_l[-1]],
        "result_kinds_big_primes": kinds,
        "error_variant_names_seen": err_names,
        "case_classes": case_stats,
        "work": work,
        "harness_process": {"died_on_cases": run_stats.get("aborts", [])[:5], "died_count": len(run_stats.get("aborts", [])),
                            "not_run": run_stats.get("not_run", 0), "restarts_after_timeout": run_stats.get("restarts_after_timeout", 0)},
        "curves_by_execution": curve_info,
        "disagreements_model_vs_impl": len(disagreements),
        "spec_failures": len(failing),
        "primes": [hex(p) for p in primes],
        "dispatch": {
            "rule": "closed expressions `function f() { return E; }` over literals run through parse, into_cfg, into_ssa "
                    "(Cfg::propagate_values) of the current tree, on the curves obtained by executing Curve::from_str: every infix and "
                    "prefix operator on boundary/random literals in [0,p), on literals at and above p (p, p+1, 2p-1, 2p+3, "
                    "~3.5p, 2^256+5, 2^300-1), on Boolean operands (all truth-value combinations), on mixed operands, and "
                    "random nestings of depth <= 3; compared node by node with the pass-loop mirror "
                    "(Model.FieldDispatch.propagate_lit over Model.Propagate.pv_expr), at the root with the bottom-up "
                    "dispatch (lit_dispatch) and with the documented value (Spec.DispatchSpec.doc_eval); a node at which the "
                    "implementation attaches a constant and the mirror none is judged by the documented value of its subtree; "
                    "distinct-nontrivial per (root operator, curve, attached constant)",
            "expressions": disp["cases"],
            "distinct_nontrivial": disp["nontrivial"],
            "operators": disp["ops"],
            "curves": disp["curves"],
            "root_constant_kinds": disp["kinds"],
            "extra_constants": disp["extra_constants"],
            "hypotheses_evaluated": hyp,
            "link_to_the_running_code": "theorems C16_pass_loop_reaches_dispatch / C16_pass_loop_total: for every closed expression "
                                        "the pass-loop mirror (propagate_lit) ends with every node carrying the bottom-up constant "
                                        "(lit_dispatch); the per-case comparison of the two remains as a check of the extracted code",
            "samples": disp["samples"],
        },
    })
    ctx.assumptions += [
        "num-bigint-dig's BigInt operators (%, /, &, |, ^, modpow, mod_inverse, to_radix_le) behave as Z.rem, Z.quot, Z.land, "
        "Z.lor, Z.lxor, a^b mod p, the canonical inverse and binary digits: observed by the correspondence (negative operands "
        "included since the third audit), not proved",
        "the shipped constants are prime (hypothesis `prime p` of the division and canonicity theorems): Miller-Rabin, 24 bases",
        "bounded time and bounded work are OBSERVED, on the explored cases only: every call (not only large counts) runs under a "
        "2 s watchdog (5 s for a closed expression; a case that times out is re-run alone with a 20 s limit before it counts); "
        "the largest SINGLE allocation (not the peak, not the total) of every direct call on the shipped primes - mode `work`; "
        "the in-process small-field sweep and the dispatch runs have no allocation oracle, the sweep no watchdog of its own "
        "(it is re-run line by line when it dies or hangs) - stays below a per-operation bound (coverage.work.bound; for a "
        "shift it is computed from the model's work record of that case; the counter is read before the answer is turned "
        "into text); a harness process that dies (stack overflow, failed allocation) is restarted and the case that killed "
        "it reported as a failing input.  PROVED, for the mirror of the recursion as written (value and work record from one "
        "definition) and all integer operands: a shift makes at most two calls, its record says `2^k built` exactly when "
        "its value is formed from 2^k (k below the mask width resp. the operand's bit size) and `none` exactly when the "
        "value is 0 or the error, and the recorded sizes (power, product, mask's power - not field - right, field / 2, the "
        "results of & / %, the digit vectors) stay within bits(l) + bits(p) + 1; `**` makes 17 or 80*limbs(e)+13 modular "
        "multiplications.  The record is compared with the IMPLEMENTATION's value on every shift case; the call count of "
        "the Rust recursion itself is not observable: only its termination and its allocations are",
        "Model.FieldPow mirrors the multiplication SEQUENCE of num-bigint-dig monty_modpow, a Montgomery product being "
        "represented by the residue it stands for; the count is proved for the mirror and cannot be observed on the library; that "
        "this is the code linked is checked on the package `cargo metadata` names: monty.rs without comments and white space "
        "(sha256), the window and limb widths and the body of modular_arithmetic::pow without comments "
        "(corpus/C16/modpow_anchor.json), not by execution; version and checksum are recorded only; an even "
        "modulus takes a library path that is not mirrored (every prime > 2 is odd: proved)",
        "for operands outside [0,p) the property fixes no value: there the implementation is compared with the mirror only (and "
        "must answer without panic or time-out, except `**` with a negative exponent, where the library panics and the mirror "
        "Model.FieldPow says so; the dispatch never passes one: C16_dispatch_sound)",
        "which variant of ArithmeticError names an over-large shift (DivisionByZero today) is not compared: the observable is "
        "value / error of the kind the property names (coverage.error_variant_names_seen records the names)",
        "the dispatch is driven on closed expressions over literals inside `function f() { return E; }` through parser, lowering "
        "and SSA of the current tree; operands that are variables, phi results, array elements or calls are C06 / C20's subject; "
        "the mirror of the operator tables is Model.Propagate.infix_values / prefix_values / pv_expr, shared with C06 and C20",
    ]
    if variants is None:
        ctx.assumptions.append("`enum Curve` could not be read from constants.rs: that every variant was reached by a name is "
                               "NOT checked in this run (the curves found by execution: %s)" % sorted(curve_info["curves"]))


def replay(ctx, rep):
    HARNESS_BIN = common.build_harness("field")
    MODEL_BIN = common.build_model("field")
    line = rep.get("input")
    if not line:
        print("replay names a broken obligation, not an input:", rep.get("broken"))
        return 1
    if line.startswith("dispatch "):
        head, text, toks = [x.strip() for x in line.split("::")]
        _, name, phex = head.split()
        out = run_cases(HARNESS_BIN, ["dispatch"], ["%s %s" % (name, text.encode().hex())], shards=1)[0].split(" = ", 1)[1]
        mir = common.run_lines(MODEL_BIN, ["dispatch-loop"], ["%s %s" % (phex, toks)])[0].split(" = ", 1)[1]
        doc = common.run_lines(MODEL_BIN, ["dispatch-doc"], ["%s %s" % (phex, toks)])[0].split(" = ", 1)[1]
        print("expression    :", text, "on", name)
        print("implementation:", out)
        print("mirror        :", mir)
        print("documented    :", doc)
        why = dispatch_verdict(int(phex, 16), out, doc)
        if why:
            print("verdict       :", why)
        return 0 if (why is None and out == mir) else 1
    op, a, b, p = line.split()
    a, b, p = (int(x, 16) for x in (a, b, p))
    out = run_cases(HARNESS_BIN, ["work"], [line], shards=1)[0].split(" = ", 1)[1]
    m = re.match(r"(.*) maxalloc (\d+)$", out)
    ri, alloc = (m.group(1), int(m.group(2))) if m else (out, None)
    mir = common.run_lines(MODEL_BIN, ["mirror"], [line])[0].split(" = ", 1)[1]
    print("implementation:", out)
    print("mirror        :", mir)
    ok = canon_res(op, ri) == canon_res(op, mir) or (op == "pow" and not (0 <= a < p and 0 <= b < p))
    if 0 <= a < p and 0 <= b < p:
        rs = common.run_lines(MODEL_BIN, ["spec"], [line])[0].split(" = ", 1)[1]
        print("specification :", rs)
        ok = div_ok(a, b, p, ri) if op == "div" else spec_accepts(op, a, b, p, canon_res(op, ri), canon_res(op, rs))
    elif ri in ("abort", "timeout", "panic") and not (op == "pow" and b < 0):
        ok = False
    swb = None
    if op in ("shl", "shr"):
        sw = common.run_lines(MODEL_BIN, ["shift-work"], [line])[0].split(" = ", 1)[1]
        print("shift_w       :", sw)
        msw = re.match(r"(.*) calls (\d+) built (-|[0-9a-f]+) bits (\d+)$", sw)
        if msw:
            swb = int(msw.group(4))
            built = None if msw.group(3) == "-" else int(msw.group(3), 16)
            cr = canon_res(op, ri)
            if cr not in ("abort", "timeout") and not (cr in ("ok 0", "err shift-count") if built is None
                                                       else cr in shift_value_from_record(None, a, built, p)):
                print("work record   : the value is not the one the record allows")
                ok = False
    if alloc is not None and alloc > alloc_bound(op, a, b, p, swb):
        print("bounded work  : %d bytes allocated at once, bound %d" % (alloc, alloc_bound(op, a, b, p, swb)))
        ok = False
    return 0 if ok else 1
