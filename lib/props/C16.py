"""C16 — field arithmetic. Correspondence: the Rust functions of
circom_algebra::modular_arithmetic vs the extracted Gallina mirror
(Model.Field.eval) on (a) every operand pair of seven small prime fields and
(b) boundary and seeded random operands of the three shipped primes; and
directly against the documented semantics (Spec.FieldSpec.spec_exec, proved
equal to spec) as the violation-search oracle.  (b') the multiplication
sequence of `**` (Model.FieldPow) against the implementation's value, and the
anchor of the mirrored library code.  (c) the operator dispatch of
expression_impl.rs: closed expressions over literals through the real parser,
lowering, SSA and value propagation vs the pass-loop mirror
(Model.FieldDispatch.propagate_lit), the bottom-up dispatch (lit_dispatch) and
the documented value (Spec.DispatchSpec.doc_eval)."""
import os
import re
import common

SMALL = [3, 5, 7, 11, 13, 17, 257]
OPS = ["add", "mul", "sub", "div", "idiv", "mod", "pow", "neg", "compl", "shl", "shr", "bor", "band",
       "bxor", "asbool", "not", "or", "and", "eq", "lt", "neq", "le", "gt", "ge"]
UNARY = {"neg", "compl", "asbool", "not"}


def primes_from_source():
    """The shipped primes, read from constants.rs of the current tree."""
    src = open(os.path.join(common.REPO, "program_structure/src/utils/constants.rs")).read()
    return [int(x) for x in re.findall(r'"(\d{15,})"', src)]


def nbits(x):
    return x.bit_length()


def spec_accepts(op, a, b, p, impl, spec):
    """Does the implementation's answer satisfy the documented semantics?"""
    if impl == spec:
        return True
    if op in ("shl", "shr") and impl.startswith("err") and spec == "ok 0":
        # error instead of the defined value 0: exactly the case of theorem C16_field_never_panics - the count fits
        # no machine word in either direction (second audit: this was `count >= nbits(p)`, wider than the theorem)
        return word_overflow_count(b, p)
    return False


def word_overflow_count(b, p):
    """The shift-count case of C16_field_never_panics / C16_dispatch_missing_constant_cases: 2^64 <= b /\ 2^64 <= p - b."""
    return (1 << 64) <= b and (1 << 64) <= p - b


def is_probable_prime(n):
    """Miller-Rabin with the first 24 primes as bases (deterministic far beyond 2^64; a probabilistic
    test with error < 4^-24 for the 254/255-bit constants): evaluates hypothesis `prime p`."""
    if n < 2:
        return False
    small = [2, 3, 5, 7, 11, 13, 17, 19, 23, 29, 31, 37, 41, 43, 47, 53, 59, 61, 67, 71, 73, 79, 83, 89]
    for q in small:
        if n % q == 0:
            return n == q
    d, r = n - 1, 0
    while d % 2 == 0:
        d //= 2
        r += 1
    for a in small:
        x = pow(a, d, n)
        if x in (1, n - 1):
            continue
        for _ in range(r - 1):
            x = x * x % n
            if x == n - 1:
                break
        else:
            return False
    return True


def field_hypotheses(p):
    """Hypotheses `prime p`, `2 < p`, `Z.log2 p < 2^64` of the C16 theorems, evaluated on one modulus."""
    return is_probable_prime(p) and p > 2 and (p.bit_length() - 1) < (1 << 64)


def div_ok(a, b, p, impl):
    if b % p == 0:
        return impl == "err div0"
    m = re.match(r"ok ([0-9a-f]+)$", impl)
    if not m:
        return False
    c = int(m.group(1), 16)
    return 0 <= c < p and (c * b) % p == a % p


def boundary(p):
    b = nbits(p)
    vals = {0, 1, 2, 3, p // 2 - 1, p // 2, p // 2 + 1, p // 2 + 2, p - 2, p - 1}
    for k in (1, 8, 31, 32, 63, 64, 65, b - 2, b - 1, b, 253, 254, 255, 256):
        for d in (-1, 0, 1):
            v = (1 << k) + d
            if 0 <= v < p:
                vals.add(v)
    counts = {0, 1, 2, b - 1, b, b + 1, 1 << 20, 1 << 40, (1 << 64) - 1, 1 << 64, p // 2, p // 2 + 1, p - 1, p - 2,
              p - b, p - b + 1, p - b - 1, p - (1 << 20), p - 64}
    counts = {c for c in counts if 0 <= c < p}
    return sorted(vals), sorted(counts)


def cases(ctx, primes):
    quick = ctx.tier == "quick"
    lines = []
    nrand = 150 if quick else 1500
    npow = 2 if quick else 12
    for p in primes:
        vals, counts = boundary(p)
        rnd = [ctx.rng.randrange(p) for _ in range(nrand)]
        small = [ctx.rng.randrange(1 << 16) for _ in range(6)]
        for op in OPS:
            if op in UNARY:
                for a in vals + rnd:
                    lines.append((op, a, 0, p))
            elif op in ("shl", "shr"):
                for a in vals[::2] + rnd[:10]:
                    for k in counts + small:
                        lines.append((op, a, k, p))
            elif op == "pow":
                for a in vals[:12] + rnd[:4]:
                    for e in [0, 1, 2, 3, 5, 64, 255, 65537] + small[:2]:
                        lines.append((op, a, e, p))
                # exponents between 2^20 and 2^32: the result must come from modular exponentiation in
                # bounded time, never from building the unreduced power (2 s watchdog in the harness)
                for a in (2, 3, vals[-1]):
                    for e in (1 << 20, 10 ** 7, (1 << 31) - 1, 1 << 31, (1 << 32) - 1, 4000000000, 1 << 32, 10 ** 12):
                        if e < p:
                            lines.append((op, a, e, p))
                for i in range(npow):     # full-size exponents are slow in the model
                    lines.append((op, rnd[i], rnd[-1 - i], p))
                lines.append((op, 2, p - 1, p))
            else:
                for a in vals:
                    for b in vals:
                        lines.append((op, a, b, p))
                for i in range(0, len(rnd) - 1, 2):
                    lines.append((op, rnd[i], rnd[i + 1], p))
        # non-canonical operands (literals may exceed p): mirror vs implementation only
        for op in OPS:
            if op == "pow":
                continue
            for a in (p, p + 1, 2 * p + 3, (1 << 256) + 5, (1 << 300) - 1):
                for b in (0, 1, 5, p - 1, p + 2):
                    lines.append((op, a, b, p))
    return lines


def fmt(c):
    return "%s %x %x %x" % c


def retry_timeouts(binary, args, lines, outs):
    """The harness watchdog measures wall time, and the machine is shared: a case answered `timeout` is run again in
    a process of its own with a 20 s limit (at most 16 cases, side by side); only a repeated time-out stands."""
    env = dict(common.ENV)
    env["VERIF_FIELD_WATCHDOG_SECS"] = "20"
    idx = [i for i, o in enumerate(outs) if o.endswith("= timeout")][:16]
    if not idx:
        return outs

    def one(i):
        rc, out, err = common.sh([binary] + args, inp=lines[i] + "\n", env=env, timeout=60)
        return out.strip().splitlines()[-1] if rc == 0 and out.strip() else outs[i]
    import concurrent.futures
    with concurrent.futures.ThreadPoolExecutor(max_workers=16) as ex:
        for i, o in zip(idx, ex.map(one, idx)):
            outs[i] = o
    common.log("C16: %d case(s) timed out under the short watchdog and were re-run alone" % len(idx))
    return outs


# --------------------------------------------------------------------------
# dispatch: surface operator -> opcode -> modular_arithmetic function, through
# the real value propagation (harness `field dispatch`), on closed expressions
# over literals.  A tree is ("n", z) | ("i", op, l, r) | ("p", op, x).
# --------------------------------------------------------------------------

INFIX_TOK = {"mul": "*", "div": "/", "add": "+", "sub": "-", "pow": "**", "idiv": "\\", "mod": "%", "shl": "<<",
             "shr": ">>", "le": "<=", "ge": ">=", "lt": "<", "gt": ">", "eq": "==", "neq": "!=", "or": "||",
             "and": "&&", "bor": "|", "band": "&", "bxor": "^"}
PREFIX_TOK = {"not": "!", "neg": "-", "compl": "~"}
INFIX = list(INFIX_TOK)
CMP = ["le", "ge", "lt", "gt", "eq", "neq"]
CHEAP = [o for o in INFIX if o not in ("div", "pow")]


def curves_from_source():
    """[(name accepted by Curve::from_str, prime)] read from constants.rs of the current tree."""
    src = open(os.path.join(common.REPO, "program_structure/src/utils/constants.rs")).read()
    out = []
    for name, num in re.findall(r'\b([A-Z][A-Za-z0-9_]*)\s*=>\s*\{?\s*"(\d{15,})"', src):
        out.append((name.upper(), int(num)))
    return out


def render(t, top=True):
    """Circom text of a tree; every compound operand is parenthesised."""
    if t[0] == "n":
        return str(t[1])
    if t[0] == "i":
        return "%s %s %s" % (render(t[2], False) if t[2][0] == "n" else "(" + render(t[2]) + ")", INFIX_TOK[t[1]],
                             render(t[3], False) if t[3][0] == "n" else "(" + render(t[3]) + ")")
    return "%s(%s)" % (PREFIX_TOK[t[1]], render(t[2]))


def tokens(t):
    if t[0] == "n":
        return "n %x" % t[1]
    if t[0] == "i":
        return "i %s %s %s" % (t[1], tokens(t[2]), tokens(t[3]))
    return "p %s %s" % (t[1], tokens(t[2]))


def parse_tokens(toks):
    k = toks.pop(0)
    if k == "n":
        return ("n", int(toks.pop(0), 16))
    if k == "i":
        op = toks.pop(0)
        l = parse_tokens(toks)
        r = parse_tokens(toks)
        return ("i", op, l, r)
    op = toks.pop(0)
    return ("p", op, parse_tokens(toks))


def dispatch_boundary(p):
    b = nbits(p)
    vals = {0, 1, 2, 3, p // 2 - 1, p // 2, p // 2 + 1, p // 2 + 2, p - 2, p - 1, (1 << 64) - 1, 1 << 64,
            (1 << (b - 1)) - 1, 1 << (b - 1), 255, 1 << 32}
    return sorted(v for v in vals if 0 <= v < p)


def dispatch_cases(ctx, curves):
    """Closed expressions: every infix / prefix operator on boundary, random and out-of-range literals, on
    Boolean operands, on mixed operands, and random nestings."""
    quick = ctx.tier == "quick"
    rng = ctx.rng
    out = []
    N = lambda z: ("n", z)
    for name, p in curves:
        cs = []
        vals = dispatch_boundary(p)
        _, counts = boundary(p)
        nrand = 24 if quick else 240
        rnd = [rng.randrange(p) for _ in range(2 * nrand)]
        band = [p, p + 1, 2 * p - 1, 2 * p + 3, 3 * p + (p // 2) + 1, (1 << 256) + 5, (1 << 300) - 1]
        for op in INFIX:
            if op == "div":
                pairs = [(a, b) for a in (0, 1, p // 2 + 1, p - 1) for b in (0, 1, 2, p // 2, p - 1)]
                pairs += [(rnd[2 * i], rnd[2 * i + 1]) for i in range(3 if quick else 30)]
            elif op == "pow":
                pairs = [(a, e) for a in (0, 1, 2, p // 2 + 1, p - 1) for e in (0, 1, 2, 3, 255, 65537, 1 << 31, 4000000000)]
                # full-size exponents are slow in the model (about a second each)
                pairs += [(0, p - 1), (2, p - 1)] + ([] if quick else [(3, p - 2), (rnd[0], rnd[1]), (p - 1, p - 1)])
            elif op in ("shl", "shr"):
                pairs = [(a, k) for a in vals[::2] + rnd[:4] for k in counts + [rng.randrange(1 << 9) for _ in range(3)]]
            else:
                pairs = [(a, b) for a in vals for b in vals]
                pairs += [(rnd[2 * i], rnd[2 * i + 1]) for i in range(nrand)]
            for a, b in pairs:
                cs.append(("i", op, N(a), N(b)))
            # literals at and above p: the literal is reduced, then the operator is applied
            if op not in ("div", "pow"):
                for a in band:
                    for b in (0, 1, 5, p - 1, p + 2):
                        cs.append(("i", op, N(a), N(b)))
                        cs.append(("i", op, N(b), N(a)))
            else:
                cs.append(("i", op, N(p + 3), N(2)))
                cs.append(("i", op, N(3), N(p + 2)))
                cs.append(("i", op, N(5), N(p)))
        for op in PREFIX_TOK:
            for a in vals + rnd[:nrand] + band:
                cs.append(("p", op, N(a)))
        for a in band + vals[:4]:
            cs.append(N(a))
        # Boolean operands (results of comparisons), all truth-value combinations
        t_, f_ = [("i", "lt", N(1), N(2)), ("i", "eq", N(p - 1), N(p - 1)), ("i", "ge", N(0), N(p // 2))], \
                 [("i", "gt", N(1), N(2)), ("i", "neq", N(7), N(7)), ("i", "lt", N(0), N(p // 2 + 1))]
        for op in INFIX:
            for x in (t_, f_):
                for y in (t_, f_):
                    cs.append(("i", op, rng.choice(x), rng.choice(y)))
            for bexp in (t_[0], f_[0]):        # mixed Boolean / field operands
                cs.append(("i", op, bexp, N(rng.choice(vals))))
                cs.append(("i", op, N(rng.choice(vals)), bexp))
        for op in PREFIX_TOK:
            for bexp in t_ + f_:
                cs.append(("p", op, bexp))
                cs.append(("p", op, ("p", "not", bexp)))
        # random nestings over the cheap operators (errors and missing constants propagate upwards)
        def tree(d):
            r = rng.random()
            if d == 0 or r < 0.25:
                return N(rng.choice([rng.choice(vals), rng.randrange(p), rng.randrange(1 << 8), rng.choice(band)]))
            if r < 0.4:
                return ("p", rng.choice(list(PREFIX_TOK)), tree(d - 1))
            return ("i", rng.choice(CHEAP), tree(d - 1), tree(d - 1))
        for _ in range(150 if quick else 2000):
            cs.append(tree(3))
        out += [(name, p, t) for t in cs]
    # regression corpus
    cdir = os.path.join(common.VERIF, "corpus", "C16")
    by_name = dict(curves)
    if os.path.isdir(cdir):
        for fn in sorted(os.listdir(cdir)):
            if not fn.endswith(".dispatch"):
                continue
            for line in open(os.path.join(cdir, fn)):
                line = line.split("#")[0].strip()
                if not line:
                    continue
                toks = line.split()
                cname = toks.pop(0)
                if cname in by_name:
                    p = by_name[cname]
                    toks = [("%x" % eval(x[1:], {"p": p})) if x.startswith("=") else x for x in toks]
                    out.append((cname, p, parse_tokens(toks)))
    rng.shuffle(out)      # run_lines shards contiguously: spread the expensive division / power cases
    return out


def modpow_anchor():
    """Model.FieldPow mirrors monty_modpow of num-bigint-dig as pinned by corpus/C16/modpow_anchor.json: the version and
    checksum in the tree's Cargo.lock, the text of monty.rs in the cargo registry, the window width and the limb width."""
    import glob
    import hashlib
    import json
    want = json.load(open(os.path.join(common.VERIF, "corpus", "C16", "modpow_anchor.json")))
    got = {}
    lock = open(os.path.join(common.REPO, "Cargo.lock")).read()
    m = re.search(r'name = "num-bigint-dig"\nversion = "([^"]+)"\nsource = "[^"]*"\nchecksum = "([0-9a-f]+)"', lock)
    if not m:
        return {"status": "changed", "why": "Cargo.lock has no registry entry for num-bigint-dig", "got": got}
    got["version"], got["checksum"] = m.group(1), m.group(2)
    toml = open(os.path.join(common.REPO, "circom_algebra", "Cargo.toml")).read()
    got["default_features"] = not re.search(r"num-bigint-dig\s*=\s*\{[^}]*default-features\s*=\s*false", toml)
    mp = re.search(r"pub fn pow\(.*?\n\}", open(os.path.join(common.REPO, "circom_algebra/src/modular_arithmetic.rs")).read(), re.S)
    if mp:
        got["pow_body"] = " ".join(mp.group(0).split())
    srcs = glob.glob(os.path.expanduser("~/.cargo/registry/src/*/num-bigint-dig-%s/src/monty.rs" % got["version"]))
    if srcs:
        text = open(srcs[0]).read()
        got["monty_sha256"] = hashlib.sha256(text.encode()).hexdigest()
        w = re.search(r"let n = (\d+);", text)
        got["window_bits"] = int(w.group(1)) if w else None
        feat = open(os.path.join(os.path.dirname(os.path.dirname(srcs[0])), "Cargo.toml")).read()
        got["u64_digit_default"] = bool(re.search(r'default = \[[^\]]*"u64_digit"', feat))
    # a key that could not be read (registry source gone, pattern no longer found) counts as changed: nothing is
    # compared "as far as available" (second audit)
    diff = [k for k in want if got.get(k, "<not readable>") != want[k]]
    if diff:
        return {"status": "changed", "why": ", ".join("%s: %r (mirrored: %r)" % (k, got.get(k, "<not readable>"), want[k]) for k in diff), "got": got}
    return {"status": "same", "got": got, "keys_compared": sorted(want)}


SEXP_TOK = re.compile(r"\(|\)|[^\s()]+")


def parse_dump(s):
    """(num H V) | (infix OP E E V) | (prefix OP E V) -> nested lists; None when it is not a dump."""
    toks = SEXP_TOK.findall(s)
    pos = [0]

    def go():
        t = toks[pos[0]]
        pos[0] += 1
        if t != "(":
            return t
        lst = []
        while toks[pos[0]] != ")":
            lst.append(go())
        pos[0] += 1
        return lst
    try:
        r = go()
        return r if pos[0] == len(toks) and isinstance(r, list) else None
    except IndexError:
        return None


def node_val(n):
    """'-' | ('b', 0|1) | ('f', int) of a dump node."""
    v = n[-1]
    if v == "-":
        return "-"
    return (v[0], int(v[1], 16))


def dispatch_verdict(p, dump, doc):
    """Is what the implementation attached to the root what Circom defines?  Returns None or a reason."""
    n = parse_dump(dump)
    if n is None:
        return "no constant tree: " + dump[:80]
    v = node_val(n)
    if doc.startswith("ok "):
        d = int(doc[3:], 16)
        if v == "-":
            # nothing attached although the value is defined: permitted for && and || on field elements, for
            # operators applied to Booleans / mixed operands (the implementation makes no claim), when an operand
            # has no constant, and for over-large shift counts (error instead of the defined 0)
            kids = [node_val(k) for k in n[2:-1]] if n[0] in ("infix", "prefix") else []
            if n[0] == "infix" and all(k != "-" and k[0] == "f" for k in kids):
                if n[1] in ("and", "or"):
                    return None
                if n[1] in ("shl", "shr"):
                    # exactly the case of theorem C16_dispatch_missing_constant_cases (second audit: this was
                    # `count >= nbits(p)`, wider than the theorem): the count fits no machine word in either direction
                    if word_overflow_count(kids[1][1], p) and d == 0:
                        return None
                return "no constant attached although both operands are constants and the result is defined"
            if n[0] == "infix" and n[1] in ("and", "or") and all(k != "-" and k[0] == "b" for k in kids):
                return "no constant attached to a Boolean operator on Boolean constants"
            if n[0] == "prefix" and kids[0] != "-" and ((kids[0][0] == "f") == (n[1] in ("neg", "compl"))):
                return "no constant attached to a prefix operator on a constant of its kind"
            if n[0] == "num":
                return "no constant attached to a literal"
            return None
        return None if v[1] == d and (v[0] == "f" or d in (0, 1)) else "attached constant differs from the documented value"
    if doc == "err div0":
        return None if v == "-" else "a constant is attached to an undefined expression (division by zero)"
    return "oracle fault: " + doc


def run_dispatch(ctx, HARNESS_BIN, MODEL_BIN):
    curves = curves_from_source()
    cs = dispatch_cases(ctx, curves)
    hl = ["%s %s" % (name, render(t).encode().hex()) for name, p, t in cs]
    ml = ["%x %s" % (p, tokens(t)) for name, p, t in cs]
    import concurrent.futures
    with concurrent.futures.ThreadPoolExecutor(max_workers=4) as ex:     # the four runs are independent
        jobs = [ex.submit(common.run_lines, b, a, l, shards=common.NPROC) for b, a, l in (
            (HARNESS_BIN, ["dispatch"], hl), (MODEL_BIN, ["dispatch-loop"], ml),
            (MODEL_BIN, ["dispatch"], ml), (MODEL_BIN, ["dispatch-doc"], ml))]
        impl, loop, bott, doc = [j.result() for j in jobs]
    impl = retry_timeouts(HARNESS_BIN, ["dispatch"], hl, impl)
    if not (len(impl) == len(loop) == len(bott) == len(doc) == len(cs)):
        raise common.BuildError("dispatch outputs differ in length", "%d %d %d %d %d" % (len(impl), len(loop), len(bott), len(doc), len(cs)))
    disagreements, failing = [], []
    kinds, nontrivial, ops_seen = {}, set(), set()
    # hypotheses of the dispatch theorems, evaluated on every case: `prime p`, `2 < p`, `Z.log2 p < 2^64` (per curve),
    # `lits_nonneg e` (every literal of the tree), and `lit_dispatch p e = Ok o` of C16_pass_loop_reaches_dispatch
    # (the bottom-up dispatch answered: a constant or `-`, not panic / outoffuel)
    hyp = {"cases": len(cs), "field_hypotheses_hold": 0, "lits_nonneg_hold": 0, "bottom_up_answers": 0, "broken": []}
    field_ok = {p: field_hypotheses(p) for _, p in curves}

    def lits(t):
        return [t[1]] if t[0] == "n" else [z for k in t[2:] for z in lits(k)]
    for (name, p, t), li, lm, lb, ld in zip(cs, impl, loop, bott, doc):
        ri, rm, rb, rd = (x.split(" = ", 1)[1] for x in (li, lm, lb, ld))
        inp = "dispatch %s %x :: %s :: %s" % (name, p, render(t), tokens(t))
        h1, h2, h3 = field_ok[p], all(z >= 0 for z in lits(t)), (rb == "-" or rb.startswith("("))
        hyp["field_hypotheses_hold"] += h1
        hyp["lits_nonneg_hold"] += h2
        hyp["bottom_up_answers"] += h3
        if not (h1 and h2 and h3) and len(hyp["broken"]) < 5:
            hyp["broken"].append({"case": inp, "prime/2<p/log2": h1, "lits_nonneg": h2, "lit_dispatch": rb})
        if ri != rm:
            disagreements.append({"case": inp, "impl": ri, "model": rm})
        n = parse_dump(rm)
        root = n[-1] if n else None
        rootb = parse_dump(rb) if rb.startswith("(") else rb
        if n is None or root != rootb:
            disagreements.append({"case": inp, "impl": "pass loop mirror: " + rm, "model": "bottom-up dispatch: " + rb})
        if rd.startswith("err other") or rd in ("panic", "outoffuel", "bad-line"):
            raise common.BuildError("dispatch oracle fault", inp + " -> " + rd)
        why = dispatch_verdict(p, ri, rd)
        if why:
            failing.append({"case": inp, "impl": ri, "spec": rd + " (" + why + ")"})
        ni = parse_dump(ri)
        k = "none" if ni is None else ("-" if ni[-1] == "-" else ni[-1][0])
        kinds[k] = kinds.get(k, 0) + 1
        if t[0] != "n":
            ops_seen.add(t[1])
            nontrivial.add((t[1], name, ri.rsplit(" ", 2)[-1] if k != "f" else ri.rsplit("(f ", 1)[-1]))
    return {"cases": len(cs), "disagreements": disagreements, "failing": failing, "kinds": kinds, "hypotheses": hyp,
            "nontrivial": len(nontrivial), "ops": sorted(ops_seen), "curves": [c[0] for c in curves],
            "samples": [impl[0], impl[len(impl) // 2]]}


def run(ctx, proofs):
    HARNESS_BIN = common.build_harness("field")
    MODEL_BIN = common.build_model("field")
    primes = primes_from_source()
    import time
    t0 = time.time()
    disagreements = []
    failing = []
    evaluations = 0
    # (a) exhaustive small fields: mirror vs implementation vs spec
    sweep_args = [str(p) for p in SMALL]
    import concurrent.futures
    with concurrent.futures.ThreadPoolExecutor(max_workers=3) as ex:     # independent runs, side by side
        j1 = ex.submit(common.sh, [HARNESS_BIN, "sweep"] + sweep_args, timeout=600)
        j2 = ex.submit(common.sh, [MODEL_BIN, "mirror-sweep"] + sweep_args, timeout=600)
        j3 = ex.submit(common.sh, [MODEL_BIN, "spec-sweep"] + sweep_args, timeout=600)
        rc0, impl, err0 = j1.result()
        rc, model, err = j2.result()
        rc2, spec, err2 = j3.result()
    if rc0 != 0:
        raise common.BuildError("harness field-sweep failed", err0[-2000:])
    if rc != 0 or rc2 != 0:
        raise common.BuildError("model driver sweep failed", (err + err2)[-2000:])
    impl_l, model_l, spec_l = impl.splitlines(), model.splitlines(), spec.splitlines()
    if not (len(impl_l) == len(model_l) == len(spec_l)):
        raise common.BuildError("sweep outputs differ in length", "%d %d %d" % (len(impl_l), len(model_l), len(spec_l)))
    evaluations += len(impl_l)
    nontrivial = set()
    for li, lm, ls in zip(impl_l, model_l, spec_l):
        head, ri = li.split(" = ")
        rm = lm.split(" = ")[1]
        rs = ls.split(" = ")[1]
        if ri != rm:
            disagreements.append({"case": head, "impl": ri, "model": rm})
        op, a, b, p = head.split()
        a, b, p = int(a, 16), int(b, 16), int(p, 16)
        ok = div_ok(a, b, p, ri) if op == "div" else spec_accepts(op, a, b, p, ri, rs)
        if not ok:
            failing.append({"case": head, "impl": ri, "spec": rs})
        nontrivial.add((op, ri))
    common.log("C16 small-field sweep: %.1fs" % (time.time() - t0))
    t0 = time.time()
    # (b) shipped primes
    cs = cases(ctx, primes)
    lines = [fmt(c) for c in cs]
    evaluations += len(lines)
    canon_idx = [i for i, c in enumerate(cs) if c[1] < c[3] and c[2] < c[3] and c[0] != "div"]
    with concurrent.futures.ThreadPoolExecutor(max_workers=3) as ex:
        j1 = ex.submit(common.run_lines, HARNESS_BIN, [], lines, shards=common.NPROC)
        j2 = ex.submit(common.run_lines, MODEL_BIN, ["mirror"], lines, shards=common.NPROC)
        j3 = ex.submit(common.run_lines, MODEL_BIN, ["spec"], [lines[i] for i in canon_idx], shards=common.NPROC)
        impl_l, model_l, spec_l = j1.result(), j2.result(), j3.result()
    impl_l = retry_timeouts(HARNESS_BIN, [], lines, impl_l)
    spec_of = dict(zip(canon_idx, spec_l))
    kinds = {}
    for i, (c, li, lm) in enumerate(zip(cs, impl_l, model_l)):
        ri = li.split(" = ")[1]
        rm = lm.split(" = ")[1]
        kinds[ri.split()[0] if not ri.startswith("err") else ri] = kinds.get(ri.split()[0] if not ri.startswith("err") else ri, 0) + 1
        if ri != rm:
            disagreements.append({"case": lines[i], "impl": ri, "model": rm})
        op, a, b, p = c
        if a < p and b < p:
            if op == "div":
                ok = div_ok(a, b, p, ri)
                rs = "relational: c*b = a (mod p), canonical; err exactly for b = 0"
            else:
                rs = spec_of[i].split(" = ")[1]
                ok = spec_accepts(op, a, b, p, ri, rs)
            if not ok:
                failing.append({"case": lines[i], "impl": ri, "spec": rs})
            nontrivial.add((op, p, ri))
    common.log("C16 functions on the shipped primes: %.1fs" % (time.time() - t0))
    t0 = time.time()
    # (b') the multiplication sequence of `**` (Model.FieldPow): same value as the implementation, and the number of
    # modular multiplications it makes is the proved function of the exponent's limb count
    pow_idx = [i for i, c in enumerate(cs) if c[0] == "pow" and c[1] < c[3] and c[2] < c[3]]
    steps_l = common.run_lines(MODEL_BIN, ["pow-steps"], [lines[i] for i in pow_idx], shards=common.NPROC)
    max_steps = 0
    for i, ls in zip(pow_idx, steps_l):
        m = re.match(r"ok ([0-9a-f]+) steps (\d+)$", ls.split(" = ")[1])
        ri = impl_l[i].split(" = ")[1]
        e = cs[i][2]
        want = 17 if e == 0 else 80 * ((e.bit_length() + 63) // 64) + 13
        if not m or "ok " + m.group(1) != ri or int(m.group(2)) != want:
            disagreements.append({"case": lines[i], "impl": ri, "model": "Model.FieldPow.modpow_steps: " + ls.split(" = ")[1]
                                  + " (expected %d multiplications)" % want})
        else:
            max_steps = max(max_steps, int(m.group(2)))
    anchor = modpow_anchor()
    common.log("C16 multiplication sequence of pow: %.1fs" % (time.time() - t0))
    t0 = time.time()
    # (c) the operator dispatch of expression_impl.rs through the real value propagation
    disp = run_dispatch(ctx, HARNESS_BIN, MODEL_BIN)
    evaluations += disp["cases"]
    disagreements += disp["disagreements"]
    failing += disp["failing"]
    common.log("C16 dispatch: %.1fs" % (time.time() - t0))
    # verdict
    for f in failing[:5]:
        ctx.violation("field operation differs from Circom's documented semantics: %s gives %s, specified %s"
                      % (f["case"], f["impl"], f["spec"]), {"input": f["case"], "impl": f["impl"], "spec": f["spec"]})
    if not failing:
        if disagreements:
            d = disagreements[0]
            ctx.violation("correspondence Model.Field.eval vs modular_arithmetic.rs broken (%d cases, first: %s impl=%s model=%s); "
                          "the documented semantics held on every explored input" % (len(disagreements), d["case"], d["impl"], d["model"]),
                          {"broken": "correspondence field (Model.Field.eval)", "first": d, "count": len(disagreements)}, no_input=True)
        elif proofs["failures"]:
            ctx.violation("proof obligations of C16 no longer check: " + "; ".join(proofs["failures"])[:500],
                          {"broken": "props/C16.v", "failures": proofs["failures"]}, no_input=True)
    hyp = disp["hypotheses"]
    hyp["small_field_moduli_prime"] = {str(q): field_hypotheses(q) for q in SMALL}
    hyp["shipped_primes"] = {hex(q): field_hypotheses(q) for q in primes}
    if not all(hyp["small_field_moduli_prime"].values()) or not all(hyp["shipped_primes"].values()):
        hyp["broken"].append({"moduli": "a modulus of the sweep does not meet `prime p /\\ 2 < p /\\ Z.log2 p < 2^64`"})
    if hyp["broken"] and not failing and not disagreements:
        ctx.violation("a hypothesis of the C16 theorems does not hold on an explored case: %r" % (hyp["broken"][0],),
                      {"broken": "hypotheses of the C16 dispatch / field theorems (prime p, 2 < p, log2 p < 2^64, lits_nonneg, "
                                 "lit_dispatch answers)", "first": hyp["broken"][0], "count": len(hyp["broken"])}, no_input=True)
    if anchor["status"] == "changed" and not failing and not disagreements:
        ctx.violation("the library code mirrored by Model.FieldPow (num-bigint-dig monty_modpow) is not the one linked: " + anchor["why"],
                      {"broken": "structure mirror Model.FieldPow vs num-bigint-dig", "anchor": anchor}, no_input=True)
    ctx.coverage.update({
        "pow_structure": {"cases": len(pow_idx), "max_multiplications": max_steps, "anchor": anchor},
        "evaluations": evaluations,
        "distinct_nontrivial": len(nontrivial),
        "rule": "every operation on every operand pair of the prime fields %s (exhaustive), plus boundary values "
                "(0,1,p/2-1..p/2+2,p-2,p-1, 2^k+-1 around 1,8,32,64,bits(p),253..256; shift counts around bits(p), 2^20, 2^40, "
                "2^64, p/2, p-bits(p), p-1) and seeded random operands for the primes read from constants.rs; "
                "a case is distinct-nontrivial per (operation, prime, result) on canonical operands" % SMALL,
        "exhaustive": False,
        "exhaustive_part": "all operand pairs of the fields %s: %d evaluations" % (SMALL, len(spec.splitlines())),
        "samples": [disagreements[0]] if disagreements else [impl_l[7], impl_l[len(impl_l) // 2], impl_l[-1]],
        "result_kinds_big_primes": kinds,
        "disagreements_model_vs_impl": len(disagreements),
        "spec_failures": len(failing),
        "primes": [hex(p) for p in primes],
        "dispatch": {
            "rule": "closed expressions `function f() { return E; }` over literals run through parse, into_cfg, into_ssa "
                    "(Cfg::propagate_values) of the current tree, on the curves read from constants.rs: every infix and "
                    "prefix operator on boundary/random literals in [0,p), on literals at and above p (p, p+1, 2p-1, 2p+3, "
                    "~3.5p, 2^256+5, 2^300-1), on Boolean operands (all truth-value combinations), on mixed operands, and "
                    "random nestings of depth <= 3; compared node by node with the pass-loop mirror "
                    "(Model.FieldDispatch.propagate_lit over Model.Propagate.pv_expr), at the root with the bottom-up "
                    "dispatch (lit_dispatch) and with the documented value (Spec.DispatchSpec.doc_eval); "
                    "distinct-nontrivial per (root operator, curve, attached constant)",
            "expressions": disp["cases"],
            "distinct_nontrivial": disp["nontrivial"],
            "operators": disp["ops"],
            "curves": disp["curves"],
            "root_constant_kinds": disp["kinds"],
            "hypotheses_evaluated": hyp,
            "link_to_the_running_code": "theorems C16_pass_loop_reaches_dispatch / C16_pass_loop_total: for every closed expression "
                                        "the pass-loop mirror (propagate_lit) ends with every node carrying the bottom-up constant "
                                        "(lit_dispatch); the per-case comparison of the two remains as a check of the extracted code",
            "samples": disp["samples"],
        },
    })
    ctx.assumptions += [
        "num-bigint-dig's BigInt operators (%, /, &, |, ^, modpow, mod_inverse, to_radix_le) behave as Z.rem, Z.quot, Z.land, "
        "Z.lor, Z.lxor, a^b mod p, the canonical inverse and binary digits: observed by the correspondence, not proved",
        "the three shipped constants are prime (hypothesis `prime p` of the division and canonicity theorems)",
        "wall-clock boundedness is observed (2 s watchdog on large shift counts and exponents, 5 s on closed expressions; a case that "
        "times out is re-run alone with a 20 s limit before it counts); the proved bounds are on the size of the power of two built "
        "by a shift and on the number of modular multiplications of `**`",
        "Model.FieldPow mirrors the multiplication SEQUENCE of num-bigint-dig 0.8.4 monty_modpow, a Montgomery product being "
        "represented by the residue it stands for; the count is proved for the mirror and cannot be observed on the library; that "
        "this is the code linked is checked by Cargo.lock version + checksum, the sha256 of monty.rs in the cargo registry, the "
        "window and limb widths and the text of modular_arithmetic::pow (corpus/C16/modpow_anchor.json), not by execution; an even "
        "modulus takes a library path that is not mirrored (every prime > 2 is odd: proved)",
        "the dispatch is driven on closed expressions over literals inside `function f() { return E; }` through parser, lowering "
        "and SSA of the current tree; operands that are variables, phi results, array elements or calls are C06 / C20's subject; "
        "the mirror of the operator tables is Model.Propagate.infix_values / prefix_values / pv_expr, shared with C06 and C20",
    ]


def replay(ctx, rep):
    HARNESS_BIN = common.build_harness("field")
    MODEL_BIN = common.build_model("field")
    line = rep.get("input")
    if not line:
        print("replay names a broken obligation, not an input:", rep.get("broken"))
        return 1
    if line.startswith("dispatch "):
        head, text, toks = [x.strip() for x in line.split("::")]
        _, name, phex = head.split()
        out = common.run_lines(HARNESS_BIN, ["dispatch"], ["%s %s" % (name, text.encode().hex())])[0].split(" = ", 1)[1]
        mir = common.run_lines(MODEL_BIN, ["dispatch-loop"], ["%s %s" % (phex, toks)])[0].split(" = ", 1)[1]
        doc = common.run_lines(MODEL_BIN, ["dispatch-doc"], ["%s %s" % (phex, toks)])[0].split(" = ", 1)[1]
        print("expression    :", text, "on", name)
        print("implementation:", out)
        print("mirror        :", mir)
        print("documented    :", doc)
        why = dispatch_verdict(int(phex, 16), out, doc)
        if why:
            print("verdict       :", why)
        return 0 if (why is None and out == mir) else 1
    out = common.run_lines(HARNESS_BIN, [], [line])
    spec = common.run_lines(MODEL_BIN, ["spec"], [line])
    print("implementation:", out[0])
    print("specification :", spec[0])
    return 0 if out[0] == spec[0] else 1
