"""C16 — field arithmetic. Correspondence: the Rust functions of
circom_algebra::modular_arithmetic vs the extracted Gallina mirror
(Model.Field.eval) on (a) every operand pair of seven small prime fields and
(b) boundary and seeded random operands of the three shipped primes; and
directly against the documented semantics (Spec.FieldSpec.spec_exec, proved
equal to spec) as the violation-search oracle."""
import os
import re
import common

SMALL = [3, 5, 7, 11, 13, 17, 257]
OPS = ["add", "mul", "sub", "div", "idiv", "mod", "pow", "neg", "compl", "shl", "shr", "bor", "band",
       "bxor", "asbool", "not", "or", "and", "eq", "lt", "neq", "le", "gt", "ge"]
UNARY = {"neg", "compl", "asbool", "not"}


def primes_from_source():
    """The shipped primes, read from constants.rs of the current tree."""
    src = open(os.path.join(common.REPO, "program_structure/src/utils/constants.rs")).read()
    return [int(x) for x in re.findall(r'"(\d{15,})"', src)]


def nbits(x):
    return x.bit_length()


def spec_accepts(op, a, b, p, impl, spec):
    """Does the implementation's answer satisfy the documented semantics?"""
    if impl == spec:
        return True
    if op in ("shl", "shr") and impl.startswith("err") and spec == "ok 0":
        # over-large count: error instead of the defined value 0 is allowed
        k = b if b <= p // 2 else p - b
        return k >= nbits(p)
    return False


def div_ok(a, b, p, impl):
    if b % p == 0:
        return impl == "err div0"
    m = re.match(r"ok ([0-9a-f]+)$", impl)
    if not m:
        return False
    c = int(m.group(1), 16)
    return 0 <= c < p and (c * b) % p == a % p


def boundary(p):
    b = nbits(p)
    vals = {0, 1, 2, 3, p // 2 - 1, p // 2, p // 2 + 1, p // 2 + 2, p - 2, p - 1}
    for k in (1, 8, 31, 32, 63, 64, 65, b - 2, b - 1, b, 253, 254, 255, 256):
        for d in (-1, 0, 1):
            v = (1 << k) + d
            if 0 <= v < p:
                vals.add(v)
    counts = {0, 1, 2, b - 1, b, b + 1, 1 << 20, 1 << 40, (1 << 64) - 1, 1 << 64, p // 2, p // 2 + 1, p - 1, p - 2,
              p - b, p - b + 1, p - b - 1, p - (1 << 20), p - 64}
    counts = {c for c in counts if 0 <= c < p}
    return sorted(vals), sorted(counts)


def cases(ctx, primes):
    quick = ctx.tier == "quick"
    lines = []
    nrand = 150 if quick else 1500
    npow = 2 if quick else 12
    for p in primes:
        vals, counts = boundary(p)
        rnd = [ctx.rng.randrange(p) for _ in range(nrand)]
        small = [ctx.rng.randrange(1 << 16) for _ in range(6)]
        for op in OPS:
            if op in UNARY:
                for a in vals + rnd:
                    lines.append((op, a, 0, p))
            elif op in ("shl", "shr"):
                for a in vals[::2] + rnd[:10]:
                    for k in counts + small:
                        lines.append((op, a, k, p))
            elif op == "pow":
                for a in vals[:12] + rnd[:4]:
                    for e in [0, 1, 2, 3, 5, 64, 255, 65537] + small[:2]:
                        lines.append((op, a, e, p))
                # exponents between 2^20 and 2^32: the result must come from modular exponentiation in
                # bounded time, never from building the unreduced power (2 s watchdog in the harness)
                for a in (2, 3, vals[-1]):
                    for e in (1 << 20, 10 ** 7, (1 << 31) - 1, 1 << 31, (1 << 32) - 1, 4000000000, 1 << 32, 10 ** 12):
                        if e < p:
                            lines.append((op, a, e, p))
                for i in range(npow):     # full-size exponents are slow in the model
                    lines.append((op, rnd[i], rnd[-1 - i], p))
                lines.append((op, 2, p - 1, p))
            else:
                for a in vals:
                    for b in vals:
                        lines.append((op, a, b, p))
                for i in range(0, len(rnd) - 1, 2):
                    lines.append((op, rnd[i], rnd[i + 1], p))
        # non-canonical operands (literals may exceed p): mirror vs implementation only
        for op in OPS:
            if op == "pow":
                continue
            for a in (p, p + 1, 2 * p + 3, (1 << 256) + 5, (1 << 300) - 1):
                for b in (0, 1, 5, p - 1, p + 2):
                    lines.append((op, a, b, p))
    return lines


def fmt(c):
    return "%s %x %x %x" % c


def run(ctx, proofs):
    HARNESS_BIN = common.build_harness("field")
    MODEL_BIN = common.build_model("field")
    primes = primes_from_source()
    disagreements = []
    failing = []
    evaluations = 0
    # (a) exhaustive small fields: mirror vs implementation vs spec
    sweep_args = [str(p) for p in SMALL]
    rc, impl, err = common.sh([HARNESS_BIN, "sweep"] + sweep_args, timeout=600)
    if rc != 0:
        raise common.BuildError("harness field-sweep failed", err[-2000:])
    rc, model, err = common.sh([MODEL_BIN, "mirror-sweep"] + sweep_args, timeout=600)
    rc2, spec, err2 = common.sh([MODEL_BIN, "spec-sweep"] + sweep_args, timeout=600)
    if rc != 0 or rc2 != 0:
        raise common.BuildError("model driver sweep failed", (err + err2)[-2000:])
    impl_l, model_l, spec_l = impl.splitlines(), model.splitlines(), spec.splitlines()
    if not (len(impl_l) == len(model_l) == len(spec_l)):
        raise common.BuildError("sweep outputs differ in length", "%d %d %d" % (len(impl_l), len(model_l), len(spec_l)))
    evaluations += len(impl_l)
    nontrivial = set()
    for li, lm, ls in zip(impl_l, model_l, spec_l):
        head, ri = li.split(" = ")
        rm = lm.split(" = ")[1]
        rs = ls.split(" = ")[1]
        if ri != rm:
            disagreements.append({"case": head, "impl": ri, "model": rm})
        op, a, b, p = head.split()
        a, b, p = int(a, 16), int(b, 16), int(p, 16)
        ok = div_ok(a, b, p, ri) if op == "div" else spec_accepts(op, a, b, p, ri, rs)
        if not ok:
            failing.append({"case": head, "impl": ri, "spec": rs})
        nontrivial.add((op, ri))
    # (b) shipped primes
    cs = cases(ctx, primes)
    lines = [fmt(c) for c in cs]
    evaluations += len(lines)
    impl_l = common.run_lines(HARNESS_BIN, [], lines, shards=common.NPROC)
    model_l = common.run_lines(MODEL_BIN, ["mirror"], lines, shards=common.NPROC)
    canon_idx = [i for i, c in enumerate(cs) if c[1] < c[3] and c[2] < c[3] and c[0] != "div"]
    spec_l = common.run_lines(MODEL_BIN, ["spec"], [lines[i] for i in canon_idx], shards=common.NPROC)
    spec_of = dict(zip(canon_idx, spec_l))
    kinds = {}
    for i, (c, li, lm) in enumerate(zip(cs, impl_l, model_l)):
        ri = li.split(" = ")[1]
        rm = lm.split(" = ")[1]
        kinds[ri.split()[0] if not ri.startswith("err") else ri] = kinds.get(ri.split()[0] if not ri.startswith("err") else ri, 0) + 1
        if ri != rm:
            disagreements.append({"case": lines[i], "impl": ri, "model": rm})
        op, a, b, p = c
        if a < p and b < p:
            if op == "div":
                ok = div_ok(a, b, p, ri)
                rs = "relational: c*b = a (mod p), canonical; err exactly for b = 0"
            else:
                rs = spec_of[i].split(" = ")[1]
                ok = spec_accepts(op, a, b, p, ri, rs)
            if not ok:
                failing.append({"case": lines[i], "impl": ri, "spec": rs})
            nontrivial.add((op, p, ri))
    # verdict
    for f in failing[:5]:
        ctx.violation("field operation differs from Circom's documented semantics: %s gives %s, specified %s"
                      % (f["case"], f["impl"], f["spec"]), {"input": f["case"], "impl": f["impl"], "spec": f["spec"]})
    if not failing:
        if disagreements:
            d = disagreements[0]
            ctx.violation("correspondence Model.Field.eval vs modular_arithmetic.rs broken (%d cases, first: %s impl=%s model=%s); "
                          "the documented semantics held on every explored input" % (len(disagreements), d["case"], d["impl"], d["model"]),
                          {"broken": "correspondence field (Model.Field.eval)", "first": d, "count": len(disagreements)}, no_input=True)
        elif proofs["failures"]:
            ctx.violation("proof obligations of C16 no longer check: " + "; ".join(proofs["failures"])[:500],
                          {"broken": "props/C16.v", "failures": proofs["failures"]}, no_input=True)
    ctx.coverage.update({
        "evaluations": evaluations,
        "distinct_nontrivial": len(nontrivial),
        "rule": "every operation on every operand pair of the prime fields %s (exhaustive), plus boundary values "
                "(0,1,p/2-1..p/2+2,p-2,p-1, 2^k+-1 around 1,8,32,64,bits(p),253..256; shift counts around bits(p), 2^20, 2^40, "
                "2^64, p/2, p-bits(p), p-1) and seeded random operands for the primes read from constants.rs; "
                "a case is distinct-nontrivial per (operation, prime, result) on canonical operands" % SMALL,
        "exhaustive": False,
        "exhaustive_part": "all operand pairs of the fields %s: %d evaluations" % (SMALL, len(spec.splitlines())),
        "samples": [disagreements[0]] if disagreements else [impl_l[7], impl_l[len(impl_l) // 2], impl_l[-1]],
        "result_kinds_big_primes": kinds,
        "disagreements_model_vs_impl": len(disagreements),
        "spec_failures": len(failing),
        "primes": [hex(p) for p in primes],
    })
    ctx.assumptions += [
        "num-bigint-dig's BigInt operators (%, /, &, |, ^, modpow, mod_inverse, to_radix_le) behave as Z.rem, Z.quot, Z.land, "
        "Z.lor, Z.lxor, a^b mod p, the canonical inverse and binary digits: observed by the correspondence, not proved",
        "the three shipped constants are prime (hypothesis `prime p` of the division and canonicity theorems)",
        "wall-clock boundedness is observed (2 s watchdog on large shift counts); the proved bound is on the size of the power of two built",
    ]


def replay(ctx, rep):
    HARNESS_BIN = common.build_harness("field")
    MODEL_BIN = common.build_model("field")
    line = rep.get("input")
    if not line:
        print("replay names a broken obligation, not an input:", rep.get("broken"))
        return 1
    out = common.run_lines(HARNESS_BIN, [], [line])
    spec = common.run_lines(MODEL_BIN, ["spec"], [line])
    print("implementation:", out[0])
    print("specification :", spec[0])
    return 0 if out[0] == spec[0] else 1
